#!/bin/bash
# usage: try_mutant.sh <patch.diff> <prop> [<prop> ...]  — apply to /repo, run the checks, undo
patch=$1; shift
cd /repo || exit 2
git apply "$patch" || { echo "patch does not apply"; exit 2; }
for p in "$@"; do
  out=$(cd /verif && ./check $p ${TIER:+--tier $TIER} 2>&1 | grep -E "^VIOLATION|Traceback|Error" | head -2)
  echo "$p -> ${out:-MISSED}"
done
git checkout -- .
