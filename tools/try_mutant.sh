#!/bin/bash
# usage: try_mutant.sh <patch.diff> <prop> [<prop> ...]  — apply to the scratch worktree /root/work/mutrepo (never to /repo), run the checks
# against it (SCODA_REPO), undo, regenerate Gen from /repo
patch=$1; shift
MUT=${MUTREPO:-/root/work/mutrepo}
[ -d $MUT ] || git -C /repo worktree add -q --detach $MUT HEAD
git -C $MUT checkout -q --detach $(git -C /repo rev-parse HEAD) && git -C $MUT checkout -- .
git -C $MUT apply "$patch" || { echo "patch does not apply"; exit 2; }
for p in "$@"; do
  out=$(cd /verif && SCODA_REPO=$MUT ./check $p ${TIER:+--tier $TIER} 2>&1 | grep -E "^VIOLATION|Traceback|Error" | head -2)
  echo "$p -> ${out:-MISSED}"
done
git -C $MUT checkout -- .
/venv/bin/python /verif/tools/gen_lean.py > /dev/null
