#!/venv/bin/python
"""conventions.py — the facts about /repo/scoda that the translators take for granted WITHOUT translating them, checked on every run.

The translators (tools/py2lean*.py) re-translate the BODIES of the functions they are asked for.  Everything else that decides
what those bodies mean in Python is a convention: which special methods a class defines (`__init__`, `__eq__`, `__lt__`,
`__setattr__`, `__getattr__`, `__hash__`, `copy` …: attribute access, comparison, sorting and copying go through them), class-level
attributes and descriptors, statements executed at module level (a rebinding of `PPQN`, a monkeypatch `Cls.method = f` after the
class body), decorators, the base classes, and the bodies of the few functions that are LINKED by name to a hand-written Lean
definition (`AbsoluteSequence.sort`, `Sequence.__init__`, `ReadOnlyMessage.__init__`, `MessageType.__lt__` …).
Audit round 3 (R2, R4, R5) showed 13 behaviour-changing edits in exactly these places that left every translation and every
equality theorem green.

This module computes a FINGERPRINT of all of that from the ASTs and compares it with `tools/conventions_baseline.json`, recorded
from the source the models were written and validated against.  Any difference is a broken obligation of EVERY property (reported
by gen_lean.py with file "*"): the tie no longer says what the code does, whatever the edit was.  A harmless edit trips it too —
then the check's search finds no failing input and says so; after review the baseline is re-recorded (`conventions.py --update`).

What is fingerprinted (normalised `ast.unparse` text, docstrings dropped):
  * per class: base classes, decorators, class-level statements that are not method definitions, the NAMES of all methods, and the
    decorators + body of every SPECIAL method (dunder methods and `copy`) and of every method in LINKED;
  * per module: every import statement, every top-level statement that is not a def/class or a docstring (logger assignments included),
    the name, signature and a body hash of every module-level function, and which of the settings constants it imports from where;
  * the values of scoda/config/default_settings.json.
A body hash of a module-level function that IS translated on every run (util.py) is redundant with its equality theorem; it is kept because a
translated function may also be called by spelling from untranslated glue.
  * per method (all of them): the signature with its default expressions (they run at import) and return annotation; and a hash of the body of
    every method that NO translator re-reads (`untranslated_methods` in the baseline, read off the generated files when the baseline is recorded).
Bodies of translated methods are NOT fingerprinted: the equality theorem is the check.
"""
import ast
import hashlib
import json
import os
import sys

REPO = os.environ.get("SCODA_REPO", "/repo")
HERE = os.path.dirname(os.path.abspath(__file__))
BASELINE = os.path.join(HERE, "conventions_baseline.json")

SPECIAL_EXTRA = {"copy"}
# (class, method) linked by name to hand-written Lean definitions without being translated
LINKED = {("AbsoluteSequence", "sort"), ("AbstractSequence", "add_message"), ("Sequence", "get_message_pairings"),
          ("Sequence", "get_interleaved_message_pairings"), ("Sequence", "get_message_times_of_type"),
          ("MidiFile", "save"), ("Sequence", "save"), ("Composition", "save"), ("Composition", "from_midi_file")}
SETTINGS_NAMES = {"PPQN", "NOTE_LOWER_BOUND", "NOTE_UPPER_BOUND", "DEFAULT_TIME_SIGNATURE_NUMERATOR", "DEFAULT_TIME_SIGNATURE_DENOMINATOR",
                  "MAX_VELOCITY", "VELOCITY_BINS", "DOTTED_ITERATIONS", "TRIPLET_DIVISORS", "SCALE_X3", "SCALE_LOGLIKE",
                  "DIFF_DISTANCE_UPPER_BOUND", "DIFF_DISTANCE_LOWER_BOUND", "PATTERN_LENGTH", "REGEX_PATH", "REGEX_SUBPATTERN"}


def norm(node):
    return " ".join(ast.unparse(node).split())


def body_text(fn):
    stmts = [s for s in fn.body if not (isinstance(s, ast.Expr) and isinstance(s.value, ast.Constant) and isinstance(s.value.value, str))]
    return " | ".join(norm(s) for s in stmts)


def is_doc(s):
    return isinstance(s, ast.Expr) and isinstance(s.value, ast.Constant) and isinstance(s.value.value, str)


def is_logger(s):
    return isinstance(s, ast.Assign) and len(s.targets) == 1 and isinstance(s.targets[0], ast.Name) and s.targets[0].id in ("LOGGER", "logger")


def untranslated_methods():
    """`Class.method` names that no translator emits (read off the generated files' `translated` lists): printing, plotting, the key guess, … —
    their bodies are hashed, because an edit there can still reach a property through shared module-level state (seeded change C20_agent9)"""
    import translation_coverage as tc
    tr = tc.gen_translated()
    return sorted(q for _, q, _, _ in tc.functions() if "." in q and q not in tr)


def fingerprint(repo=None, untranslated=None):
    """`untranslated`: the list of `Class.method` names whose bodies are hashed (None = all of them)"""
    repo = repo or REPO
    fp = {}
    root = os.path.join(repo, "scoda")
    for d, _, files in sorted(os.walk(root)):
        for f in sorted(files):
            if not f.endswith(".py"):
                continue
            path = os.path.join(d, f)
            rel = os.path.relpath(path, repo)
            tree = ast.parse(open(path).read())
            mod = {"top_level": [], "settings_imports": [], "imports": [], "functions": {}, "classes": {}, "decorated_functions": {}}
            for s in tree.body:
                if isinstance(s, (ast.Import, ast.ImportFrom)):
                    # EVERY import is recorded (audit round 4, A1): the translators resolve callees by spelling (`binary_insort`, `int`, `round`,
                    # `get_default_note_values` …), so `from math import ceil as int` or an import from another module changes what a translated
                    # body means without changing the generated text
                    mod["imports"].append(norm(s))
                    if isinstance(s, ast.ImportFrom):
                        for a in s.names:
                            if (s.module or "").endswith("settings") or a.name in SETTINGS_NAMES or a.name == "*" or (a.asname or "") in SETTINGS_NAMES:
                                mod["settings_imports"].append(f"from {s.module} import {a.name}" + (f" as {a.asname}" if a.asname else ""))
                    continue
                if is_doc(s):
                    continue
                if is_logger(s):
                    mod["top_level"].append(norm(s))          # the right-hand side too: a call there can do anything at import time
                    continue
                if isinstance(s, (ast.FunctionDef, ast.AsyncFunctionDef)):
                    # the NAMES of all module-level functions (a new `def binary_insort` in a calling module shadows the imported, translated
                    # one) with a hash of the body of those that no translator re-reads on every run
                    mod["functions"][s.name] = {"args": norm(s.args), "sha256": hashlib.sha256(body_text(s).encode()).hexdigest()[:16]}
                    if s.decorator_list:
                        mod["decorated_functions"][s.name] = [norm(x) for x in s.decorator_list]
                    continue
                if isinstance(s, ast.ClassDef):
                    c = {"bases": [norm(b) for b in s.bases], "keywords": [norm(k.value) for k in s.keywords],
                         "decorators": [norm(x) for x in s.decorator_list], "class_level": [], "methods": [], "special": {}}
                    for t in s.body:
                        if is_doc(t):
                            continue
                        if isinstance(t, (ast.FunctionDef, ast.AsyncFunctionDef)):
                            c["methods"].append(t.name)
                            special = (t.name.startswith("__") and t.name.endswith("__")) or t.name in SPECIAL_EXTRA or (s.name, t.name) in LINKED
                            decs = [norm(x) for x in t.decorator_list]
                            if special:
                                c["special"][t.name] = {"decorators": decs, "args": norm(t.args), "body": body_text(t)}
                            elif decs:
                                c["special"][t.name] = {"decorators": decs}
                            # the SIGNATURE of every method, defaults included (audit round 5, item 3): a default-argument expression runs when the
                            # class body runs, i.e. at import, and can do anything (`_hook=setattr(Message, "copy", ...)`); and the return annotation
                            sig = norm(t.args) + (" -> " + norm(t.returns) if t.returns is not None else "")
                            c.setdefault("signatures", {})[t.name] = sig
                            # the BODY of every method that no translator re-reads (listed in the baseline: `untranslated_methods`)
                            if untranslated is None or f"{s.name}.{t.name}" in untranslated:
                                c.setdefault("untranslated_bodies", {})[t.name] = hashlib.sha256(body_text(t).encode()).hexdigest()[:16]
                        else:
                            # enum members and other class-level statements; for enums their order and values matter
                            c["class_level"].append(norm(t))
                    if s.name in ("MusicMapping",) or len(" ".join(c["class_level"])) > 4000:
                        # big literal tables are dumped and checked value by value elsewhere (Gen/Tables.lean): keep a hash here
                        c["class_level"] = ["sha256:" + hashlib.sha256("\n".join(c["class_level"]).encode()).hexdigest()]
                    mod["classes"][s.name] = c
                    continue
                mod["top_level"].append(norm(s))
            fp[rel] = mod
    # nothing next to the package shadows a module the package imports (`<repo>/mido/`, `<repo>/numpy.py`: the harness puts <repo> first on sys.path)
    imported = set()
    for rel, mod in fp.items():
        for line in mod["imports"]:
            t = ast.parse(line).body[0]
            if isinstance(t, ast.Import):
                imported |= {a.name.split(".")[0] for a in t.names}
            elif t.level == 0 and t.module:
                imported.add(t.module.split(".")[0])
    imported.discard("scoda")
    fp["shadowed_imports"] = sorted(n for n in imported if os.path.exists(os.path.join(repo, n + ".py")) or os.path.isdir(os.path.join(repo, n)))
    # the settings VALUES are an input of the proofs (Gen/Settings.lean follows them); a changed default is a reviewable event like any other
    # convention (audit round 4, A2)
    cfg = os.path.join(root, "config", "default_settings.json")
    if os.path.exists(cfg):
        try:
            fp["scoda/config/default_settings.json"] = json.load(open(cfg))
        except Exception as e:
            fp["scoda/config/default_settings.json"] = {"unreadable": str(e)}
    return fp


def diff(base, cur, path=""):
    out = []
    if type(base) is not type(cur):
        return [f"{path}: {json.dumps(base)[:160]} -> {json.dumps(cur)[:160]}"]
    if isinstance(base, dict):
        for k in sorted(set(base) | set(cur)):
            if k not in cur:
                out.append(f"{path}/{k}: removed (was {json.dumps(base[k])[:160]})")
            elif k not in base:
                out.append(f"{path}/{k}: new: {json.dumps(cur[k])[:200]}")
            else:
                out += diff(base[k], cur[k], f"{path}/{k}")
    elif base != cur:
        out.append(f"{path}: {json.dumps(base)[:200]} -> {json.dumps(cur)[:200]}")
    return out


def check(repo=None):
    """list of differences between the recorded conventions and the source now (empty = conventions hold)"""
    with open(BASELINE) as f:
        base = json.load(f)
    return diff(base["fingerprint"], fingerprint(repo, set(base.get("untranslated_methods", []))))


def main():
    if "--update" in sys.argv:
        import subprocess
        head = subprocess.run(["git", "-C", REPO, "rev-parse", "HEAD"], capture_output=True, text=True).stdout.strip()
        un = untranslated_methods()
        with open(BASELINE, "w") as f:
            json.dump({"recorded_from": head, "untranslated_methods": un, "fingerprint": fingerprint(None, set(un))}, f, indent=1, sort_keys=True)
        print("baseline recorded from", head)
        return 0
    d = check()
    for x in d:
        print(x)
    return 1 if d else 0


if __name__ == "__main__":
    sys.exit(main())
