#!/bin/bash
# Mutation self-test of the tokeniser tie (tools/py2lean_tok.py + lean/SCoda/Props/TokTie.lean, TokTie2.lean, TokTie3.lean).
#
# For each small semantic edit of a scratch COPY of /repo/scoda: regenerate lean/SCoda/Gen/*.lean from the copy
# (SCODA_REPO=<copy> tools/gen_lean.py), check that Gen/TokFns.lean changed, and check that
# `lake build SCoda.Props.TokTie3` (which imports SCoda.Props.TokTie2 and SCoda.Props.TokTie) FAILS (or that the generation itself fails loudly).  On the unedited source it must PASS
# (checked first and last; the last run also restores the generated files).  /repo and /verif are never written.
#
#   usage: [ORIG=<source tree>] [SCRATCH=<dir>] tools/test_py2lean_tok.sh            (works on the copy of the framework it lives in)
set -u
HERE="$(cd "$(dirname "$0")/.." && pwd)"
SCRATCH="${SCRATCH:-/tmp/test_py2lean_tok}"
PY=/venv/bin/python
ORIG="${ORIG:-/repo}"          # the unedited source tree (ORIG=<tree with the repair of D31> for the mutants m13-m15)
F=tokenisation/notelike_tokenisation.py
fail=0

regen_and_build() {
  ( cd "$HERE" && SCODA_REPO="$1" $PY tools/gen_lean.py > "$SCRATCH/gen.json" 2>&1 )
  if $PY - "$SCRATCH/gen.json" <<'PYEOF'
import json, sys
r = json.load(open(sys.argv[1]))
sys.exit(0 if any(e["file"] == "TokFns.lean" for e in r["errors"]) else 1)
PYEOF
  then echo "FAIL(gen)"; return; fi
  if ( cd "$HERE/lean" && lake build SCoda.Props.TokTie3 > "$SCRATCH/last.log" 2>&1 ); then echo "PASS"; else echo "FAIL(build)"; fi
}

mutant() {   # $1 = name, $2 = python regex, $3 = replacement, $4 = description, [$5 = source file under scoda/, $6 = generated file]
  local name="$1" pat="$2" rep="$3" desc="$4" src="${5:-$F}" gen="${6:-TokFns.lean}"
  local root="$SCRATCH/$name"
  rm -rf "$root"; mkdir -p "$root"; cp -r "$ORIG/scoda" "$root/scoda"
  if ! $PY - "$root/scoda/$src" "$pat" "$rep" <<'PYEOF'
import re, sys
path, pat, rep = sys.argv[1:4]
src = open(path).read()
new, n = re.subn(pat, rep, src, count=1, flags=re.S)
if n != 1 or new == src:
    sys.exit(1)
open(path, "w").write(new)
PYEOF
  then echo "$name: the edit did not apply (source changed?)"; fail=1; return; fi
  cp "$HERE/lean/SCoda/Gen/$gen" "$SCRATCH/TokFns.before"
  local res; res=$(regen_and_build "$root")
  local changed="generated text changed"
  cmp -s "$SCRATCH/TokFns.before" "$HERE/lean/SCoda/Gen/$gen" && changed="GENERATED TEXT UNCHANGED"
  local why=""
  if [ "$res" = "FAIL(build)" ]; then why=$(grep -m1 -o 'error: [^ ]*\.lean:[0-9]*' "$SCRATCH/last.log" | sed 's/error: //'); fi
  if [ "$res" = "FAIL(gen)" ]; then why=$($PY -c "import json;print([e['error'] for e in json.load(open('$SCRATCH/gen.json'))['errors'] if e['file']=='TokFns.lean'][0][:160])"); fi
  echo "$name: $desc"
  echo "    -> $changed; TokTie build: $res  $why"
  if [ "$res" = "PASS" ] || { [ "$changed" = "GENERATED TEXT UNCHANGED" ] && [ "$res" != "FAIL(gen)" ]; }; then echo "    !! MUTANT SURVIVED"; fail=1; fi
  rm -rf "$root"
}

mkdir -p "$SCRATCH"
echo "== original source"
t0=$(date +%s); r=$(regen_and_build "$ORIG"); t1=$(date +%s)
echo "original: TokTie build: $r ($((t1 - t0)) s)"
[ "$r" = "PASS" ] || { echo "!! the unedited source does not pass"; fail=1; }

echo "== semantic edits (each must fail)"
mutant m1_rest_width 'REST\.value\}_\{step_size:02\}' 'REST.value}_{step_size:03}' \
  "_construct_dictionary: rest tokens padded to 3 digits (vocabulary text)"
mutant m2_keep_dash 'token = token\[:-1\]\n(\s*)self\.dictionary\[token\]' 'self.dictionary[token]' \
  "_construct_dictionary: 'token = token[:-1]' dropped (trailing '-' in note tokens)"
mutant m3_ts_range 'range\(self\.time_signature_range\[0\], self\.time_signature_range\[1\] \+ 1\)' 'range(self.time_signature_range[0], self.time_signature_range[1])' \
  "_construct_dictionary: the largest time signature is left out"
mutant m4_rest_ge 'if nxt_rest > self\.step_sizes\[-1\]:\n(\s*)rest_value' 'if nxt_rest >= self.step_sizes[-1]:\n\1rest_value' \
  "_apply_rest:  >  ->  >=  (same values; the generated text changes, the structural proof no longer applies)"
mutant m5_running_value 'msg_value != prv_value' 'msg_value == prv_value' \
  "tokenise: the value token is emitted when the value did NOT change"
mutant m6_ts_midbar 'elif msg_type == MessageType\.TIME_SIGNATURE:\n(\s*)if cur_time_bar > 0:' 'elif msg_type == MessageType.TIME_SIGNATURE:\n\1if cur_time_bar >= 0:' \
  "tokenise: time signatures are skipped also at bar start"
mutant m7_state_default '"prv_track", -1\)' '"prv_track", 0)' \
  "tokenise: default of prv_track in the state dictionary 0 instead of -1"
mutant m8_detok_bar 'cur_time \+= cur_bar_capacity_remaining\n(\s*)cur_time_bar = 0\n(\s*)cur_bar_capacity_remaining = cur_bar_capacity_total\n\n(\s*)for sequence in sequences' 'cur_time += cur_bar_capacity_remaining\n\2cur_bar_capacity_remaining = cur_bar_capacity_total\n\n\3for sequence in sequences' \
  "detokenise: BAR no longer resets cur_time_bar"
mutant m9_detok_default 'prv_value = 24' 'prv_value = 12' \
  "detokenise: default note value 12 instead of 24"
mutant m10_sort_order 'TokenisationPrefixes\.VELOCITY\.value, TokenisationPrefixes\.PITCH\.value\]' 'TokenisationPrefixes.PITCH.value, TokenisationPrefixes.VELOCITY.value]' \
  "sort_order: pitch before velocity (a fused velocity then applies to the NEXT note)"
mutant m11_info_pos 'cur_pos \+= 1' 'cur_pos += 2' \
  "get_info: positions counted in steps of 2"
mutant m12_untranslatable 'tokens\.append\(token\)' 'tokens.extend([token])' \
  "tokenise: list.extend (outside the subset: generation must fail loudly)"
mutant m13_revert_d31 'self\.step_sizes = sorted\(set\(self\.step_sizes\)\)' 'self.step_sizes.sort()' \
  "__init__: the repair of D31 reverted for step_sizes (in-place .sort(): repeated entries are kept)"
mutant m14_revert_d31_values 'self\.note_values = sorted\(set\(self\.note_values\)\)' 'self.note_values = sorted(self.note_values)' \
  "__init__: note_values sorted but not de-duplicated (sorted(x) instead of sorted(set(x)))"
mutant m15_set_unordered 'self\.step_sizes = sorted\(set\(self\.step_sizes\)\)' 'self.step_sizes = list(set(self.step_sizes))' \
  "__init__: list(set(x)) — a set has no order (outside the subset: generation must fail loudly)"
mutant m16_default_flag 'insert_bar_token: bool = True' 'insert_bar_token: bool = False' \
  "tokenise: the default of insert_bar_token becomes False (the tie is stated at the defaults of the signature: TokTie2.tokenise_defaults)"
mutant m17_standard_length 'MessageType\.TIME_SIGNATURE, MessageType\.INTERNAL\]\)' 'MessageType.TIME_SIGNATURE, MessageType.INTERNAL], standard_length=self.ppqn)' \
  "tokenise: standard_length=self.ppqn passed to get_interleaved_message_pairings (the link fixes the default PPQN: generation must fail loudly)"
mutant m18_not_implemented 'if not flag_running_time_signature:\n(\s*)raise NotImplementedError\(\)' 'if not flag_running_time_signature:\n\1raise TokenisationException("x")' \
  "tokenise: flag_running_time_signature=False raises TokenisationException (TokTie2.tokenise_not_running)"
mutant m19_bins_arg 'get_velocity_bins\(velocity_bins=velocity_bins\)' 'get_velocity_bins(velocity_bins=velocity_bins + 1)' \
  "__init__: one velocity bin more than asked for (TokTie.tokInit_eq' / TokTie2.tokInit_eq_any)"
mutant m20_util_bins 'bin_size / 2' 'bin_size / 3' \
  "util.get_velocity_bins: bins offset by a third of the bin size (the link is the TRANSLATED function: UtilTie.getVelocityBins_int in the import closure)" \
  misc/util.py UtilFns.lean
mutant m21_bar_flag_inverted 'if insert_bar_token:' 'if not insert_bar_token:' \
  "_apply_rest: the bar token is emitted when insert_bar_token is False (TokTieL.tokeniseApplyRest_eq, TokTieBarL.tokeniseApplyRest_eqB)"

echo "== original source again (restores the generated files)"
r=$(regen_and_build "$ORIG")
echo "original: TokTie build: $r"
[ "$r" = "PASS" ] || { echo "!! the unedited source does not pass"; fail=1; }
rm -rf "$SCRATCH"
[ $fail = 0 ] && echo "SELF-TEST OK: every edit changed the generated text (or stopped the generation) and broke the build; the original passes" || echo "SELF-TEST FAILED"
exit $fail
