#!/venv/bin/python
"""Differential check of the TRANSLATOR tools/py2lean_heap3.py: the generated `relativeSequenceToAbsoluteSequence`,
`absoluteSequenceToRelativeSequence`, `relativeSequencePad`, `relativeSequenceNormaliseRelative` of Gen/HeapFns3.lean are RUN
(`lake env lean --run`) against the real methods of SCODA_REPO (default /repo) on random inputs, ill-formed ones included, and compared on
OBJECT IDENTITY (real `id()`s) AND VALUE, with no renaming:

  * the real code is run with `Message.__init__` and `AbstractSequence.__init__` wrapped by a counter, so every object allocated during the
    call carries its ALLOCATION NUMBER; a message that existed before the call is recognised by `is` (`id()`) among the input objects and
    named `s<k>`, a message allocated by the call `n<allocation number>`;
  * the generated function runs on a heap that holds the input objects in message cells 0… and the receiver in list cell 0; an identity below
    the old allocation pointer is `s<k>`, the others `n<id - old pointer>`.
  Printed and compared: how the call ended (`ok` / the exception class), the result view's references and their values (the two conversions),
  the receiver's list after the call (references), the values of ALL input objects after the call (so a write into a receiver's message
  shows), and the numbers of messages / views allocated.  The lines agree iff the translation allocates the same objects in the same order,
  puts the same references in the same places, writes the same cells and raises in the same cases.

    /venv/bin/python tools/diff_py2lean_heap3.py [n_random] [seed]

Inputs: lists of all nine message types, well-formed or not: note-offs without note-on, unclosed notes, doubled note-ons, zero waits, messages
whose `time` is None (TypeError paths), whose `channel` was set to None after construction, NOTE_ONs without a note (TypeError in the sort
key comparison), the SAME message object listed twice or more, shuffled lists, repeated time / key signatures; padding lengths from
{-5, 0, 1, 7, 24, 96, 500}.  Exceptions are compared by class: TypeError / AttributeError ("NoneError": `HErr.noneAttr`), IndexError /
KeyError ("LookupError": `HErr.index`).
"""
import os
import random
import subprocess
import sys
import tempfile

HERE = os.path.join(os.path.dirname(os.path.abspath(__file__)), "..")
REPO = os.environ.get("SCODA_REPO", "/repo")
sys.path.insert(0, REPO)
LEAN_DIR = os.path.join(HERE, "lean")
import logging                                                   # noqa: E402
logging.disable(logging.CRITICAL)

from scoda.elements.message import Message                        # noqa: E402
from scoda.enumerations.message_type import MessageType           # noqa: E402
from scoda.misc.music_theory import Key                           # noqa: E402
from scoda.sequences.abstract_sequence import AbstractSequence    # noqa: E402
from scoda.sequences.absolute_sequence import AbsoluteSequence    # noqa: E402
from scoda.sequences.relative_sequence import RelativeSequence    # noqa: E402

TYPES = list(MessageType)
LEAN_TY = ["internal", "sequenceControl", "keySignature", "timeSignature", "controlChange", "programChange", "noteOff", "noteOn", "wait"]
FIELDS = ["channel", "time", "note", "velocity", "control", "program", "numerator", "denominator", "key"]
KEYS = list(Key)

COUNTER = {"msg": 0, "view": 0, "on": False}
_msg_init = Message.__init__
_view_init = AbstractSequence.__init__


def msg_init(self, *a, **k):
    if COUNTER["on"]:
        self._alloc = COUNTER["msg"]
        COUNTER["msg"] += 1
    _msg_init(self, *a, **k)


def view_init(self, *a, **k):
    if COUNTER["on"]:
        self._alloc = COUNTER["view"]
        COUNTER["view"] += 1
    _view_init(self, *a, **k)


Message.__init__ = msg_init
AbstractSequence.__init__ = view_init


def nz(v):
    if v is None:
        return -1
    if isinstance(v, Key):
        return KEYS.index(v)
    return int(v)


def val(m):
    return "(" + ",".join([str(TYPES.index(m.message_type))] + [str(nz(getattr(m, f))) for f in FIELDS]) + ")"


def rand_obj(rng, absolute):
    r = rng.random()
    ch, note = rng.randrange(0, 3), rng.randrange(60, 63)
    t = rng.choice([0, 0, 1, 3, 5, 7, 12, 24, 30, 60]) if absolute else None
    if absolute and rng.random() < 0.04:
        t = None
    if r < 0.28:
        o = dict(message_type=MessageType.NOTE_ON, channel=ch, note=(None if rng.random() < 0.05 else note), velocity=rng.randrange(1, 100), time=t)
    elif r < 0.52:
        o = dict(message_type=MessageType.NOTE_OFF, channel=ch, note=note, time=t)
    elif r < 0.80:
        wt = rng.choice([0, 1, 3, 5, 7, 12, 24, 30, 60])
        if rng.random() < 0.04:
            wt = None
        o = dict(message_type=MessageType.WAIT, channel=rng.choice([0, None, 1]), time=(t if absolute else wt))
    elif r < 0.85:
        o = dict(message_type=MessageType.CONTROL_CHANGE, channel=ch, control=7, velocity=3, time=t)
    elif r < 0.89:
        o = dict(message_type=MessageType.PROGRAM_CHANGE, channel=ch, program=rng.randrange(0, 5), time=t)
    elif r < 0.94:
        o = dict(message_type=MessageType.TIME_SIGNATURE, numerator=rng.choice([3, 4]), denominator=4, time=t)
    elif r < 0.98:
        o = dict(message_type=MessageType.KEY_SIGNATURE, key=rng.choice([2, 5]), time=t)
    else:
        o = dict(message_type=MessageType.INTERNAL, channel=ch, time=t)
    o["_none_channel"] = rng.random() < 0.06          # `msg.channel = None` after construction
    return o


def rand_case(rng):
    """(absolute?, objects, list: indices into objects, padding length)"""
    absolute = rng.random() < 0.3
    n = rng.randrange(0, 11)
    objs = [rand_obj(rng, absolute) for _ in range(n)]
    lst = list(range(n))
    if absolute and rng.random() < 0.7:
        lst.sort(key=lambda i: (objs[i]["time"] is None, objs[i]["time"] or 0))
    while n and rng.random() < 0.2:                     # the same object listed twice (or more)
        lst.insert(rng.randrange(len(lst) + 1), rng.randrange(n))
    if n and rng.random() < 0.1:
        rng.shuffle(lst)
    return absolute, objs, lst, rng.choice([-5, 0, 1, 7, 24, 96, 500])


def F(**k):
    k.setdefault("_none_channel", False)
    return k


FIXED = [
    (False, [F(message_type=MessageType.NOTE_ON, channel=0, note=60, velocity=64), F(message_type=MessageType.WAIT, time=24),
             F(message_type=MessageType.NOTE_OFF, channel=0, note=60), F(message_type=MessageType.WAIT, time=72)], [0, 1, 2, 3], 200),
    (False, [F(message_type=MessageType.WAIT, time=10)], [0, 0, 0], 35),
    (False, [F(message_type=MessageType.WAIT, time=10), F(message_type=MessageType.WAIT, time=5),
             F(message_type=MessageType.NOTE_ON, channel=1, note=60, velocity=64), F(message_type=MessageType.WAIT, time=5)], [0, 1, 2, 3], 20),
    (False, [F(message_type=MessageType.NOTE_ON, channel=0, note=60, velocity=64), F(message_type=MessageType.NOTE_ON, channel=0, note=60, velocity=3),
             F(message_type=MessageType.WAIT, time=3), F(message_type=MessageType.NOTE_OFF, channel=0, note=60),
             F(message_type=MessageType.NOTE_OFF, channel=0, note=60), F(message_type=MessageType.NOTE_OFF, channel=0, note=61)], [0, 1, 2, 3, 4, 5], 0),
    (False, [F(message_type=MessageType.NOTE_ON, channel=0, note=60, velocity=64), F(message_type=MessageType.WAIT, time=3)], [0, 1, 0, 1], 0),
    (False, [], [], 5),
    (True, [F(message_type=MessageType.NOTE_ON, channel=0, note=60, velocity=64, time=0), F(message_type=MessageType.NOTE_OFF, channel=0, note=60, time=24),
            F(message_type=MessageType.INTERNAL, channel=0, time=96)], [0, 1, 2], 0),
    (True, [F(message_type=MessageType.NOTE_ON, channel=0, note=60, velocity=64, time=5)], [0, 0], 0),
]


def name_of(m, src_objs):
    for k, o in enumerate(src_objs):
        if o is m:                                   # object identity: id(o) == id(m)
            return f"s{k}"
    return f"n{m._alloc}"


EXC = {"TypeError": "NoneError", "AttributeError": "NoneError", "IndexError": "LookupError", "KeyError": "LookupError"}


def mk_objs(objs):
    out = []
    for o in objs:
        kw = {k: v for k, v in o.items() if not k.startswith("_")}
        if kw.get("key") is not None:
            kw["key"] = KEYS[kw["key"]]
        m = Message(**kw)
        if o["_none_channel"]:
            m.channel = None
        out.append(m)
    return out


def real(fn, absolute, objs, lst, pad):
    src_objs = mk_objs(objs)
    view = AbsoluteSequence() if fn == "R" else RelativeSequence()
    view._messages = [src_objs[i] for i in lst]
    COUNTER.update(msg=0, view=0, on=True)
    res = None
    try:
        if fn == "A":
            res = view.to_absolute_sequence()
        elif fn == "R":
            res = view.to_relative_sequence()
        elif fn == "P":
            view.pad(pad)
        else:
            view.normalise_relative()
        head = "ok"
    except Exception as e:                            # noqa: BLE001
        head = "EXC " + EXC.get(type(e).__name__, type(e).__name__)
        res = None
    finally:
        COUNTER["on"] = False
    out = [head]
    if res is not None:
        out.append(f"v{res._alloc}:" + " ".join(name_of(m, src_objs) + val(m) for m in res._messages))
    out.append("src:" + " ".join(name_of(m, src_objs) + (val(m) if name_of(m, src_objs).startswith("n") else "") for m in view._messages))
    out.append("vals:" + " ".join(val(m) for m in src_objs))
    out.append(f"alloc:{COUNTER['msg']},{COUNTER['view']}")
    return " | ".join(out)


def lean_msg(o):
    t = LEAN_TY[TYPES.index(o["message_type"])]
    g = lambda f: nz(o.get(f))                        # noqa: E731
    ch = -1 if o["_none_channel"] else (0 if o.get("channel") is None else o["channel"])
    return (f"{{ ty := .{t}, ch := {ch}, time := {g('time')}, note := {g('note')}, vel := {g('velocity')}, ctl := {g('control')}, "
            f"prog := {g('program')}, num := {g('numerator')}, den := {g('denominator')}, key := {g('key')} }}")


DRIVER = r'''
import SCoda.Gen.HeapFns3
open SCoda SCoda.HeapOps SCoda.HeapLib SCoda.Gen

def tyNo (t : MType) : Nat := t.rank
def showMsg (m : Msg) : String :=
  "(" ++ ",".intercalate ([toString (tyNo m.ty)] ++ [m.ch, m.time, m.note, m.vel, m.ctl, m.prog, m.num, m.den, m.key].map toString) ++ ")"
def nameOf (n0 i : Nat) : String := if i < n0 then s!"s{i}" else s!"n{i - n0}"
def orc0 : Orc where
  toAbs := id
  toRel := id
  edit := fun _ v => v
  plan := fun _ _ => []
  perm := fun _ _ => []
  splitPlan := fun _ _ => []
  padMsg := fun _ _ => none
  barPadMsg := fun _ _ => none
  barSig := fun _ _ => (4, 4, -1)
  program := fun _ _ => -1
  tsMsg := fun n d => { ty := .timeSignature, num := n, den := d }
def gorc : GOrc := { orc := orc0, barPadDec := fun _ _ => false }

def errName : HErr → String
  | .index => "LookupError" | .fuel => "FUEL" | .stale => "SequenceException" | .seqError => "SequenceException" | .noneAttr => "NoneError"

/-- the input heap: the objects in message cells 0…, the receiver's view in list cell 0 -/
def mkHeap (objs : List Msg) (lst : List Nat) : Heap := ((newMsgs Heap.empty objs).1.newLst lst).1

def tailOf (h0 h : Heap) : List String :=
  ["src:" ++ " ".intercalate ((h.lst 0).map (fun i => nameOf h0.nMsg i ++ (if i < h0.nMsg then "" else showMsg (h.msg i)))),
   "vals:" ++ " ".intercalate ((List.range h0.nMsg).map (fun i => showMsg (h.msg i))), s!"alloc:{h.nMsg - h0.nMsg},{h.nLst - h0.nLst}"]

def caseView (f : GOrc → Nat → Nat → HM Nat) (objs : List Msg) (lst : List Nat) : String :=
  let h0 := mkHeap objs lst
  let r := f gorc 0 0 h0
  let h := r.2
  let parts := match r.1 with
    | .ok p => ["ok", s!"v{p - h0.nLst}:" ++ " ".intercalate ((h.lst p).map (fun i => nameOf h0.nMsg i ++ showMsg (h.msg i)))]
    | .error e => ["EXC " ++ errName e]
  " | ".intercalate (parts ++ tailOf h0 h)

def caseUnit (f : GOrc → Nat → Nat → HM Unit) (objs : List Msg) (lst : List Nat) : String :=
  let h0 := mkHeap objs lst
  let r := f gorc 0 0 h0
  let h := r.2
  let parts := match r.1 with
    | .ok _ => ["ok"]
    | .error e => ["EXC " ++ errName e]
  " | ".intercalate (parts ++ tailOf h0 h)

def caseA := caseView HeapFns3.relativeSequenceToAbsoluteSequence
def caseR := caseView HeapFns3.absoluteSequenceToRelativeSequence
def caseP (pad : Int) := caseUnit (fun g t s => HeapFns3.relativeSequencePad g t s pad)
def caseN := caseUnit HeapFns3.relativeSequenceNormaliseRelative

'''


def main():
    n_random = int(sys.argv[1]) if len(sys.argv) > 1 else 600
    seed = int(sys.argv[2]) if len(sys.argv) > 2 else 11
    rng = random.Random(seed)
    cases = list(FIXED) + [rand_case(rng) for _ in range(n_random)]
    want, defs, owner = [], [], []
    for ci, (absolute, objs, lst, pad) in enumerate(cases):
        lo = "[" + ", ".join(lean_msg(o) for o in objs) + "]"
        ll = "[" + ", ".join(map(str, lst)) + "]"
        fns = ["R"] if absolute else ["A", "P", "N"]
        if rng.random() < 0.15:
            fns = ["A", "R", "P", "N"]                 # the wrong kind of list for the method: more ill-formed inputs
        for fn in fns:
            want.append(f"{fn} " + real(fn, absolute, objs, lst, pad))
            defs.append(f'"{fn} " ++ case{fn} ' + (f"({pad}) " if fn == "P" else "") + f"{lo} {ll}")
            owner.append(ci)
    lines = [f"def c{i} : String := {d}" for i, d in enumerate(defs)]
    chunks = [list(range(i, min(i + 20, len(defs)))) for i in range(0, len(defs), 20)]
    for k, ch in enumerate(chunks):
        lines.append(f"def chunk{k} : List String := [" + ", ".join(f"c{i}" for i in ch) + "]")
    lines.append("def main : IO Unit := do")
    for k in range(len(chunks)):
        lines.append(f"  chunk{k}.forM IO.println")
    with tempfile.NamedTemporaryFile("w", suffix=".lean", dir=LEAN_DIR, prefix="HeapGen3Driver_", delete=False) as f:
        f.write(DRIVER + "\n".join(lines) + "\n")
        path = f.name
    try:
        p = subprocess.run(["lake", "env", "lean", "--run", path], cwd=LEAN_DIR, capture_output=True, text=True)
    finally:
        os.unlink(path)
    if p.returncode != 0:
        raise SystemExit("driver failed:\n" + (p.stdout + p.stderr)[-3000:])
    got = [ln for ln in p.stdout.split("\n") if ln[:2] in ("A ", "R ", "P ", "N ")]
    if len(got) != len(want):
        print(f"{len(want)} answers expected, {len(got)} received")
        return 1
    bad = 0
    stats = {"A": 0, "R": 0, "P": 0, "N": 0, "exc": 0, "dup object": 0, "fresh msgs": 0, "kept (receiver's) msgs in result": 0}
    for j, (w, g_) in enumerate(zip(want, got)):
        absolute, objs, lst, pad = cases[owner[j]]
        if w != g_:
            bad += 1
            if bad <= 10:
                print("DIFFERENCE", [(o["message_type"].name, {a: b for a, b in o.items() if a != "message_type"}) for o in objs], lst, pad)
                print("  real     :", w[:1500])
                print("  generated:", g_[:1500])
        stats[w[0]] += 1
        stats["exc"] += " EXC " in w[:8] or w[2:5] == "EXC"
        stats["dup object"] += len(set(lst)) < len(lst)
        head = w.split(" | vals:")[0]
        stats["fresh msgs"] += head.count(" n") + head.count(":n")
        stats["kept (receiver's) msgs in result"] += head.count(" s") + head.count(":s")
    print(f"{len(cases)} inputs, {len(want)} calls compared, {bad} differences; " + ", ".join(f"{a} {b}" for a, b in stats.items()))
    return 1 if bad else 0


if __name__ == "__main__":
    sys.exit(main())
