#!/venv/bin/python
"""test_translator.py <wrap|elem> — mutation self-test of a translation tie.

For each small semantic edit of a scratch COPY of $ORIG_REPO/scoda (default /repo): regenerate lean/SCoda/Gen/*.lean from the copy
(SCODA_REPO=<copy> tools/gen_lean.py), require that the generated file changed (or that generation failed loudly), and require
that `lake build <tie module>` FAILS.  The unedited source must PASS first and last (the last run restores the generated files).
The original is never written.  The conventions fingerprint (tools/conventions.py) is switched off for these runs (TIE_ONLY=1, the default), so that
the result says what the translation tie alone catches; with TIE_ONLY=0 the fingerprint is on as in a real check.  (The view, rel2, static, tok, abs2 and util translators have their own scripts tools/test_py2lean*.sh.)
"""
import json
import os
import re
import shutil
import subprocess
import sys

HERE = os.path.dirname(os.path.dirname(os.path.abspath(__file__)))
PY = "/venv/bin/python"
SCRATCH = os.environ.get("SCRATCH", "/root/work/translator_selftest")
ORIG_REPO = os.environ.get("ORIG_REPO", "/repo")      # the unedited source tree the mutants are cut from

SUITES = {
    "wrap": {
        "gen": "WrapFns.lean", "modules": ["SCoda.Props.WrapTie", "SCoda.Props.C04d"],
        "mutants": [
            ("w1_pad_no_invalidate", "sequences/sequence.py", r"(def pad\(self.*?self\.rel\.pad\(padding_length\)\n)\s*self\.invalidate_abs\(\)\n", r"\1",
             "Sequence.pad: invalidate_abs() dropped (the absolute view keeps the old content)"),
            ("w2_abs_flag", "sequences/sequence.py", r"(def abs\(self\).*?)self\._abs_stale = False", r"\1self._abs_stale = True",
             "abs property: stale flag not cleared after regenerating the view"),
            ("w3_cutoff_args", "sequences/sequence.py", r"self\.abs\.cutoff\(maximum_length=maximum_length, reduced_length=reduced_length\)", "self.abs.cutoff(maximum_length=reduced_length, reduced_length=maximum_length)",
             "Sequence.cutoff: arguments swapped"),
            ("w4_transpose_if", "sequences/sequence.py", r"(def transpose\(self.*?)if shifted:", r"\1if not shifted:",
             "Sequence.transpose: normalise / quantise_note_lengths run when nothing was shifted"),
            ("w5_scale_default", "sequences/sequence.py", r"def scale\(self, factor, meta_sequence=None, quantise_afterwards=True\)", "def scale(self, factor, meta_sequence=None, quantise_afterwards=False)",
             "Sequence.scale: default of quantise_afterwards flipped (a pinned default)"),
            ("w6_copy_flags", "sequences/sequence.py", r"(def copy\(self\) -> Sequence:.*?)(return cpy)", r"\1self._rel_stale = True\n        \2",
             "Sequence.copy: marks the receiver's relative view stale"),
            ("w7_decorator", "sequences/sequence.py", r"(\n    def normalise\(self\))", r"\n    @functools.lru_cache(maxsize=None)\1",
             "Sequence.normalise: decorated with a cache (generation must fail loudly)"),
            ("w8_overwrite", "sequences/sequence.py", r"(def overwrite_absolute_messages\(self.*?)self\.invalidate_rel\(\)", r"\1self.invalidate_abs()",
             "overwrite_absolute_messages: invalidates the wrong view"),
        ]},
    "elem": {
        "gen": "ElemFns.lean", "modules": ["SCoda.Props.ElemTie", "SCoda.Props.ElemTieCh"],
        "mutants": [
            ("e1_bar_capacity", "elements/bar.py", r"int\(self\.time_signature_numerator \* PPQN / \(self\.time_signature_denominator / 4\)\)",
             "int(self.time_signature_numerator * PPQN / (self.time_signature_denominator / 2))", "Bar.__init__: capacity for a /2 instead of /4 beat"),
            ("e2_bar_transpose", "elements/bar.py", r"return self\.sequence\.transpose\(transpose_by\)", "return self.sequence.transpose(-transpose_by)",
             "Bar.transpose: interval negated"),
            ("e3_bar_copy_key", "elements/bar.py", r"self\.time_signature_numerator, self\.time_signature_denominator, self\.key_signature([,)])", r"self.time_signature_numerator, self.time_signature_denominator, None\1",
             "Bar.copy: key signature dropped"),
            ("e4_track_copy", "elements/track.py", r"\[bar\.copy\(\) for bar in self\.bars\]", "[bar for bar in self.bars]",
             "Track.copy: bars shared with the original"),
            ("e5_to_sequence", "elements/bar.py", r"for bar in bars:\n(\s*)sequences\.append\(bar\.sequence\)", r"for bar in bars[:-1]:\n\1sequences.append(bar.sequence)",
             "Bar.to_sequence: last bar skipped"),
            ("e6_is_empty", "elements/bar.py", r"return self\.sequence\.is_empty\(\)", "return not self.sequence.is_empty()",
             "Bar.is_empty: negated"),
            ("e7_bar_copy_channel_0", "elements/bar.py", r"(self\.time_signature_denominator, self\.key_signature),\s*channel\)", r"\1, 0)",
             "Bar.copy: passes channel 0 (the unrepaired copy: the bar's own channel is read but not handed on)"),
            ("e8_bar_copy_stored_channel", "elements/bar.py",
             r"(self\.key_signature = key\n)(.*?)(self\.time_signature_denominator, self\.key_signature),\s*channel\)",
             r"\1        self.default_channel = default_channel\n\2\3, self.default_channel)",
             "Bar.__init__ stores default_channel and Bar.copy passes the stored construction-time channel (the first repair, f9ef398, which goes stale after set_channel)"),
            ("e9_bar_copy_last_sig", "elements/bar.py", r"time_signature = next\(\(msg for msg in self\.sequence\.rel\._messages",
             "time_signature = next((msg for msg in self.sequence.abs._messages",
             "Bar.copy: looks for the time signature in the ABSOLUTE view (another property read: the stale-flag protocol differs)"),
        ]},
}


def run(cmd, **kw):
    return subprocess.run(cmd, capture_output=True, text=True, **kw)


def regen_and_build(repo, suite):
    p = run([PY, os.path.join(HERE, "tools", "gen_lean.py")], cwd=HERE, env=dict(os.environ, SCODA_REPO=repo, **({"VERIF_SKIP_CONVENTIONS": "1"} if os.environ.get("TIE_ONLY", "1") == "1" else {})))
    try:
        rep = json.loads(p.stdout[p.stdout.index("{"):])
    except Exception:
        return "FAIL(gen)", (p.stderr or p.stdout)[-200:]
    errs = [e for e in rep["errors"] if e["file"] in (suite["gen"], "*")]
    if errs:
        return "FAIL(gen)", errs[0]["error"][:200]
    b = run(["lake", "build"] + suite["modules"], cwd=os.path.join(HERE, "lean"))
    if b.returncode == 0:
        return "PASS", ""
    m = re.search(r"error: (\S+\.lean:\d+)", b.stdout + b.stderr)
    return "FAIL(build)", m.group(1) if m else ""


def main():
    name = sys.argv[1]
    suite = SUITES[name]
    os.makedirs(SCRATCH, exist_ok=True)
    fail = False
    genpath = os.path.join(HERE, "lean", "SCoda", "Gen", suite["gen"])
    r, why = regen_and_build(ORIG_REPO, suite)
    print(f"original: {r} {why}")
    fail |= r != "PASS"
    for mname, file, pat, rep, desc in suite["mutants"]:
        root = os.path.join(SCRATCH, mname)
        shutil.rmtree(root, ignore_errors=True)
        shutil.copytree(os.path.join(ORIG_REPO, "scoda"), os.path.join(root, "scoda"))
        path = os.path.join(root, "scoda", file)
        src = open(path).read()
        new, n = re.subn(pat, rep, src, count=1, flags=re.S)
        if n != 1 or new == src:
            print(f"{mname}: the edit did not apply (source changed?)")
            fail = True
            continue
        open(path, "w").write(new)
        before = open(genpath).read()
        r, why = regen_and_build(root, suite)
        changed = open(genpath).read() != before
        print(f"{mname}: {desc}\n    -> generated text {'changed' if changed else 'UNCHANGED'}; tie build: {r} {why}")
        if r == "PASS" or (not changed and r != "FAIL(gen)"):
            print("    !! MUTANT SURVIVED")
            fail = True
        shutil.rmtree(root, ignore_errors=True)
    r, why = regen_and_build(ORIG_REPO, suite)
    print(f"original again: {r} {why}")
    fail |= r != "PASS"
    shutil.rmtree(SCRATCH, ignore_errors=True)
    print("SELF-TEST FAILED" if fail else "SELF-TEST OK: every edit changed the generated text (or was refused) and broke the tie; the original passes")
    return 1 if fail else 0


if __name__ == "__main__":
    sys.exit(main())
