#!/bin/bash
# Mutation self-test of the view tie (tools/py2lean.py + lean/SCoda/Props/ViewTie.lean).
#
# For each small semantic edit of a scratch COPY of /repo/scoda: regenerate lean/SCoda/Gen/*.lean from the copy
# (SCODA_REPO=<copy> tools/gen_lean.py), check that Gen/ViewFns.lean changed, and check that
# `lake build SCoda.Props.ViewTie` FAILS.  On the unedited source it must PASS (checked first and last; the last
# run also restores the generated files).  /repo and /verif are never written; scratch copies are removed.
#
#   usage: tools/test_py2lean.sh            (from anywhere; works on the copy of the framework it lives in)
set -u
HERE="$(cd "$(dirname "$0")/.." && pwd)"
SCRATCH="${SCRATCH:-/root/work/viewtie/scratch}"
PY=/venv/bin/python
ORIG=/repo
fail=0

regen_and_build() {   # $1 = repo root to translate; prints PASS / FAIL(gen) / FAIL(build); log in $SCRATCH/last.log
  ( cd "$HERE" && SCODA_REPO="$1" $PY tools/gen_lean.py > "$SCRATCH/gen.json" 2>&1 )
  if $PY - "$SCRATCH/gen.json" <<'EOF'
import json, sys
r = json.load(open(sys.argv[1]))
sys.exit(0 if any(e["file"] == "ViewFns.lean" for e in r["errors"]) else 1)
EOF
  then echo "FAIL(gen)"; return; fi
  if ( cd "$HERE/lean" && lake build SCoda.Props.ViewTie > "$SCRATCH/last.log" 2>&1 ); then echo "PASS"; else echo "FAIL(build)"; fi
}

mutant() {   # $1 = name, $2 = file below scoda/, $3 = python regex, $4 = replacement, $5 = description
  local name="$1" file="$2" pat="$3" rep="$4" desc="$5"
  local root="$SCRATCH/$name"
  rm -rf "$root"; mkdir -p "$root"; cp -r "$ORIG/scoda" "$root/scoda"
  if ! $PY - "$root/scoda/$file" "$pat" "$rep" <<'EOF'
import re, sys
path, pat, rep = sys.argv[1:4]
src = open(path).read()
new, n = re.subn(pat, rep, src, count=1, flags=re.S)
if n != 1 or new == src:
    sys.exit(1)
open(path, "w").write(new)
EOF
  then echo "$name: the edit did not apply (source changed?)"; fail=1; return; fi
  cp "$HERE/lean/SCoda/Gen/ViewFns.lean" "$SCRATCH/ViewFns.before"
  local res; res=$(regen_and_build "$root")
  local changed="generated text changed"
  cmp -s "$SCRATCH/ViewFns.before" "$HERE/lean/SCoda/Gen/ViewFns.lean" && changed="GENERATED TEXT UNCHANGED"
  local why=""
  if [ "$res" = "FAIL(build)" ]; then why=$(grep -m1 -o 'error: [^ ]*ViewTie.lean:[0-9]*' "$SCRATCH/last.log" | sed 's/error: //'); fi
  if [ "$res" = "FAIL(gen)" ]; then why=$($PY -c "import json;print([e['error'] for e in json.load(open('$SCRATCH/gen.json'))['errors'] if e['file']=='ViewFns.lean'][0][:150])"); fi
  echo "$name: $desc"
  echo "    -> $changed; ViewTie build: $res  $why"
  if [ "$res" = "PASS" ] || [ "$changed" = "GENERATED TEXT UNCHANGED" ]; then echo "    !! MUTANT SURVIVED"; fail=1; fi
  rm -rf "$root"
}

mkdir -p "$SCRATCH"
echo "== original source"
t0=$(date +%s); r=$(regen_and_build "$ORIG"); t1=$(date +%s)
echo "original: ViewTie build: $r ($((t1 - t0)) s)"
[ "$r" = "PASS" ] || { echo "!! the unedited source does not pass"; fail=1; }

echo "== five semantic edits (each must fail)"
mutant m1_pad_le sequences/relative_sequence.py \
  'if current_length < padding_length:' 'if current_length <= padding_length:' \
  "pad: final test  <  ->  <=  (appends a zero-length wait)"
mutant m2_toabs_drop_store sequences/relative_sequence.py \
  'absolute_sequence\._add_message_unsorted\(message_to_add\)\n\s*cap_message_exists = True' 'absolute_sequence._add_message_unsorted(message_to_add)' \
  "to_absolute_sequence: statement 'cap_message_exists = True' dropped"
mutant m3_torel_ge sequences/absolute_sequence.py \
  'if time > current_point_in_time:' 'if time >= current_point_in_time:' \
  "to_relative_sequence:  >  ->  >=  (zero-length waits)"
mutant m4_transpose_bound sequences/relative_sequence.py \
  'while msg\.note < NOTE_LOWER_BOUND:' 'while msg.note <= NOTE_LOWER_BOUND:' \
  "transpose: while test  <  ->  <=  (the lowest pitch is shifted too)"
mutant m5_insort_le misc/util.py \
  'if message\.time < collection\[mid\]\.time:' 'if message.time <= collection[mid].time:' \
  "binary_insort:  <  ->  <=  (inserts before equal times; reaches add_message and to_absolute_sequence)"

echo "== further edits"
mutant m6_merge_no_sort sequences/absolute_sequence.py \
  'self\._add_message_unsorted\(msg\)\n\n\s*self\.normalise_absolute\(\)' 'self._add_message_unsorted(msg)' \
  "merge: final normalise_absolute() dropped"
mutant m7_scale_branch sequences/relative_sequence.py \
  'if msg\.message_type == MessageType\.WAIT:\n(\s*)msg\.time = msg\.time \* factor\n(\s*)# Handle special case' 'if msg.message_type != MessageType.WAIT:\n\1msg.time = msg.time * factor\n\2# Handle special case' \
  "scale: == WAIT  ->  != WAIT"
mutant m8_pad_break_gt sequences/relative_sequence.py \
  'if current_length >= padding_length:' 'if current_length > padding_length:' \
  "pad: break test  >=  ->  >  (same outputs unless a later wait is negative; the generated text changes, the structural proof no longer applies)"
mutant m9_init_default elements/message.py \
  'self\.channel = 0' 'self.channel = 1' \
  "Message.__init__: default channel 0 -> 1 (a fact the translator checks: generation must fail loudly)"
mutant m10_setchannel_alias sequences/relative_sequence.py \
  'for msg in self\._messages:\n(\s*)msg\.channel = channel' 'for msg in [m for m in self._messages]:\n\1msg.channel = channel' \
  "set_channel: stores through a copied list (aliasing; outside the subset: generation must fail loudly)"

echo "== original source again (restores the generated files)"
r=$(regen_and_build "$ORIG")
echo "original: ViewTie build: $r"
[ "$r" = "PASS" ] || { echo "!! the unedited source does not pass"; fail=1; }
rm -rf "$SCRATCH"
[ $fail = 0 ] && echo "SELF-TEST OK: every edit changed the generated text and broke the build; the original passes" || echo "SELF-TEST FAILED"
exit $fail
