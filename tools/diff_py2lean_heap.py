#!/venv/bin/python
"""Differential check of the TRANSLATOR tools/py2lean_heap.py: the generated functions of Gen/HeapFns.lean (the derivation
routes of C16, translated with respect to object identity) are RUN against the real implementation in SCODA_REPO (default
/repo) on random histories, identities compared up to renaming exactly as harness/heap_corr.py does (which is reused: the
same scenarios, the same recorder of the value oracle, the same canonical dump with `id()`).

    /venv/bin/python tools/diff_py2lean_heap.py [n_random] [seed]

How: a driver is derived from lean/HeapDriver.lean (same request format, same dump) in which the operations
    msgCopy seqCopy barCopy trkCopy cmpCopy split newSeq mkBar mkTrk mkCmp barsToSequence trkToSequence
are executed by the GENERATED functions (`Gen.HeapFns.messageCopy`, `sequenceCopy`, `barCopy`, `trackCopy`, `compositionCopy`,
`sequenceSplit`, `sequenceInit`, `barInit`, `trackInit`, `compositionInit`, `barToSequence`) and every other operation of the
history by the hand model `HeapOps.step`; it is run with `lake env lean --run`.  The answer line must equal the line printed
from the real objects.  This is sampling; it checks the translation conventions (allocation, stores, evaluation order, the
oracle keys), not the hand model — that is tied to the generated functions by the theorems of Props/HeapTie.lean.
An exception of a generated function is printed as `EXC <name>`; histories on which the real code raises are not produced.
"""
import os
import random
import subprocess
import sys
import tempfile

HERE = os.path.join(os.path.dirname(os.path.abspath(__file__)), "..")
REPO = os.environ.get("SCODA_REPO", "/repo")
sys.path.insert(0, REPO)
sys.path.insert(0, os.path.join(HERE, "harness"))
import heap_corr as HC                                            # noqa: E402
from heap_corr import pm, ON, OFF, WAIT, TIMESIG, KEYSIG, PC, BASE   # noqa: E402

LEAN_DIR = os.path.join(HERE, "lean")
import logging                                                   # noqa: E402
logging.disable(logging.CRITICAL)

STEP_G = r'''
/-! ### the translated routes (Gen/HeapFns.lean) in place of the hand model -/

open SCoda.HeapLib in
def gorc (o : Orc) (barPad : List Msg → Option Msg) : GOrc :=
  { orc := { o with padMsg := fun t v => match barPad v with | some m => some m | none => o.padMsg t v }
    barPadDec := fun _ v => (barPad v).isSome }

open SCoda.HeapLib in
/-- run a generated function; its result cells are appended to the environment -/
def runG {α} (st : Heap × List Cell) (m : HM α) (res : α → List Cell) : Except String (Heap × List Cell) :=
  match m st.1 with
  | (.ok a, h) => .ok (h, st.2 ++ res a)
  | (.error e, _) => .error (reprStr e)

open SCoda.HeapLib SCoda.Gen in
def stepG (o : Orc) (g : GOrc) (op : HOp) (st : Heap × List Cell) : Except String (Heap × List Cell) :=
  let env := st.2
  match op with
  | .msgCopy i => match look env .msg i with
    | some m => runG st (HeapFns.messageCopy g 0 m) (fun r => [(.msg, r)])
    | none => .ok st
  | .seqCopy i => match look env .seq i with
    | some s => runG st (HeapFns.sequenceCopy g 0 s) (fun r => [(.seq, r)])
    | none => .ok st
  | .barCopy i tag => match look env .bar i with
    | some b => runG st (HeapFns.barCopy g tag b) (fun r => [(.bar, r)])
    | none => .ok st
  | .trkCopy i tag => match look env .trk i with
    | some t => runG st (HeapFns.trackCopy g tag t) (fun r => [(.trk, r)])
    | none => .ok st
  | .cmpCopy i tag => match look env .cmp i with
    | some c => runG st (HeapFns.compositionCopy g tag c) (fun r => [(.cmp, r)])
    | none => .ok st
  | .split i tag => match look env .seq i with
    | some s => runG st (HeapFns.sequenceSplit g tag s) (fun r => cellsOf .seq r)
    | none => .ok st
  | .newSeq => runG st (do let s ← newSequence; HeapFns.sequenceInit g 0 s none none; pure s) (fun r => [(.seq, r)])
  | .mkBar i num den key tag => match look env .seq i with
    | some s => runG st (do let b ← newBarObj; HeapFns.barInit g tag b s num den key; pure b) (fun r => [(.bar, r)])
    | none => .ok st
  | .mkTrk is name tag => match looks env .bar is with
    | some bs => runG st (do let t ← newTrack; HeapFns.trackInit g tag t bs name; pure t) (fun r => [(.trk, r)])
    | none => .ok st
  | .mkCmp is => match looks env .trk is with
    | some ts => runG st (do let c ← newComposition; HeapFns.compositionInit g 0 c ts; pure c) (fun r => [(.cmp, r)])
    | none => .ok st
  | .barsToSequence js => match looks env .bar js with
    | some bs => runG st (HeapFns.barToSequence g 0 bs) (fun r => [(.seq, r)])
    | none => .ok st
  | .trkToSequence i => match look env .trk i with
    | some t => runG st (HeapFns.barToSequence g 0 (st.1.trk t).bars) (fun r => [(.seq, r)])
    | none => .ok st
  | op => .ok (step o op st)

def runGs (o : Orc) (g : SCoda.HeapLib.GOrc) : List HOp → Heap × List Cell → Except String (Heap × List Cell)
  | [], st => .ok st
  | op :: ops, st => match stepG o g op st with
    | .ok st' => runGs o g ops st'
    | .error e => .error e
'''


def make_driver():
    src = open(os.path.join(LEAN_DIR, "HeapDriver.lean")).read()
    src = src.replace("import SCoda.Model.HeapOps", "import SCoda.Gen.HeapFns")
    # the oracle parser must also hand out the bar-pad table (the decision `duration < capacity` and the WAIT appended)
    old_ret = "  pure {\n    toAbs :="
    if old_ret not in src or "barPadMsg := fun _ v => lookupD tBarPad v none" not in src:
        raise SystemExit("lean/HeapDriver.lean changed: the derived driver cannot be built")
    src = src.replace("def orc : P Orc := do", "def orc : P (Orc × (List Msg → Option Msg)) := do")
    src = src.replace(old_ret, "  pure ({\n    toAbs :=")
    src = src.replace("    tsMsg := fun n d => { ty := .timeSignature, ch := 0, num := n, den := d } }",
                      "    tsMsg := fun n d => { ty := .timeSignature, ch := 0, num := n, den := d } }, fun v => lookupD tBarPad v none)")
    src = src.replace("/-! ### canonical dump -/", STEP_G + "\n/-! ### canonical dump -/")
    old_hist = "  let o ← orc\n  let ops ← many pop\n  pure (dump (run o ops st))"
    if old_hist not in src:
        raise SystemExit("lean/HeapDriver.lean changed: `hist` not found")
    src = src.replace(old_hist, "  let o ← orc\n  let ops ← many pop\n  match runGs o.1 (gorc o.1 o.2) ops st with\n"
                                "  | .ok st' => pure (dump st')\n  | .error e => pure (\"EXC \" ++ e)")
    return src


def ask(lines):
    with tempfile.NamedTemporaryFile("w", suffix=".lean", dir=LEAN_DIR, prefix="HeapGenDriver_", delete=False) as f:
        f.write(make_driver())
        path = f.name
    try:
        p = subprocess.run(["lake", "env", "lean", "--run", path], cwd=LEAN_DIR, input="\n".join(lines) + "\n",
                           capture_output=True, text=True)
    finally:
        os.unlink(path)
    if p.returncode != 0:
        raise SystemExit("driver failed:\n" + (p.stdout + p.stderr)[-3000:])
    return [ln for ln in p.stdout.split("\n") if ln.startswith(("OK", "ERR"))]


NOTE = [pm(ON, 0, None, 60, 64), pm(WAIT, 0, 24), pm(OFF, 0, None, 60), pm(WAIT, 0, 72)]
ABS = [pm(ON, 0, 0, 60, 64), pm(OFF, 0, 24, 60), pm(ON, 1, 24, 62, 70), pm(OFF, 1, 96, 62)]
WITH_PC = [pm(PC, 0, None, prog=5)] + NOTE
WITH_TS = [pm(TIMESIG, 0, None, num=4, den=4)] + NOTE + [pm(KEYSIG, 0, None, key=3)]

# the routes of the translator on objects with a past: every stale-flag combination, both views, empty sequences, bars of
# copies of copies, tracks sharing a bar twice, sequences whose views were regenerated, split of copies, …
FIXED = [
    ([("R", NOTE)], [("msgCopy", 0)]) if False else ([("R", NOTE)], [("relMsgs", 0), ("msgCopy", 1), ("msgCopy", 5), ("setChannel", 0, 3)]),
    ([("R", NOTE)], [("seqCopy", 0), ("seqCopy", 1), ("readAbs", 1), ("seqCopy", 1), ("seqCopy", 3)]),
    ([("A", ABS)], [("seqCopy", 0), ("readRel", 0), ("seqCopy", 0), ("setChannel", 2, 4), ("seqCopy", 2)]),
    ([("B", ABS, NOTE)], [("seqCopy", 0), ("quantise", 1), ("seqCopy", 1), ("normalise", 0), ("seqCopy", 0)]),
    ([("R", [])], [("seqCopy", 0), ("newSeq",), ("seqCopy", 2), ("split", 2, [24])]),
    ([("R", NOTE)], [("mkBar", 0, 4, 4, None), ("barCopy", 1), ("barCopy", 2), ("barSeq", 3), ("transpose", 4, 2)]),
    ([("R", WITH_TS)], [("mkBar", 0, 4, 4, 2), ("barCopy", 1), ("barSeq", 2), ("relMsgs", 3)]),
    ([("A", ABS)], [("mkBar", 0, 4, 4, None), ("barCopy", 1)]),
    ([("B", ABS, NOTE)], [("mkBar", 0, 4, 4, None), ("barCopy", 1)]),
    ([("R", WITH_PC), ("R", NOTE)], [("mkBar", 0, 4, 4, None), ("mkBar", 1, 4, 4, None), ("mkTrk", [2, 3, 2]), ("trkCopy", 4),
                                     ("trkBars", 5), ("barSeq", 6), ("setChannel", 9, 7)]),
    ([("R", NOTE), ("R", NOTE[:2])], [("mkBar", 0, 4, 4, None), ("mkBar", 1, 2, 4, 5), ("mkTrk", [2]), ("mkTrk", [3, 3]), ("mkCmp", [4, 5]),
                                  ("cmpCopy", 6), ("cmpTrks", 7), ("trkToSequence", 8)]),
    ([("R", BASE)], [("split", 0, [48]), ("split", 1, [12, 12]), ("seqCopy", 2), ("split", 2, [500])]),
    ([("A", ABS)], [("split", 0, [24]), ("readAbs", 1)]),
    ([("R", BASE)], [("splitBars", [0], 0, True), ("barCopy", 1), ("mkTrk", [1, 2, 3]), ("trkCopy", 4), ("barsToSequence", [1, 3])]),
    ([("R", BASE)], [("cmpFromSequences", [0], 0), ("cmpCopy", 1), ("cmpCopy", 2), ("cmpTrks", 3), ("trkBars", 4)]),
]


def routes_history(rng):
    """random histories that mostly exercise the translated routes, with other operations in between"""
    specs = []
    for _ in range(rng.randrange(1, 3)):
        k = rng.random()
        msgs = HC.note_seq(rng, rng.randrange(0, 9))
        if rng.random() < 0.25:
            msgs.insert(rng.randrange(len(msgs) + 1), pm(PC, 0, None, prog=rng.randrange(0, 5)))
        if rng.random() < 0.25:
            msgs.insert(rng.randrange(len(msgs) + 1), pm(TIMESIG, 0, None, num=4, den=4))
        specs.append(("R", msgs))
    env = [HC.build(s) for s in specs]
    ops = []
    for _ in range(rng.randrange(2, 10)):
        seqs = [i for i, o in enumerate(env) if isinstance(o, HC.Sequence)]
        bars = [i for i, o in enumerate(env) if isinstance(o, HC.Bar)]
        trks = [i for i, o in enumerate(env) if isinstance(o, HC.Track)]
        cmps = [i for i, o in enumerate(env) if isinstance(o, HC.Composition)]
        msgs = [i for i, o in enumerate(env) if isinstance(o, HC.Message)]
        c = rng.choice(["seqCopy", "seqCopy", "split", "mkBar", "mkBar", "barCopy", "barCopy", "mkTrk", "trkCopy", "trkCopy", "mkCmp",
                        "cmpCopy", "msgCopy", "relMsgs", "readAbs", "readRel", "setChannel", "transpose", "normalise", "quantise",
                        "barSeq", "trkBars", "cmpTrks", "barsToSequence", "trkToSequence", "newSeq", "concatenate", "pad",
                        "quantiseNoteLengths", "absMsgs"])
        if c in ("barCopy", "barSeq"):
            if not bars:
                continue
            op = (c, rng.choice(bars))
        elif c in ("mkTrk", "barsToSequence"):
            if not bars:
                continue
            op = (c, [rng.choice(bars) for _ in range(rng.randrange(0, 4))])
        elif c in ("trkCopy", "trkBars", "trkToSequence"):
            if not trks:
                continue
            op = (c, rng.choice(trks))
        elif c == "mkCmp":
            if not trks:
                continue
            op = (c, [rng.choice(trks) for _ in range(rng.randrange(0, 3))])
        elif c in ("cmpCopy", "cmpTrks"):
            if not cmps:
                continue
            op = (c, rng.choice(cmps))
        elif c == "msgCopy":
            if not msgs:
                continue
            op = (c, rng.choice(msgs))
        elif c == "newSeq":
            op = (c,)
        elif c == "mkBar":
            op = (c, rng.choice(seqs), rng.choice([4, 8, 16, 16]), 4, rng.choice([None, 0, 7]))
        elif c == "split":
            op = (c, rng.choice(seqs), [rng.choice([12, 24, 48]) for _ in range(rng.randrange(0, 3))])
        elif c == "setChannel":
            op = (c, rng.choice(seqs), rng.randrange(0, 16))
        elif c == "transpose":
            op = (c, rng.choice(seqs), rng.choice([-3, 2, 12]))
        elif c == "pad":
            op = (c, rng.choice(seqs), rng.choice([24, 96, 400]))
        elif c == "concatenate":
            op = (c, rng.choice(seqs), [rng.choice(seqs) for _ in range(rng.randrange(1, 3))])
        else:
            op = (c, rng.choice(seqs))
        try:
            HC.apply(env, op)
        except Exception:
            break
        ops.append(op)
    return specs, ops


def main():
    n_random = int(sys.argv[1]) if len(sys.argv) > 1 else 300
    seed = int(sys.argv[2]) if len(sys.argv) > 2 else 16
    rng = random.Random(seed)
    cases = list(FIXED) + list(HC.FIXED)
    for k in range(n_random):
        cases.append(routes_history(rng) if k % 3 else HC.random_history(rng))
    reqs, want, kept, skipped = [], [], [], 0
    for specs, ops in cases:
        try:
            r, w_ = HC.scenario(specs, ops)
        except HC.Conflict:
            skipped += 1
            continue
        except Exception as e:
            skipped += 1
            if (specs, ops) in FIXED:
                print("fixed scenario raised:", ops, repr(e))
            continue
        reqs.append(r)
        want.append(w_)
        kept.append(ops)
    got = ask(reqs)
    if len(got) != len(want):
        print(f"{len(want)} answers expected, {len(got)} received")
        return 1
    bad = 0
    routes = {}
    for ops, w_, g in zip(kept, want, got):
        for op in ops:
            routes[op[0]] = routes.get(op[0], 0) + 1
        if w_ != g:
            bad += 1
            if bad <= 10:
                print("DIFFERENCE", ops)
                print("  real     :", w_[:1500])
                print("  generated:", g[:1500])
    tr = ["msgCopy", "seqCopy", "barCopy", "trkCopy", "cmpCopy", "split", "newSeq", "mkBar", "mkTrk", "mkCmp", "barsToSequence", "trkToSequence"]
    print("operations run through the generated functions:", ", ".join(f"{k} {routes.get(k, 0)}" for k in tr))
    print(f"{len(kept)} histories compared, {bad} differences, {skipped} skipped (value-keyed oracle conflict or the real code raised)")
    return 1 if bad else 0


if __name__ == "__main__":
    sys.exit(main())
