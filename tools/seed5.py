#!/venv/bin/python
"""seed5.py <Cxx> [<extra check> ...] — confirm a round-5 seeded change in its scratch worktree (/tmp/seed5/<Cxx>: suite passes with the
change, _seed/demo.py fails with it and passes without), then keep it as seeded/<Cxx>_agent5 and run the checks against it."""
import json
import os
import subprocess
import sys

pid = sys.argv[1]
extra = sys.argv[2:]
wt = os.path.join(os.environ.get("SEED_ROOT", "/tmp/seed5"), pid)
env = dict(os.environ, PYTHONPATH=wt)
# the agent's own patch file is the source of truth (worktrees share `git stash`, so the working copy may hold a foreign change)
subprocess.run(["git", "-C", wt, "checkout", "--", "scoda"], check=True)
subprocess.run(["git", "-C", wt, "clean", "-fdq", "--", "scoda"], check=True)
subprocess.run(["git", "-C", wt, "apply", f"{wt}/_seed/patch.diff"], check=True)
diff = subprocess.run(["git", "-C", wt, "diff", "--", "scoda"], capture_output=True, text=True).stdout
assert diff.strip(), "no change applied in the worktree"
open(f"{wt}/patch.diff", "w").write(diff)
suite = subprocess.run(["/venv/bin/python", "-m", "pytest", "-q", "-p", "no:cacheprovider", "--timeout=900"], cwd=wt, env=env,
                       capture_output=True, text=True).stdout.strip().split("\n")[-1]
w = subprocess.run(["/venv/bin/python", f"{wt}/_seed/demo.py"], cwd=wt, env=env, capture_output=True, text=True)
subprocess.run(["git", "-C", wt, "checkout", "--", "scoda"], check=True)
wo = subprocess.run(["/venv/bin/python", f"{wt}/_seed/demo.py"], cwd=wt, env=env, capture_output=True, text=True)
subprocess.run(["git", "-C", wt, "apply", f"{wt}/patch.diff"], check=True)
confirm = f"suite=[{suite}] demo_with_change_exit={w.returncode} demo_without_change_exit={wo.returncode}"
print(pid, confirm)
if "56 passed" not in suite or w.returncode == 0 or wo.returncode != 0:
    print("NOT CONFIRMED", (w.stdout + w.stderr)[-300:], (wo.stdout + wo.stderr)[-300:])
    sys.exit(1)
import shutil
shutil.copy(f"{wt}/_seed/demo.py", f"{wt}/demo.py")
meta = json.load(open(f"{wt}/_seed/meta.json"))
r = subprocess.run(["/venv/bin/python", "/verif/tools/keep_mutant.py", wt, f"{pid}_agent" + os.environ.get("SEED_ROUND", "5"), pid, meta.get("summary", ""), meta.get("needs", ""), confirm,
                    pid] + extra, capture_output=True, text=True)
print(r.stdout[-1500:], r.stderr[-800:])
