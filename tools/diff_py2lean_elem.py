#!/venv/bin/python
"""Differential check of the TRANSLATOR tools/py2lean_elem.py for `Bar.__init__` / `Bar.copy` WITH A default_channel
(finding D37 and its two repairs): the generated `Gen.Elem.barInit` / `Gen.Elem.barCopy` (Gen/ElemFns.lean) are run
(`lake env lean`, `#eval`) on random inputs and compared with what the real implementation in SCODA_REPO does on
the same inputs: `Bar(seq, n, d, key[, default_channel])`, then (every second case) `bar.sequence.set_channel(c)` — in Lean the
translated `Gen.Wrap.setChannel` on the bar's sequence —, then `.copy()` — relative view, both stale flags, numerator,
denominator and key of the bar, of the copy, and of the bar after copying; default_channel not passed / None / 0 / 1 / 3 / 15;
sequences in the wrapper states rel / both / abs; ill-formed ones included.  Needs a source whose `Bar.copy` reads the channel
off the bar's own time-signature message (fix_D37b); Gen/ElemFns.lean must have been generated from the same source.

    SCODA_REPO=<source> /venv/bin/python tools/diff_py2lean_elem.py [cases] [seed]

Sampling: it checks the translation conventions (the `GBar` record of Model/ElemLib.lean, `pyNone`, the channel of
`Message(channel=None)`), not the hand models (tied by Props/ElemTie.lean).  Skipped: ZeroDivisionError / TypeError
(denominator 0, arithmetic on None) as in tools/diff_py2lean_static.py, whose generators are reused.
"""
import os
import random
import subprocess
import sys

sys.path.insert(0, os.path.dirname(os.path.abspath(__file__)))
import diff_py2lean_static as S                                   # noqa: E402

from scoda.elements.bar import Bar                               # noqa: E402

HERE = S.HERE
KEYS = S.KEYS
KINDS = {}

PRELUDE = """
structure BarObs where
  rel : List Msg
  absStale : Bool
  relStale : Bool
  num : Int
  den : Int
  key : Int
  deriving DecidableEq
def obsBar (g : GBar) : BarObs := ⟨g.sequence.rel, g.sequence.absStale, g.sequence.relStale, g.num, g.den, g.key⟩
"""


def bar_obs(b):
    s = b.sequence
    key = None if b.key_signature is None else KEYS.index(b.key_signature)
    return (f"⟨{S.L_list(s._rel._messages)}, {S.L_bool(s._abs_stale)}, {S.L_bool(s._rel_stale)}, "
            f"{S.L_int(b.time_signature_numerator)}, {S.L_int(b.time_signature_denominator)}, {S.L_int(key)}⟩")


def count(k):
    KINDS[k] = KINDS.get(k, 0) + 1


def main():
    n = int(sys.argv[1]) if len(sys.argv) > 1 else 300
    rng = random.Random(int(sys.argv[2]) if len(sys.argv) > 2 else 20260930)
    cases = []
    for i in range(n):
        wild = rng.random() < 0.2
        rel = S.rand_rel(rng, wild)
        if rng.random() < 0.6:
            rel = [m for m in rel if m.message_type != S.T.TIME_SIGNATURE]
        num, den = rng.choice([(4, 4), (4, 4), (3, 4), (6, 8), (2, 2), (12, 8), (1, 4)] + ([(0, 4), (4, 0), (3, 16)] if wild else []))
        if rng.random() < 0.5:       # make most inputs fit their bar
            cap = 96 * num // den if den > 0 else 0
            tot = 0
            fit = []
            for m in rel:
                if m.message_type == S.T.WAIT and m.time is not None:
                    if tot + m.time > cap:
                        continue
                    tot += m.time
                fit.append(m)
            rel = fit
        key = rng.choice([None, None, 0, 3, 14])
        state = rng.choice(["rel", "rel", "both", "abs"])
        seq, lean_seq = S.make_seq(rel, state)
        dch = rng.choice(["absent", None, 0, 1, 3, 15])
        kw = {} if dch == "absent" else {"default_channel": dch}
        lean_dch = "0" if dch == "absent" else S.L_int(dch)       # the pinned default (ElemTie.elem_defaults_pinned)
        kind, b = S.run(lambda: Bar(seq, num, den, None if key is None else KEYS[key], **kw))
        count(("Bar", str(dch), kind if kind != "err" else b))
        call = f"Gen.Elem.barInit genEnv {lean_seq} {S.L_int(num)} {S.L_int(den)} {S.L_int(key)} {lean_dch}"
        if kind == "err":
            cases.append((f"init#{i}", f"decide (obsBar <$> {call} = Except.error Err.{b})"))
            continue
        if kind != "ok":
            continue
        init_obs = bar_obs(b)
        cases.append((f"init#{i}", f"decide (obsBar <$> {call} = Except.ok {init_obs})"))
        # every second bar is moved to another channel in place before it is copied (audit round 4, D1)
        moved = None
        if rng.random() < 0.5:
            moved = rng.choice([0, 1, 3, 5, 15])
            b.sequence.set_channel(moved)
        kind2, c = S.run(lambda: b.copy())
        count(("copy", str(dch), "moved" if moved is not None else "as-built", kind2 if kind2 != "err" else c))
        pre = call if moved is None else (f"({call} >>= fun g0 => (fun r => ({{ g0 with sequence := r.1 }} : GBar)) <$> "
                                          f"Gen.Wrap.setChannel genEnv g0.sequence {S.L_int(moved)})")
        ccall = f"({pre} >>= fun g => (fun p => (obsBar p.1, obsBar p.2)) <$> Gen.Elem.barCopy genEnv g)"
        if kind2 == "ok":
            cases.append((f"copy#{i}", f"decide ({ccall} = Except.ok ({bar_obs(b)}, {bar_obs(c)}))"))
            want = moved if moved is not None else (0 if dch in ("absent", None) else dch)
            first = c.sequence._rel._messages[0]
            count(("copy-leading-channel", "the bar's current one" if first.channel == want else "DIFFERENT"))
        elif kind2 == "err":
            cases.append((f"copy#{i}", f"decide ({ccall} = Except.error Err.{c})"))

    out_dir = os.path.join(HERE, "lean", ".difftest_elem")
    os.makedirs(out_dir, exist_ok=True)
    path = os.path.join(out_dir, "Diff.lean")
    with open(path, "w") as fh:
        fh.write("import SCoda.Gen.ElemFns\nimport SCoda.Model.BarOps\nopen SCoda\n")
        fh.write("""instance {ε α : Type} [DecidableEq ε] [DecidableEq α] : DecidableEq (Except ε α)
  | .ok a, .ok b => if h : a = b then isTrue (h ▸ rfl) else isFalse (fun h' => h (by cases h'; rfl))
  | .error a, .error b => if h : a = b then isTrue (h ▸ rfl) else isFalse (fun h' => h (by cases h'; rfl))
  | .ok _, .error _ => isFalse (by intro h; cases h)
  | .error _, .ok _ => isFalse (by intro h; cases h)
""")
        fh.write(PRELUDE)
        chunks = [cases[i:i + 60] for i in range(0, len(cases), 60)]
        for ci, chunk in enumerate(chunks):
            fh.write(f"def cases{ci} : List (String × Bool) := [\n")
            fh.write(",\n".join(f'  ("{lab}", {expr})' for lab, expr in chunk))
            fh.write("]\n")
        fh.write("def cases : List (String × Bool) := " + " ++ ".join(f"cases{ci}" for ci in range(len(chunks))) + "\n")
        fh.write('#eval IO.println s!"DIFF total={cases.length} failed={(cases.filter (fun c => !c.2)).map (·.1)}"\n')
    res = subprocess.run(["lake", "env", "lean", ".difftest_elem/Diff.lean"], cwd=os.path.join(HERE, "lean"), capture_output=True, text=True)
    print("outcomes on the real code:", dict(sorted(KINDS.items(), key=str)))
    print(res.stdout[-3000:], res.stderr[-3000:])
    ok = "failed=[]" in res.stdout and res.returncode == 0
    if ok and not os.environ.get("KEEP_DIFF"):
        import shutil
        shutil.rmtree(out_dir, ignore_errors=True)
    sys.exit(0 if ok else 1)


if __name__ == "__main__":
    main()
