"""Translator for the numeric helpers of scoda/misc/util.py (and `Message.equivalent`).

`gen_util_fns()` re-reads the *current* source of scoda/misc/util.py and emits `lean/SCoda/Gen/UtilFns.lean`
(namespace `SCoda.Gen.Util`): one Lean `do` block in `Except UErr` per function, statement by statement.
`Props/UtilTie.lean` proves the generated functions equal to the hand transcriptions of Model/PyNumSites.lean
(`getNoteDurationsPy`, `getTupletDurationsPy`, `getDottedNoteDurationsPy`, `getVelocityBinsPy`, …), to
`findMinimalDistance` (Model/Quantise.lean) and `binIndex` (Model/Token.lean), and — for the default arguments —
to the tables that tools/gen_lean.py dumps into Gen/Settings.lean / Gen/SettingsTyped.lean by *running* the code.

Conventions (hand-written prelude: lean/SCoda/Model/UtilLib.lean)
  numbers   every Python number is a `PyNum` (Model/PyNum.lean): `int i` or `float q` with `q` an exact rational.  One
            `PyNum` operator per Python operator, in Python's evaluation order: `+ - *` ↦ `PyNum.add/sub/mul` (int only if
            both operands are int), `/` ↦ `pyTruediv` (always a float, ZeroDivisionError), `//` ↦ `pyFloordiv`,
            `**` ↦ `pyPow` (a non-integral exponent has no exact rational value: the model answers `UErr.inexact`),
            `int(x)` ↦ `PyNum.pyint`, `round(x)` ↦ `PyNum.pyround` (half to even), `abs`, `min`, `max` (the *type* of the
            chosen argument is kept), `x.is_integer()` ↦ `PyNum.isInteger`, comparisons by value across int / float.
            Float *rounding* is not modelled (see UtilLib.lean); `math.log`, `math.sqrt`, … are outside the subset.
  math.inf  a variable that is assigned `math.inf` has type `PyNumInf` (= `PyNum` + `inf`).
  None      a parameter with default `None` is an `Option`; the idiom `if p is None: p = E` rebinds `p` at the base type.
  settings  names imported from scoda.settings.settings are the *values* of the loaded settings module (data, emitted
            as constants at the top of the generated file and proved equal to Gen/Settings.lean in the tie file).
  defaults  a default `= E` (not None) is evaluated once, at definition time, as Python does: it becomes a Lean default.
  lists     Python lists are Lean lists; `append`, `extend`, `+=`, `+` rebuild the list (no aliasing is observable in the
            translated functions: a list that is extended is never read through a second name afterwards — checked:
            `a = b` between list variables followed by a mutation of either is refused).
  for       `for x in <list>`, `for i in range(…)`, `for i, x in enumerate(<list>)`; `return` inside a loop is Lean's.
  while     `while a ⋈ b:` (one order comparison) ↦ `for _ in List.replicate (whileFuel a b) ()` with the test as first
            statement and `throw UErr.fuel` if the test still holds afterwards; `whileFuel a b = ⌊|a − b|⌋ + 2` at entry.
  numpy     `np.digitize(x, bins, right=True).item(-1)` ↦ `npDigitizeRight` (explicit model of numpy's algorithm).
  Message   `Message.equivalent(self, other)` is translated into the same file: `other` is an arbitrary object (`Option Msg`, `none` =
            not a Message), `if not isinstance(other, Message): return E` narrows it (`let some other := other | return E`),
            `<message>.__dict__.values()` is the list of attribute values in the order `Message.__init__` FIRST stores them (read off
            the AST; convention: no attribute is added or deleted after construction), `zip`, `list(…)`, `==` on attribute values
            (`FieldVal`: the message type, or an int-or-None field with `None` = `pyNone` as everywhere in the models).
Anything else raises `Untranslatable`; the generated file then does not compile.
"""
import ast
import os
import sys

from py2lean_wrap import Untranslatable, camel, check_decorators

REPO = os.environ.get("SCODA_REPO", "/repo")
UTIL = "scoda/misc/util.py"

NUM, INF, BOOL, NPARR, MSG, FIELDVAL = "Num", "NumInf", "Bool", "NpArr", "Msg", "FieldVal"


def TList(t):
    return ("List", t)


def TOpt(t):
    return ("Opt", t)


def TTup(*ts):
    return ("Tup",) + tuple(ts)


# functions to translate, in dependency order: name -> parameter types (a `None` default wraps the type in Option)
FUNCS = [
    ("get_velocity_bins", {"velocity_max": NUM, "velocity_bins": NUM}),
    ("bin_velocity", {"velocity": NUM, "bins": TList(NUM)}),
    ("velocity_from_bin", {"bin_index": NUM}),
    ("digitise_velocity", {"velocity_unquantised": NUM}),
    ("find_minimal_distance", {"element": NUM, "collection": TList(NUM)}),
    ("get_note_durations", {"upper_bound_multiplier": NUM, "lower_bound_divisor": NUM, "base_value": NUM}),
    ("get_tuplet_durations", {"note_durations": TList(NUM), "ratio_numerator": NUM, "ratio_denominator": NUM}),
    ("get_dotted_note_durations", {"note_durations": TList(NUM), "dotted_iterations": NUM}),
    ("get_default_step_sizes", {"upper_bound_shift": NUM, "lower_bound_shift": NUM}),
    ("get_default_note_values", {}),
    ("minmax", {"minimum": NUM, "maximum": NUM, "value": NUM}),
    ("regress", {"x": NUM, "terms": TList(NUM)}),
    ("simple_regression", {"x1": NUM, "y1": NUM, "x2": NUM, "y2": NUM, "value": NUM}),
]

SETTINGS_TYPES = {"VELOCITY_MAX": NUM, "VELOCITY_BINS": NUM, "PPQN": NUM, "NOTE_VALUE_UPPER_BOUND": NUM,
                  "NOTE_VALUE_LOWER_BOUND": NUM, "DOTTED_ITERATIONS": NUM, "VALID_TUPLETS": TList(TTup(NUM, NUM))}

LEAN_KEYWORDS = {"self", "end", "from", "at", "in", "then", "else", "do", "fun", "let", "have", "show", "by", "with", "match", "where",
                 "open", "variable", "universe", "theorem", "def", "example", "instance", "structure", "class", "if", "for",
                 "return", "mut", "namespace", "section", "import", "macro", "syntax", "deriving", "extends", "using"}


def lean_type(t):
    if t == NUM:
        return "PyNum"
    if t == INF:
        return "PyNumInf"
    if t == BOOL:
        return "Bool"
    if t == MSG:
        return "Msg"
    if t == FIELDVAL:
        return "FieldVal"
    if isinstance(t, tuple) and t[0] == "List":
        return f"List {paren(lean_type(t[1]))}"
    if isinstance(t, tuple) and t[0] == "Opt":
        return f"Option {paren(lean_type(t[1]))}"
    if isinstance(t, tuple) and t[0] == "Tup":
        return "(" + " × ".join(lean_type(x) for x in t[1:]) + ")"
    raise Untranslatable(f"no Lean type for {t}")


def paren(s):
    return s if (" " not in s or s.startswith("(")) else f"({s})"


def lname(py):
    n = camel(py)
    return n + "_" if n in LEAN_KEYWORDS else n


def lean_num(v):
    if isinstance(v, bool):
        raise Untranslatable(f"bool {v} used as a number")
    if isinstance(v, int):
        return f"(PyNum.int {'(' + str(v) + ')' if v < 0 else v})"
    if isinstance(v, float):
        if v != v or v in (float("inf"), float("-inf")):
            raise Untranslatable(f"float constant {v}")
        n, d = v.as_integer_ratio()
        return f"(PyNum.float (({n} : Rat) / {d}))"
    raise Untranslatable(f"numeric constant {v!r}")


def lean_value(v, t):
    if t == NUM:
        return lean_num(v)
    if isinstance(t, tuple) and t[0] == "List":
        return "[" + ", ".join(lean_value(x, t[1]) for x in v) + "]"
    if isinstance(t, tuple) and t[0] == "Tup":
        if len(v) != len(t) - 1:
            raise Untranslatable(f"tuple {v!r} : {t}")
        return "(" + ", ".join(lean_value(x, tt) for x, tt in zip(v, t[1:])) + ")"
    raise Untranslatable(f"value {v!r} : {t}")


class Fn:
    def __init__(self, fn, ptypes, G):
        self.fn, self.G = fn, G
        self.lines = []
        self.types = {}      # python name -> type (locals and parameters)
        self.declared = set()
        self.ret_type = None
        self.tmp = 0
        self.ptypes = ptypes
        self.aliases = {}    # list variable -> the list variable it was bound to by `a = b`
        self.rel, self.qual = UTIL, fn.name

    def fresh(self, base):
        self.tmp += 1
        return f"{base}{self.tmp}_"

    def emit(self, ind, text):
        self.lines.append(ind + text)

    # ------------------------------------------------------------------ expressions: returns (lean text, type)
    def num(self, n, ind):
        v, t = self.expr(n, ind)
        if t != NUM:
            raise Untranslatable(f"{ast.unparse(n)} : {t} where a number is needed")
        return v

    def coerce(self, v, t, want, what):
        if t == want:
            return v
        if t == NUM and want == INF:
            return f"(PyNumInf.fin {v})"
        if want == TOpt(t):
            return f"(some {v})"
        raise Untranslatable(f"type mismatch in {what}: {t}, expected {want}")

    def expr(self, n, ind):
        src = ast.unparse(n)
        if isinstance(n, ast.Constant):
            if isinstance(n.value, bool):
                return ("true" if n.value else "false"), BOOL
            if isinstance(n.value, (int, float)):
                return lean_num(n.value), NUM
            raise Untranslatable(f"constant {n.value!r}")
        if isinstance(n, ast.Name):
            if n.id in self.types:
                return lname(n.id), self.types[n.id]
            if n.id in self.G["settings"]:
                return n.id, SETTINGS_TYPES[n.id]
            raise Untranslatable(f"unknown name {n.id}")
        if isinstance(n, ast.Attribute):
            if isinstance(n.value, ast.Name) and n.value.id == "math" and "math" in self.G.get("modules", ()):
                if n.attr == "inf":
                    return "PyNumInf.inf", INF
                raise Untranslatable(f"math.{n.attr} (no exact rational semantics is modelled)")
            raise Untranslatable(f"attribute {src}")
        if isinstance(n, ast.UnaryOp):
            if isinstance(n.op, ast.USub):
                return f"(pyNeg {self.num(n.operand, ind)})", NUM
            if isinstance(n.op, ast.Not):
                v, t = self.expr(n.operand, ind)
                if t != BOOL:
                    raise Untranslatable(f"`not` of a non-bool: {src} (truthiness of numbers / lists is not translated)")
                return f"(!{v})", BOOL
            raise Untranslatable(f"unary operator in {src}")
        if isinstance(n, ast.BoolOp):
            vs = [self.expr(x, ind) for x in n.values]
            if any(t != BOOL for _, t in vs):
                raise Untranslatable(f"bool op of non-bools: {src}")
            if any("←" in v for v, _ in vs[1:]):
                raise Untranslatable(f"short-circuit operand with effects: {src}")
            return "(" + (" && " if isinstance(n.op, ast.And) else " || ").join(v for v, _ in vs) + ")", BOOL
        if isinstance(n, ast.BinOp):
            a, ta = self.expr(n.left, ind)
            b, tb = self.expr(n.right, ind)
            if isinstance(n.op, ast.Add) and isinstance(ta, tuple) and ta[0] == "List" and ta == tb:
                return f"({a} ++ {b})", ta
            if ta != NUM or tb != NUM:
                raise Untranslatable(f"operands of {src}: {ta}, {tb}")
            pure = {ast.Add: "PyNum.add", ast.Sub: "PyNum.sub", ast.Mult: "PyNum.mul"}
            eff = {ast.Div: "pyTruediv", ast.FloorDiv: "pyFloordiv", ast.Pow: "pyPow"}
            if type(n.op) in pure:
                return f"({pure[type(n.op)]} {a} {b})", NUM
            if type(n.op) in eff:
                return f"(← {eff[type(n.op)]} {a} {b})", NUM
            raise Untranslatable(f"operator {type(n.op).__name__} in {src}")
        if isinstance(n, ast.Compare):
            if len(n.ops) != 1:
                raise Untranslatable(f"chained comparison {src}")
            op, l, r = n.ops[0], n.left, n.comparators[0]
            if isinstance(op, (ast.Is, ast.IsNot)):
                if not (isinstance(r, ast.Constant) and r.value is None):
                    raise Untranslatable(f"`is` with a non-None operand: {src}")
                v, t = self.expr(l, ind)
                if not (isinstance(t, tuple) and t[0] == "Opt"):
                    raise Untranslatable(f"`is None` on {t}: {src}")
                return (f"{v}.isNone" if isinstance(op, ast.Is) else f"{v}.isSome"), BOOL
            a, ta = self.expr(l, ind)
            b, tb = self.expr(r, ind)
            if ta == NUM and tb == NUM:
                f = {ast.Lt: "PyNum.lt {a} {b}", ast.LtE: "PyNum.le {a} {b}", ast.Gt: "pyGt {a} {b}", ast.GtE: "PyNum.ge {a} {b}",
                     ast.Eq: "pyEq {a} {b}", ast.NotEq: "!(pyEq {a} {b})"}.get(type(op))
            elif {ta, tb} <= {NUM, INF}:
                a, b = self.coerce(a, ta, INF, src), self.coerce(b, tb, INF, src)
                f = {ast.Lt: "PyNumInf.lt {a} {b}", ast.LtE: "PyNumInf.le {a} {b}", ast.Gt: "PyNumInf.lt {b} {a}",
                     ast.GtE: "PyNumInf.le {b} {a}", ast.Eq: "PyNumInf.eq {a} {b}", ast.NotEq: "!(PyNumInf.eq {a} {b})"}.get(type(op))
            elif ta == tb and ta in (BOOL, FIELDVAL) and isinstance(op, (ast.Eq, ast.NotEq)):
                f = "{a} == {b}" if isinstance(op, ast.Eq) else "{a} != {b}"
            else:
                raise Untranslatable(f"comparison of {ta} and {tb}: {src}")
            if f is None:
                raise Untranslatable(f"comparison operator in {src}")
            return "(" + f.format(a=a, b=b) + ")", BOOL
        if isinstance(n, ast.Subscript):
            v, t = self.expr(n.value, ind)
            if isinstance(t, tuple) and t[0] == "Tup":
                if not (isinstance(n.slice, ast.Constant) and isinstance(n.slice.value, int) and 0 <= n.slice.value < len(t) - 1):
                    raise Untranslatable(f"tuple index {src}")
                k = n.slice.value
                proj = ".2" * k + (".1" if k < len(t) - 2 else "")
                return f"{v}{proj}", t[1 + k]
            if isinstance(t, tuple) and t[0] == "List":
                if isinstance(n.slice, ast.Slice):
                    raise Untranslatable(f"slice {src}")
                return f"(← pyGet {v} {self.num(n.slice, ind)})", t[1]
            raise Untranslatable(f"subscript of {t}: {src}")
        if isinstance(n, ast.List):
            if not n.elts:
                return "[]", TList(None)
            vs = [self.expr(e, ind) for e in n.elts]
            if any(t != vs[0][1] for _, t in vs):
                raise Untranslatable(f"heterogeneous list {src}")
            return "[" + ", ".join(v for v, _ in vs) + "]", TList(vs[0][1])
        if isinstance(n, ast.ListComp):
            return self.comprehension(n, ind)
        if isinstance(n, ast.Call):
            return self.call(n, ind)
        raise Untranslatable(f"expression {src}")

    def iterable(self, n, ind):
        """the iterable of a `for` / comprehension: (lean list text, element type, pattern builder)"""
        if isinstance(n, ast.Call) and isinstance(n.func, ast.Name) and n.func.id == "range" and not n.keywords:
            if len(n.args) == 1:
                return f"(← pyRange (PyNum.int 0) {self.num(n.args[0], ind)})", NUM
            if len(n.args) == 2:
                return f"(← pyRange {self.num(n.args[0], ind)} {self.num(n.args[1], ind)})", NUM
            raise Untranslatable(f"range with a step: {ast.unparse(n)}")
        if isinstance(n, ast.Call) and isinstance(n.func, ast.Name) and n.func.id == "enumerate" and len(n.args) == 1 and not n.keywords:
            v, t = self.expr(n.args[0], ind)
            if not (isinstance(t, tuple) and t[0] == "List"):
                raise Untranslatable(f"enumerate over {t}")
            return f"(pyEnumerate {v})", TTup(NUM, t[1])
        if isinstance(n, ast.Call) and isinstance(n.func, ast.Name) and n.func.id == "zip" and len(n.args) == 2 and not n.keywords:
            (a, ta), (b, tb) = self.expr(n.args[0], ind), self.expr(n.args[1], ind)
            if not (isinstance(ta, tuple) and ta[0] == "List" and isinstance(tb, tuple) and tb[0] == "List"):
                raise Untranslatable(f"zip over {ta}, {tb}")
            return f"(List.zip {a} {b})", TTup(ta[1], tb[1])
        v, t = self.expr(n, ind)
        if not (isinstance(t, tuple) and t[0] == "List") or t[1] is None:
            raise Untranslatable(f"iteration over {t}: {ast.unparse(n)}")
        return v, t[1]

    def bind_target(self, tgt, et):
        """loop / comprehension target: returns the Lean pattern and registers the variable types"""
        if isinstance(tgt, ast.Name):
            if tgt.id in self.types and self.types[tgt.id] != et:
                raise Untranslatable(f"loop variable {tgt.id} re-used at another type")
            self.types[tgt.id] = et
            self.declared.add(tgt.id)
            return lname(tgt.id)
        if isinstance(tgt, ast.Tuple) and isinstance(et, tuple) and et[0] == "Tup" and len(tgt.elts) == len(et) - 1 \
                and all(isinstance(e, ast.Name) for e in tgt.elts):
            for e, t in zip(tgt.elts, et[1:]):
                if e.id in self.types and self.types[e.id] != t:
                    raise Untranslatable(f"loop variable {e.id} re-used at another type")
                self.types[e.id] = t
                self.declared.add(e.id)
            return "(" + ", ".join(lname(e.id) for e in tgt.elts) + ")"
        raise Untranslatable(f"loop target {ast.unparse(tgt)} over elements of type {et}")

    def comprehension(self, n, ind):
        if len(n.generators) != 1 or n.generators[0].is_async:
            raise Untranslatable(f"comprehension {ast.unparse(n)}")
        g = n.generators[0]
        lst, et = self.iterable(g.iter, ind)
        saved = dict(self.types)
        pat = self.bind_target(g.target, et)
        conds = []
        for c in g.ifs:
            v, t = self.expr(c, ind)
            if t != BOOL:
                raise Untranslatable("comprehension filter is not a bool")
            conds.append(v)
        body, bt = self.expr(n.elt, ind)
        self.types = saved
        arg = f"fun {pat} =>" if not pat.startswith("(") else f"fun {pat} =>"
        if not conds and "←" not in body:
            return f"(List.map ({arg} {body}) {lst})", TList(bt)
        if not conds:
            return f"(← List.mapM ({arg} do pure {body}) {lst})", TList(bt)
        cond = " && ".join(conds)
        return f"(← List.filterMapM ({arg} do if {cond} then pure (some {body}) else pure none) {lst})", TList(bt)

    def bind_args(self, name, call):
        sig = self.G["sigs"][name]
        given = {}
        if len(call.args) > len(sig):
            raise Untranslatable(f"too many arguments in {ast.unparse(call)}")
        for (p, _, _), a in zip(sig, call.args):
            given[p] = a
        for kw in call.keywords:
            if kw.arg is None or kw.arg not in [p for p, _, _ in sig] or kw.arg in given:
                raise Untranslatable(f"keyword {kw.arg} in {ast.unparse(call)}")
            given[kw.arg] = kw.value
        return sig, given

    def call(self, n, ind):
        src = ast.unparse(n)
        f = n.func
        if isinstance(f, ast.Name):
            one = len(n.args) == 1 and not n.keywords
            two = len(n.args) == 2 and not n.keywords
            if f.id == "int" and one:
                return f"(PyNum.pyint {self.num(n.args[0], ind)})", NUM
            if f.id == "round" and one:
                return f"(PyNum.pyround {self.num(n.args[0], ind)})", NUM
            if f.id == "float" and one:
                return f"(PyNum.pyfloat {self.num(n.args[0], ind)})", NUM
            if f.id == "abs" and one:
                return f"(pyAbs {self.num(n.args[0], ind)})", NUM
            if f.id == "min" and two:
                return f"(PyNum.pymin {self.num(n.args[0], ind)} {self.num(n.args[1], ind)})", NUM
            if f.id == "max" and two:
                return f"(pyMax {self.num(n.args[0], ind)} {self.num(n.args[1], ind)})", NUM
            if f.id == "list" and one:
                v, t = self.expr(n.args[0], ind)
                if not (isinstance(t, tuple) and t[0] == "List"):
                    raise Untranslatable(f"list() of {t}")
                return v, t          # a fresh list with the same elements: lists are values here
            if f.id == "len" and one:
                v, t = self.expr(n.args[0], ind)
                if not (isinstance(t, tuple) and t[0] == "List"):
                    raise Untranslatable(f"len of {t}")
                return f"(pyLen {v})", NUM
            if f.id in self.G["sigs"]:
                sig, given = self.bind_args(f.id, n)
                args = []
                for p, t, d in sig:
                    if p in given:
                        v, tv = self.expr(given[p], ind)
                        if isinstance(t, tuple) and t[0] == "List" and tv == TList(None):
                            tv = t
                        args.append(self.coerce(v, tv, t, f"argument {p} of {src}"))
                    elif d is not None:
                        args.append(d)
                    else:
                        raise Untranslatable(f"missing argument {p} in {src}")
                return f"(← {self.G['lean_of'][f.id]} {' '.join(args)})".replace(" )", ")"), self.G["rets"][f.id]
            raise Untranslatable(f"call {src}")
        if isinstance(f, ast.Attribute):
            # np.digitize(x, bins, right=True).item(-1)
            if f.attr == "item" and isinstance(f.value, ast.Call):
                v, t = self.expr(f.value, ind)
                if t == NPARR and len(n.args) == 1 and not n.keywords and isinstance(n.args[0], ast.UnaryOp) \
                        and ast.unparse(n.args[0]) == "-1":
                    return v, NUM
                raise Untranslatable(f"call {src}")
            if isinstance(f.value, ast.Name) and f.value.id == "np" and "np" in self.G["modules"]:
                kws = {k.arg: ast.unparse(k.value) for k in n.keywords}
                if f.attr == "digitize" and len(n.args) == 2 and kws == {"right": "True"}:
                    x = self.num(n.args[0], ind)
                    b, tb = self.expr(n.args[1], ind)
                    if tb != TList(NUM):
                        raise Untranslatable(f"np.digitize bins of type {tb}")
                    return f"(← npDigitizeRight {x} {b})", NPARR
                raise Untranslatable(f"numpy call {src} (only np.digitize(x, bins, right=True) is modelled)")
            if isinstance(f.value, ast.Name) and f.value.id == "math":
                raise Untranslatable(f"{src}: math.{f.attr} has no exact rational semantics in this model")
            # <message>.__dict__.values(): the field values in the order `Message.__init__` stores them
            if f.attr == "values" and not n.args and not n.keywords and isinstance(f.value, ast.Attribute) \
                    and f.value.attr == "__dict__" and isinstance(f.value.value, ast.Name) \
                    and self.types.get(f.value.value.id) == MSG:
                return f"(msgDictValues {lname(f.value.value.id)})", TList(FIELDVAL)
            if f.attr == "is_integer" and not n.args and not n.keywords:
                return f"(PyNum.isInteger {self.num(f.value, ind)})", BOOL
            raise Untranslatable(f"method call {src}")
        raise Untranslatable(f"call {src}")

    # ------------------------------------------------------------------ statements
    def assign(self, name, v, t, ind, what):
        if isinstance(t, tuple) and t[0] == "List" and t[1] is None:
            if name in self.types:
                t = self.types[name]
            else:
                t = self.G["list_hints"].get((self.fn.name, name))
                if t is None:
                    raise Untranslatable(f"element type of the empty list {name} is unknown (no later append / extend found)")
        if name in self.declared:
            want = self.types[name]
            self.emit(ind, f"{lname(name)} := {self.coerce(v, t, want, what)}")
        else:
            if name in self.ptypes:
                raise Untranslatable(f"assignment to parameter {name} outside the `is None` idiom")
            want = self.G["var_hints"].get((self.fn.name, name), t)
            self.types[name] = want
            self.declared.add(name)
            arrow = "←" if "←" in v and False else ":="
            self.emit(ind, f"let mut {lname(name)} : {lean_type(want)} {arrow} {self.coerce(v, t, want, what)}")

    def check_alias(self, name):
        for a, b in self.aliases.items():
            if name in (a, b):
                raise Untranslatable(f"list {name} is mutated while {a} and {b} name the same object (aliasing is not modelled)")

    def stmts(self, body, ind):
        i = 0
        while i < len(body):
            s = body[i]
            src = ast.unparse(s).split("\n")[0]
            i += 1
            if isinstance(s, ast.Expr) and isinstance(s.value, ast.Constant) and isinstance(s.value.value, str):
                continue
            if isinstance(s, ast.Pass):
                self.emit(ind, "pure ()")
            # `if p is None: p = E`  (p an Option parameter): rebind at the base type
            elif (isinstance(s, ast.If) and not s.orelse and len(s.body) == 1 and isinstance(s.body[0], ast.Assign)
                  and isinstance(s.test, ast.Compare) and isinstance(s.test.left, ast.Name) and len(s.test.ops) == 1
                  and isinstance(s.test.ops[0], ast.Is) and isinstance(s.test.comparators[0], ast.Constant)
                  and s.test.comparators[0].value is None and len(s.body[0].targets) == 1
                  and isinstance(s.body[0].targets[0], ast.Name) and s.body[0].targets[0].id == s.test.left.id
                  and isinstance(self.types.get(s.test.left.id), tuple) and self.types[s.test.left.id][0] == "Opt"):
                p = s.test.left.id
                base = self.types[p][1]
                v, t = self.expr(s.body[0].value, ind + "    ")
                v = self.coerce(v, t, base, src)
                self.emit(ind, f"-- {src} {ast.unparse(s.body[0])}")
                self.emit(ind, f"let mut {lname(p)} : {lean_type(base)} ← (match {lname(p)} with | some v_ => pure v_ | none => do pure {v})")
                self.types[p] = base
                self.declared.add(p)
            # `if not isinstance(p, Message): return E`  (p : object): afterwards p is a Message
            elif (isinstance(s, ast.If) and not s.orelse and len(s.body) == 1 and isinstance(s.body[0], ast.Return)
                  and isinstance(s.test, ast.UnaryOp) and isinstance(s.test.op, ast.Not) and isinstance(s.test.operand, ast.Call)
                  and ast.unparse(s.test.operand.func) == "isinstance" and len(s.test.operand.args) == 2
                  and isinstance(s.test.operand.args[0], ast.Name) and ast.unparse(s.test.operand.args[1]) == "Message"
                  and self.types.get(s.test.operand.args[0].id) == TOpt(MSG)):
                p = s.test.operand.args[0].id
                v, t = self.expr(s.body[0].value, ind)
                if self.ret_type is None:
                    self.ret_type = t
                elif self.ret_type != t:
                    raise Untranslatable(f"return types differ: {self.ret_type} / {t}")
                self.emit(ind, f"-- {src} {ast.unparse(s.body[0])}   (an object that is not a Message is `none`)")
                self.emit(ind, f"let some {lname(p)} := {lname(p)} | return {v}")
                self.types[p] = MSG
                self.declared.add(p)
            elif isinstance(s, ast.Assign):
                if len(s.targets) != 1 or not isinstance(s.targets[0], ast.Name):
                    raise Untranslatable(f"assignment target {src}")
                name = s.targets[0].id
                v, t = self.expr(s.value, ind)
                if isinstance(s.value, ast.Name) and isinstance(t, tuple) and t[0] == "List":
                    self.aliases[name] = s.value.id
                self.assign(name, v, t, ind, src)
            elif isinstance(s, ast.AugAssign):
                if not isinstance(s.target, ast.Name) or s.target.id not in self.declared and s.target.id not in self.ptypes:
                    raise Untranslatable(f"augmented assignment {src}")
                name = s.target.id
                t = self.types[name]
                if isinstance(t, tuple) and t[0] == "List":
                    if not isinstance(s.op, ast.Add):
                        raise Untranslatable(f"augmented assignment {src}")
                    self.check_alias(name)
                    v, tv = self.expr(s.value, ind)
                    if tv != t:
                        raise Untranslatable(f"{src}: extends {t} by {tv}")
                    self.mutate(name, f"({lname(name)} ++ {v})", ind)
                else:
                    v, tv = self.expr(ast.BinOp(left=ast.Name(id=name, ctx=ast.Load()), op=s.op, right=s.value), ind)
                    self.mutate(name, self.coerce(v, tv, t, src), ind)
            elif isinstance(s, ast.Expr) and isinstance(s.value, ast.Call) and isinstance(s.value.func, ast.Attribute) \
                    and isinstance(s.value.func.value, ast.Name) and s.value.func.attr in ("append", "extend") \
                    and len(s.value.args) == 1 and not s.value.keywords:
                name = s.value.func.value.id
                t = self.types.get(name)
                if not (isinstance(t, tuple) and t[0] == "List"):
                    raise Untranslatable(f"{src}: {name} is not a list")
                self.check_alias(name)
                v, tv = self.expr(s.value.args[0], ind)
                if s.value.func.attr == "append":
                    if tv != t[1]:
                        raise Untranslatable(f"{src}: appends {tv} to {t}")
                    self.mutate(name, f"({lname(name)} ++ [{v}])", ind)
                else:
                    if tv != t:
                        raise Untranslatable(f"{src}: extends {t} by {tv}")
                    self.mutate(name, f"({lname(name)} ++ {v})", ind)
            elif isinstance(s, ast.If):
                c, t = self.expr(s.test, ind)
                if t != BOOL:
                    raise Untranslatable(f"condition {ast.unparse(s.test)} : {t} (truthiness is not translated)")
                self.emit(ind, f"if {c} then")
                self.block(s.body, ind + "  ")
                if s.orelse:
                    self.emit(ind, "else")
                    self.block(s.orelse, ind + "  ")
            elif isinstance(s, ast.Return):
                if s.value is None:
                    raise Untranslatable("bare return")
                v, t = self.expr(s.value, ind)
                if self.ret_type is None:
                    self.ret_type = t
                elif self.ret_type != t:
                    raise Untranslatable(f"return types differ: {self.ret_type} / {t}")
                self.emit(ind, f"return {v}")
            elif isinstance(s, ast.For):
                if s.orelse:
                    raise Untranslatable(f"for … else: {src}")
                lst, et = self.iterable(s.iter, ind)
                pat = self.bind_target(s.target, et)
                self.emit(ind, f"for {pat} in {lst} do")
                self.block(s.body, ind + "  ")
            elif isinstance(s, ast.While):
                if s.orelse:
                    raise Untranslatable(f"while … else: {src}")
                t = s.test
                if not (isinstance(t, ast.Compare) and len(t.ops) == 1 and isinstance(t.ops[0], (ast.Lt, ast.LtE, ast.Gt, ast.GtE))):
                    raise Untranslatable(f"while test {ast.unparse(t)} (only a single order comparison has a fuel rule)")
                a, b = self.num(t.left, ind), self.num(t.comparators[0], ind)
                if "←" in a or "←" in b:
                    raise Untranslatable(f"while test with effects: {ast.unparse(t)}")
                c, _ = self.expr(t, ind)
                fuel = self.fresh("fuel")
                self.emit(ind, f"-- while {ast.unparse(t)}:  fuel = ⌊|lhs − rhs|⌋ + 2, measured at loop entry")
                self.emit(ind, f"let {fuel} : Nat := whileFuel {a} {b}")
                self.emit(ind, f"for _ in List.replicate {fuel} () do")
                self.emit(ind + "  ", f"if !{c} then")
                self.emit(ind + "    ", "break")
                self.block(s.body, ind + "  ")
                self.emit(ind, f"if {c} then")
                self.emit(ind + "  ", "throw UErr.fuel")
            elif isinstance(s, (ast.Break, ast.Continue)):
                self.emit(ind, "break" if isinstance(s, ast.Break) else "continue")
            else:
                raise Untranslatable(f"statement {type(s).__name__}: {src}")

    def mutate(self, name, v, ind):
        if name not in self.declared:
            # a parameter that is updated in place: shadow it by a mutable local first
            self.emit(ind, f"-- (parameter {name} is updated)")
            raise Untranslatable(f"parameter {name} is updated in place: the caller's object would change (aliasing is not modelled)")
        self.emit(ind, f"{lname(name)} := {v}")

    def block(self, body, ind):
        n0 = len(self.lines)
        self.stmts(body, ind)
        if len(self.lines) == n0:
            self.emit(ind, "pure ()")

    def translate(self, lean_name, sig):
        fn = self.fn
        params = []
        for p, t, d in sig:
            self.types[p] = t
            params.append(f"({lname(p)} : {lean_type(t)}{' := ' + d if d is not None else ''})")
        self.stmts(fn.body, "  ")
        if self.ret_type is None:
            raise Untranslatable(f"{fn.name} returns nothing")
        if not isinstance(fn.body[-1], ast.Return):
            raise Untranslatable(f"{fn.name} can fall off its end")
        last = fn.body[-1].end_lineno
        head = (f"/-- `{self.qual}` ({self.rel}:{fn.lineno}-{last}) -/\n"
                f"def {lean_name} {' '.join(params)} : Except UErr {paren(lean_type(self.ret_type))} := do").replace("  :", " :")
        return head + "\n" + "\n".join(self.lines) + "\n"


def empty_list_hints(fn, ptypes):
    """element types of lists that start as `[]`: taken from the annotation-free uses `x.append(int(…))` is not needed — every
    list of this module is a list of numbers unless it collects tuples; we look at what is appended."""
    hints = {}
    for n in ast.walk(fn):
        if isinstance(n, ast.Assign) and len(n.targets) == 1 and isinstance(n.targets[0], ast.Name) \
                and isinstance(n.value, ast.List) and not n.value.elts:
            hints[(fn.name, n.targets[0].id)] = TList(NUM)
    return hints


def inf_hints(fn):
    """a local that is assigned `math.inf` anywhere has type PyNumInf from its first assignment on"""
    hints = {}
    for n in ast.walk(fn):
        if isinstance(n, ast.Assign) and len(n.targets) == 1 and isinstance(n.targets[0], ast.Name) \
                and ast.unparse(n.value) == "math.inf":
            hints[(fn.name, n.targets[0].id)] = INF
    return hints


def load_settings():
    if REPO not in sys.path:
        sys.path.insert(0, REPO)
    import importlib
    S = importlib.import_module("scoda.settings.settings")
    return S


MESSAGE = "scoda/elements/message.py"


def gen_message_section(G, names):
    """`Message.equivalent`: compares `self.__dict__.values()` with `other.__dict__.values()` pairwise.  `__dict__` of a Message is the
    insertion-ordered dict of the attributes `__init__` stores (convention: no attribute is added or deleted after construction —
    the library never does); its `.values()` is therefore the list of field values in the order of the FIRST store of each
    attribute in `__init__`, which is read off the AST here."""
    import py2lean
    from py2lean_wrap import class_methods
    py2lean.check_message_class()
    meths = class_methods(os.path.join(REPO, MESSAGE), "Message")
    init = meths["__init__"]
    order = []
    for st in ast.walk(init):
        pass
    for st in init.body:
        for n in ast.walk(st):
            if isinstance(n, (ast.Assign, ast.AugAssign, ast.AnnAssign)):
                tgts = n.targets if isinstance(n, ast.Assign) else [n.target]
                for tg in tgts:
                    if isinstance(tg, ast.Attribute) and isinstance(tg.value, ast.Name) and tg.value.id == "self" and tg.attr not in order:
                        order.append(tg.attr)
    if sorted(order) != sorted(py2lean.FIELD):
        raise Untranslatable(f"Message.__init__ stores the attributes {order}")
    L = ["/-! ### `Message.equivalent` (scoda/elements/message.py) -/", "",
         "/-- the value of one attribute of a Message: the message type, or an int-or-None field (`None` is `pyNone`, a `Key` its index) -/",
         "inductive FieldVal", "  | ty (t : MType)", "  | int (i : Int)", "  deriving DecidableEq, Repr", "",
         "/-- `list(m.__dict__.values())`: the attributes in the order `Message.__init__` first stores them: " + ", ".join(order) + " -/",
         "def msgDictValues (m : Msg) : List FieldVal := [" + ", ".join(
             (f"FieldVal.ty m.{py2lean.FIELD[a][0]}" if py2lean.FIELD[a][1] == "MType" else f"FieldVal.int m.{py2lean.FIELD[a][0]}") for a in order) + "]", ""]
    fn = meths["equivalent"]
    check_decorators(fn, "Message.equivalent")
    if [x.arg for x in fn.args.args] != ["self", "other"] or fn.args.defaults or fn.args.vararg or fn.args.kwarg or fn.args.kwonlyargs:
        raise Untranslatable("Message.equivalent: parameters")
    tr = Fn(fn, {"self": MSG, "other": TOpt(MSG)}, G)
    tr.rel, tr.qual = MESSAGE, "Message.equivalent"
    sig = [("self", MSG, None), ("other", TOpt(MSG), None)]
    L.append(tr.translate("equivalent", sig))
    names.append(("Message.equivalent", "equivalent"))
    return L


def gen_util_fns():
    path = os.path.join(REPO, UTIL)
    tree = ast.parse(open(path).read())
    fns = {n.name: n for n in tree.body if isinstance(n, ast.FunctionDef)}
    modules, settings_names = set(), []
    for n in tree.body:
        if isinstance(n, ast.Import):
            for a in n.names:
                modules.add(a.asname or a.name)
                if (a.name, a.asname) not in (("math", None), ("numpy", "np")):
                    raise Untranslatable(f"import {a.name} as {a.asname}")
        elif isinstance(n, ast.ImportFrom):
            if n.module == "scoda.settings.settings":
                for a in n.names:
                    if a.asname is not None:
                        raise Untranslatable(f"settings name {a.name} imported as {a.asname}")
                    settings_names.append(a.name)
            elif n.module != "scoda.elements.message":
                raise Untranslatable(f"from {n.module} import …")
        elif isinstance(n, ast.FunctionDef):
            pass
        elif isinstance(n, ast.Expr) and isinstance(n.value, ast.Constant):
            pass
        else:
            raise Untranslatable(f"module-level statement {ast.unparse(n)[:60]} (a rebinding of a name the functions use?)")
    S = load_settings()
    G = {"modules": modules, "settings": {}, "sigs": {}, "rets": {}, "lean_of": {}, "list_hints": {}, "var_hints": {}}
    L = []
    L.append(f"/- GENERATED by tools/gen_lean.py (tools/py2lean_util.py) from {REPO}/{UTIL} — do not edit.")
    L.append("   Statement-by-statement translation of the numeric helpers of scoda/misc/util.py into `do` blocks over `Except UErr`;")
    L.append("   every number is a `PyNum` (int / float tower).  Conventions: tools/py2lean_util.py, prelude: Model/UtilLib.lean. -/")
    L.append("import SCoda.Model.UtilLib")
    L.append("import SCoda.Model.Msg")
    L.append("namespace SCoda.Gen.Util")
    L.append("open SCoda SCoda.PyNum SCoda.Util")
    L.append("")
    L.append("/-! ### the settings the module imports (values of scoda.settings.settings as loaded) -/")
    for name in settings_names:
        if name not in SETTINGS_TYPES:
            raise Untranslatable(f"setting {name}: no type")
        if not hasattr(S, name):
            raise Untranslatable(f"setting {name} is not defined by scoda.settings.settings")
        t = SETTINGS_TYPES[name]
        v = getattr(S, name)
        if t == TList(TTup(NUM, NUM)):
            v = [tuple(x) for x in v]
        L.append(f"def {name} : {lean_type(t)} := {lean_value(v, t)}")
        G["settings"][name] = t
    L.append("")
    names, defaults = [], []
    for name, ptypes in FUNCS:
        if name not in fns:
            raise Untranslatable(f"{name} not found in {UTIL}")
        fn = fns[name]
        check_decorators(fn, name)
        a = fn.args
        if a.vararg or a.kwarg or a.kwonlyargs or a.posonlyargs:
            raise Untranslatable(f"{name}: parameter kinds")
        if [x.arg for x in a.args] != list(ptypes):
            raise Untranslatable(f"{name}: parameters {[x.arg for x in a.args]} (expected {list(ptypes)})")
        defs = [None] * (len(a.args) - len(a.defaults)) + list(a.defaults)
        sig = []
        tr = Fn(fn, ptypes, G)
        for x, d in zip(a.args, defs):
            t = ptypes[x.arg]
            dl = None
            if d is not None:
                defaults.append(f"{name}({x.arg}={ast.unparse(d)})")
                if isinstance(d, ast.Constant) and d.value is None:
                    t, dl = TOpt(t), "none"
                else:
                    dl, td = tr.expr(d, "")      # evaluated at definition time: only constants and settings are in scope
                    if td != t or "←" in dl:
                        raise Untranslatable(f"default {name}({x.arg}={ast.unparse(d)})")
            sig.append((x.arg, t, dl))
        G["list_hints"].update(empty_list_hints(fn, ptypes))
        G["var_hints"].update(inf_hints(fn))
        lean_name = lname(name)
        text = tr.translate(lean_name, sig)
        G["sigs"][name], G["rets"][name], G["lean_of"][name] = sig, tr.ret_type, lean_name
        L.append(text)
        names.append((name, lean_name))
    L.extend(gen_message_section(G, names))
    L.append("/-- the translated functions, in dependency order: (Python name, Lean name) -/")
    L.append("def translated : List (String × String) := [" + ", ".join(f'("{a}", "{b}")' for a, b in names) + "]")
    L.append("/-- the defaulted parameters as written in the source -/")
    L.append("def defaults : List String := [" + ", ".join('"' + d.replace('"', "'") + '"' for d in defaults) + "]")
    L.append("")
    L.append("end SCoda.Gen.Util")
    return "\n".join(L) + "\n"


if __name__ == "__main__":
    sys.stdout.write(gen_util_fns())
