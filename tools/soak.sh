#!/bin/bash
# usage: soak.sh <tier> <seed> [<seed> ...] — every check with several seeds on the unchanged tree; any non-zero exit is a false alarm to look at
tier=$1; shift
cd /verif
test -z "$(git -C /repo status --porcelain)" || { echo "/repo dirty"; exit 2; }
for seed in "$@"; do
  for p in C01 C02 C03 C04 C05 C06 C07 C08 C09 C10 C11 C12 C13 C14 C15 C16 C17 C18 C19 C20; do
    out=$(VERIF_SEED=$seed ./check $p --tier $tier 2>&1); rc=$?
    [ $rc -ne 0 ] && { echo "seed=$seed $p rc=$rc"; echo "$out" | tail -4; }
  done
  echo "seed $seed done"
done
