#!/venv/bin/python
"""py2lean_abs2: statement-by-statement AST translation of the dict-heavy / aliasing methods of
`AbsoluteSequence` (scoda/sequences/absolute_sequence.py) and of `util.find_minimal_distance` into Lean 4 `do` blocks.

    gen_abs2_fns() -> str      text of lean/SCoda/Gen/AbsFns2.lean   (namespace SCoda.Gen.Abs2)

The result is tied to the hand-written models (Model/Pairing.lean, Model/Quantise.lean, Model/Bar.lean) by theorems
(lean/SCoda/Props/AbsTie2.lean).  The translator knows Python constructs, not functions; anything outside the subset
raises `Untranslatable` (gen_lean.py then writes a file that does not compile).

OBJECT MODEL (this is where it differs from tools/py2lean.py)
  messages  `Message` objects are HEAP objects: the heap is a `List Msg`, a reference is a position in it (`Nat`), i.e.
            IDENTITY IS A POSITION TAG.  `m.f` ↦ `(hGet heap m).f`, `m.f = v` ↦ `heap := hUpd heap m (fun o => { o with f := v })`,
            `Message(…)` ↦ a new cell at `heap.length` (`channel=None ↦ 0`, checked against the AST of `Message.__init__`).
            So a store through ANY alias (`message_pairing[1].time = …`, `message_to_append = msg; message_to_append.time = …`)
            is seen through every other alias, as in Python.  `a is b` / list `==` / `.index` / `in` on messages compare
            references (`Message` defines no `__eq__`, checked).  Python `None` in an int field is `pyNone` (= -1) as in
            Model/Msg.lean; arithmetic and ordering on a field assume it is not `None`.
  sequences an `AbsoluteSequence` object is its `_messages : List Nat` (list of references); a method that changes it
            returns the new list.  Every function takes the heap first (if it reads it) and returns, in this order, the
            new heap (if it writes it), the new `_messages` of every sequence parameter it changes (`self` first), and
            its return value.  The equality theorems are stated for the initial state "heap = the messages, `_messages` =
            [0, 1, …, n-1]": every message of the sequence is its own object (two sequences: disjoint ranges).
  containers lists, dicts and tuples are VALUES (Lean `List`, insertion-ordered association list `SCoda.Assoc`, `×`):
            `y = x`, `l.append(x)`, `d[k] = x` copy.  That is Python's behaviour exactly when no container object is
            changed in place while a second reference to it is still used.  The translator enforces this conservatively:
              * an in-place change (`append`, `extend`, `pop`, `remove`, `setdefault`, `l[i] = …`, `d[k] = …`, `+=`)
                is only translated on a local variable / `self._messages` or on a subscript path below one
                (`d[k1][i].append(x)`: the path is read, the leaf changed, the path written back);
              * a container variable that has been stored into another variable or container ("shared") must not be
                changed in place afterwards, and no element of a container that holds shared values is changed in place;
                `X = v` where `v` is never used again is a move, not a share;
              * a loop variable that is itself a container is an alias of an element of the iterated container: if the
                body changes it in place, either the iterated expression is a subscript path whose root is not used in the
                body (the list is REBUILT from the edited elements and written back after the loop), or the iterated
                container is dead (never used in the body or afterwards; then the write-back is unobservable);
              * a list that is being iterated may only be changed by `l[i] = …` where `i` is the `enumerate` index of that
                very loop; a dict whose keys are iterated only by write-backs below the current key.
  dicts     `dict()` ↦ `[]`, `d[k]` ↦ `dictGet` (KeyError), `d[k] = v` ↦ `Assoc.set` (keeps the position of an existing key),
            `k in d` ↦ `Assoc.contains`, `d.setdefault(k, v)` ↦ `dictSetDefault`, `x = d.pop(k)` ↦ `dictGet` then
            `Assoc.erase`, `d.pop(k, None)` ↦ `Assoc.erase`, `for k in d` / `.keys()` / `.values()` / `.items()` ↦ the
            first / second components / the list itself (insertion order).
  None      a local that is assigned `None` somewhere, or a parameter with default `None`, is an `Option`; using it
            where a value is needed ↦ `(← optGet x)` (TypeError) / `(← optAttr x)` for an attribute (AttributeError);
            `if x is not None:` narrows `x` in its body when the body does not assign it (`if let some … := x`).
  inf       `math.inf` / `float("inf")` ↦ `IntInf.inf`; a value that may be an int or infinity is an `IntInf`.
  defaults  a missing argument takes the callee's default: `None`, `True`/`False`, an int, a settings constant.
  while     `while a < b` as in py2lean.py; any other `while c` needs a FUEL entry (a Python expression evaluated at loop
            entry, stated in a comment in the generated text); `throw .fuel` if the test still holds afterwards — the equality
            theorems prove that this never happens.
  dropped   `<Class>.LOGGER.info(f"…")` (logging; the f-string only reads fields) ↦ a comment.
  links     callees that are not translated but mapped to a Lean definition: LINKS below.
"""
import ast
import os

import py2lean as P
from py2lean import Untranslatable, camel, find_function, module_ast, FIELD, SETTINGS

ABS = "scoda/sequences/absolute_sequence.py"
UTIL = "scoda/misc/util.py"

# what is translated, in this order: (file, class or None, function, options)
#   param_types: types of parameters whose annotation is missing or too weak (`object`)
#   fuel:        {unparsed while test: python expression for the number of iterations that always suffices}
SPECS = [
    (UTIL, None, "find_minimal_distance", {"param_types": {"element": "Int", "collection": "List Int"}}),
    (ABS, "AbsoluteSequence", "_add_message_unsorted", {}),
    (ABS, "AbsoluteSequence", "normalise_absolute", {}),
    (UTIL, None, "binary_insort", {}),
    (ABS, "AbsoluteSequence", "add_message", {}),
    (ABS, "AbsoluteSequence", "get_message_times_of_type", {}),
    (ABS, "AbsoluteSequence", "get_message_pairings", {}),
    (ABS, "AbsoluteSequence", "get_interleaved_message_pairings", {
        "fuel": {"has_next": "sum([len(channel_pairings_list[i][1]) for i in range(len(channel_pairings_list))]) + 1"}}),
    (ABS, "AbsoluteSequence", "cutoff", {}),
    (ABS, "AbsoluteSequence", "equals", {"param_types": {"other": "Seq"}}),
    (ABS, "AbsoluteSequence", "merge", {}),
    (ABS, "AbsoluteSequence", "quantise", {}),
    (ABS, "AbsoluteSequence", "quantise_note_lengths", {"param_types": {"note_values": "Opt List Int"}}),
]
LEAN_NAME = {("AbsoluteSequence", "add_message"): "absAddMessage",
             ("AbsoluteSequence", "_add_message_unsorted"): "addMessageUnsorted"}

# LINK TABLE: callees that are NOT translated but mapped to an existing Lean function (assumptions)
LINKS = {
    ("AbsoluteSequence", "sort"): dict(
        lean="sortRefs heap", kind="mutator",
        why="list.sort(key=(time, channel, message_type, note)) is stable; `sortRefs` is the stable insertion sort `SCoda.isort` "
            "with `SCoda.keyLe` on the referenced messages (the link `sort ↦ sortAbs` of tools/py2lean.py, on references)"),
    ("util", "get_default_step_sizes"): dict(
        lean="SCoda.Gen.defaultStepSizes", kind="const",
        why="evaluated by tools/gen_lean.py (Gen/Settings.lean) by calling the function without arguments"),
    ("util", "get_default_note_values"): dict(
        lean="SCoda.Gen.defaultNoteValues", kind="const",
        why="evaluated by tools/gen_lean.py (Gen/Settings.lean) by calling the function without arguments"),
}

MUTATORS = {"append", "extend", "insert", "pop", "remove", "setdefault", "sort", "clear", "reverse", "update", "popitem"}


# ----------------------------------------------------------------------------------------------- types

class TV:
    """unification variable (element type of `[]` / `dict()` until its first use)"""
    n = 0

    def __init__(self):
        TV.n += 1
        self.id = TV.n
        self.link = None

    def __repr__(self):
        return f"?{self.id}" if self.link is None else repr(self.link)


INT, BOOL, MTYPE, REF, INTINF, NONE, INF, UNIT, SEQ = "Int", "Bool", "MType", "Ref", "IntInf", "None", "Inf", "Unit", "Seq"


def prune(t):
    while isinstance(t, TV) and t.link is not None:
        t = t.link
    if isinstance(t, tuple):
        return (t[0],) + tuple(prune(x) for x in t[1:])
    return t


def TList(t):
    return ("List", t)


def TDict(k, v):
    return ("Dict", k, v)


def TTuple(*ts):
    return ("Tuple",) + tuple(ts)


def TOpt(t):
    return ("Opt", t)


def kind(t):
    t = prune(t)
    if t == SEQ:
        return "List"
    return t[0] if isinstance(t, tuple) else ("Var" if isinstance(t, TV) else t)


def norm(t):
    """a sequence object is its list of references"""
    t = prune(t)
    return TList(REF) if t == SEQ else t


def occurs(v, t):
    t = prune(t)
    if t is v:
        return True
    return isinstance(t, tuple) and any(occurs(v, x) for x in t[1:])


def unify(a, b, what=""):
    a, b = norm(a), norm(b)
    if a is b or a == b:
        return
    if isinstance(a, TV):
        if occurs(a, b):
            raise Untranslatable(f"recursive type ({what})")
        a.link = b
        return
    if isinstance(b, TV):
        unify(b, a, what)
        return
    if isinstance(a, tuple) and isinstance(b, tuple) and a[0] == b[0] and len(a) == len(b):
        for x, y in zip(a[1:], b[1:]):
            unify(x, y, what)
        return
    raise Untranslatable(f"type mismatch {show(a)} / {show(b)} ({what})")


def show(t):
    t = prune(t)
    if isinstance(t, TV):
        return f"?{t.id}"
    if isinstance(t, tuple):
        return t[0] + "[" + ", ".join(show(x) for x in t[1:]) + "]"
    return t


def lean_ty(t, what=""):
    t = prune(t)
    if isinstance(t, TV):
        raise Untranslatable(f"the element type of an empty container is never determined ({what})")
    if t in (INT, BOOL, MTYPE, INTINF, UNIT):
        return t
    if t == REF:
        return "Nat"
    if t == SEQ:
        return "List Nat"
    k = t[0]
    if k == "List":
        return f"List {paren(lean_ty(t[1], what))}"
    if k == "Dict":
        return f"Assoc {paren(lean_ty(t[1], what))} {paren(lean_ty(t[2], what))}"
    if k == "Tuple":
        return " × ".join(paren(lean_ty(x, what)) for x in t[1:])
    if k == "Opt":
        return f"Option {paren(lean_ty(t[1], what))}"
    raise Untranslatable(f"no Lean type for {show(t)} ({what})")


def paren(s):
    return f"({s})" if " " in s else s


def lean_default(t):
    t = prune(t)
    if t == INT:
        return "0"
    if t == BOOL:
        return "false"
    if t in (MTYPE,):
        return "default"
    if t == REF:
        return "0"
    if t == INTINF:
        return "IntInf.inf"
    if t == SEQ:
        return "[]"
    if isinstance(t, tuple):
        if t[0] in ("List", "Dict"):
            return "[]"
        if t[0] == "Opt":
            return "none"
        if t[0] == "Tuple":
            return "(" + ", ".join(lean_default(x) for x in t[1:]) + ")"
    raise Untranslatable(f"no default value for {show(t)}")


def parse_ty(s):
    """types of the SPECS options: Int | Bool | MType | Ref | Seq | List T | Opt T"""
    s = s.strip()
    if s in (INT, BOOL, MTYPE, REF, SEQ):
        return s
    if s.startswith("List "):
        return TList(parse_ty(s[5:]))
    if s.startswith("Opt "):
        return TOpt(parse_ty(s[4:]))
    raise Untranslatable(f"type {s!r} in SPECS")


ANNOT = {"int": INT, "bool": BOOL, "Message": REF, "list[int]": TList(INT), "list[MessageType]": TList(MTYPE),
         "list[Message]": TList(REF), "list": TList(REF), "AbsoluteSequence": SEQ, "list[AbsoluteSequence]": TList(SEQ)}


# ----------------------------------------------------------------------------------------------- prelude (Lean)

PRELUDE = r'''
open SCoda

/-- what a translated function can raise -/
inductive PyErr
  | sequenceException      -- `raise SequenceException(…)`
  | indexError             -- list index out of range, pop from an empty list
  | keyError               -- `d[k]` / `d.pop(k)` without the key
  | valueError             -- `l.remove(x)` / `l.index(x)` without `x`, `min([])`
  | zeroDivisionError
  | attributeError         -- attribute of `None`
  | typeError              -- `None` used as a value
  | assertionError         -- `assert`
  | fuel                   -- a `while` loop did not finish within its stated fuel
  deriving DecidableEq, Repr, Inhabited

/-- the heap of `Message` objects; a reference is a position -/
abbrev Heap := List Msg
def hGet (h : Heap) (r : Nat) : Msg := h.getD r default
/-- `r.f = v` -/
def hUpd (h : Heap) (r : Nat) (f : Msg → Msg) : Heap := h.set r (f (hGet h r))
/-- LINK `list.sort(key=lambda x: (x.time, channel, message_type, note))` on a list of references -/
def sortRefs (h : Heap) (l : List Nat) : List Nat := SCoda.isort (fun i j => SCoda.keyLe (hGet h i) (hGet h j)) l

/-- `Message.__init__`: `if self.channel is None: self.channel = 0` -/
def chanOfInt (c : Int) : Int := if c == pyNone then 0 else c

/-- an int or `math.inf` -/
inductive IntInf
  | fin (v : Int)
  | inf
  deriving DecidableEq, Repr, Inhabited
def IntInf.lt : IntInf → IntInf → Bool
  | .fin a, .fin b => decide (a < b)
  | .fin _, .inf => true
  | .inf, _ => false
def IntInf.le (a b : IntInf) : Bool := !(IntInf.lt b a)

/-- `None` used where a value is needed (TypeError) -/
def optGet {α} (o : Option α) : Except PyErr α := match o with | some x => pure x | none => throw .typeError
/-- attribute of a value that may be `None` (AttributeError) -/
def optAttr {α} (o : Option α) : Except PyErr α := match o with | some x => pure x | none => throw .attributeError

/-- `l[i]` with Python's negative indices -/
def pyGet {α} (l : List α) (i : Int) : Except PyErr α :=
  let j : Int := if i < 0 then i + l.length else i
  if j < 0 then throw .indexError else
  match l[j.toNat]? with
  | some x => pure x
  | none => throw .indexError
/-- `l[i] = x` -/
def pySet {α} (l : List α) (i : Int) (x : α) : Except PyErr (List α) :=
  let j : Int := if i < 0 then i + l.length else i
  if j < 0 then throw .indexError else
  if j.toNat < l.length then pure (l.set j.toNat x) else throw .indexError
/-- `l.pop(i)` (the list part) -/
def pyPopAt {α} (l : List α) (i : Int) : Except PyErr (List α) :=
  let j : Int := if i < 0 then i + l.length else i
  if j < 0 then throw .indexError else
  if j.toNat < l.length then pure (l.eraseIdx j.toNat) else throw .indexError
/-- `l.insert(i, x)` -/
def pyInsert {α} (l : List α) (i : Int) (x : α) : List α :=
  let j : Int := if i < 0 then i + l.length else i
  let k : Nat := if j < 0 then 0 else min j.toNat l.length
  l.take k ++ x :: l.drop k
/-- `l.remove(x)`: first occurrence, ValueError if there is none -/
def pyRemove {α} [DecidableEq α] : List α → α → Except PyErr (List α)
  | [], _ => throw .valueError
  | y :: ys, x => if y = x then pure ys else do pure (y :: (← pyRemove ys x))
/-- `l.index(x)`: first occurrence, ValueError if there is none -/
def pyIndexGo {α} [DecidableEq α] : List α → α → Int → Except PyErr Int
  | [], _, _ => throw .valueError
  | y :: ys, x, i => if y = x then pure i else pyIndexGo ys x (i + 1)
def pyIndex {α} [DecidableEq α] (l : List α) (x : α) : Except PyErr Int := pyIndexGo l x 0
/-- `range(a, b)` -/
def pyRange (a b : Int) : List Int := (List.range (b - a).toNat).map (fun (k : Nat) => a + (k : Int))
/-- `enumerate(l)` -/
def pyEnumerate {α} (l : List α) : List (Int × α) := (pyRange 0 l.length).zip l
/-- `min(l)`: the first minimal element, ValueError on an empty list -/
def pyMinInf : List IntInf → Except PyErr IntInf
  | [] => throw .valueError
  | x :: xs => pure (xs.foldl (fun m y => if IntInf.lt y m then y else m) x)
def pyMinInt : List Int → Except PyErr Int
  | [] => throw .valueError
  | x :: xs => pure (xs.foldl (fun m y => if y < m then y else m) x)
/-- `sum(l)` -/
def pySum (l : List Int) : Int := l.foldl (· + ·) 0
/-- `sorted(l)` on ints -/
def pySortedInt (l : List Int) : List Int := SCoda.isort (fun a b => decide (a ≤ b)) l
/-- `a // b` (floor division) -/
def pyFloorDiv (a b : Int) : Except PyErr Int := if b == 0 then throw .zeroDivisionError else pure (Int.fdiv a b)
/-- `a % b` (sign of the divisor) -/
def pyMod (a b : Int) : Except PyErr Int := if b == 0 then throw .zeroDivisionError else pure (Int.fmod a b)

/-- `d[k]` -/
def dictGet {κ ν} [DecidableEq κ] (d : Assoc κ ν) (k : κ) : Except PyErr ν :=
  match Assoc.get? d k with
  | some v => pure v
  | none => throw .keyError
/-- `d.setdefault(k, v)` (the dictionary part) -/
def dictSetDefault {κ ν} [DecidableEq κ] (d : Assoc κ ν) (k : κ) (v : ν) : Assoc κ ν :=
  if Assoc.contains d k then d else Assoc.set d k v
'''


# ----------------------------------------------------------------------------------------------- code tree

class Block:
    def __init__(self, path):
        self.path = path
        self.items = []      # str | AssignItem | ("if", cond, Block, Block|None) | ("for", pat, iter, Block) | ("return", val)


class AssignItem:
    def __init__(self, var, text, seq):
        self.var, self.text, self.seq = var, text, seq
        self.declares = False


class Sig:
    def __init__(self, lean, params, reads_heap, writes_heap, mutated, ret, qual, recv):
        self.lean, self.params, self.reads_heap, self.writes_heap = lean, params, reads_heap, writes_heap
        self.mutated, self.ret, self.qual, self.recv = mutated, ret, qual, recv

    def effectful(self):
        return self.writes_heap or bool(self.mutated)

    def components(self):
        """what the Lean function returns, in order"""
        return (["heap"] if self.writes_heap else []) + list(self.mutated) + ([] if prune(self.ret) == UNIT else ["<ret>"])


class Registry:
    """translated functions, memoised, in completion order"""

    def __init__(self):
        self.spec = {(c, f): (rel, opts) for rel, c, f, opts in SPECS}
        self.done = {}
        self.order = []
        self.in_progress = set()
        self.links_used = []

    def get(self, cls, fn):
        key = (cls, fn)
        if key in self.done:
            return self.done[key][0]
        if key not in self.spec:
            return None
        if key in self.in_progress:
            raise Untranslatable(f"recursive call cycle through {cls}.{fn}")
        self.in_progress.add(key)
        rel, opts = self.spec[key]
        tr = FnTranslator(self, rel, cls, fn, opts)
        text = tr.translate()
        self.in_progress.discard(key)
        self.done[key] = (tr.sig, text)
        self.order.append(key)
        return tr.sig


def proj(text, n, i):
    """i-th component of an n-tuple (right-nested pairs)"""
    if n == 1:
        return text
    return text + ".2" * i + (".1" if i < n - 1 else "")


def path_root(n):
    """root variable of a chain of subscripts (`v`, `v[i]`, `v[i][j]`, `self._messages[i]`), else None"""
    while isinstance(n, ast.Subscript):
        n = n.value
    if isinstance(n, ast.Name):
        return n.id
    if isinstance(n, ast.Attribute) and n.attr == "_messages" and isinstance(n.value, ast.Name):
        return n.value.id
    return None


def path_depth(n):
    d = 0
    while isinstance(n, ast.Subscript):
        n = n.value
        d += 1
    return d


def pos_of(n):
    return (n.lineno, n.col_offset)


def names_in(nodes):
    out = set()
    for node in nodes:
        for n in ast.walk(node):
            if isinstance(n, ast.Name):
                out.add(n.id)
    return out


def is_monadic(text):
    return "(←" in text


class FnTranslator:
    def __init__(self, reg, rel, cls, fn, opts):
        self.reg, self.rel, self.cls, self.fn_name, self.opts = reg, rel, cls, fn, opts
        self.fn = find_function(rel, cls, fn)
        self.qual = f"{cls}.{fn}" if cls else fn
        self.vars = {}            # python name -> type
        self.all_vars = {}        # every local ever declared (for rendering)
        self.params = []          # (python name, type)
        self.refs = {}            # python name -> list of (seq, path, is_store)
        self.seq = 0
        self.path = ()
        self.block_counter = 0
        self.tmp = 0
        self.pre = []             # statements to emit before the current one (allocations, bound temporaries)
        self.no_pre = 0
        self.narrowed = {}
        self.iterating = []       # dict(kind=list|dictkeys|enum, name=root, var=index or key variable)
        self.loop_kind = []
        self.loop_nodes = []
        self.loop_vars_done = set()
        self.rebuild_out = []
        self.uses_heap = False
        self.writes_heap = False
        self.mutated = set()
        self.ret_types = []
        self.sig = None

    # ---- bookkeeping
    def ref(self, name, store=False):
        self.seq += 1
        self.refs.setdefault(name, []).append((self.seq, self.path, store))
        return self.seq

    def lean_var(self, name):
        if name == "self":
            return "self_"
        v = camel(name)
        if v == "heap":
            raise Untranslatable(f"{self.qual}: a variable named heap")
        return v

    def fresh_name(self, base):
        self.tmp += 1
        return f"{base}{self.tmp}_"

    def new_block(self):
        self.block_counter += 1
        return Block(self.path + (self.block_counter,))

    def heap(self):
        self.uses_heap = True
        return "heap"

    # ---- sharing analysis (containers are values: see the docstring)
    def analyse_sharing(self):
        self.share_pos = {}      # name -> earliest effective position at which its whole value has a second reference
        self.holds_pos = {}      # name -> earliest effective position at which it holds a shared container value
        loops = []               # enclosing loops of the statement being visited

        def eff(node):
            return pos_of(loops[0]) if loops else pos_of(node)

        def later_use(name, node):
            end = (node.end_lineno, node.end_col_offset)
            for n in ast.walk(self.fn):
                if isinstance(n, ast.Name) and n.id == name and pos_of(n) >= end:
                    return True
            return False

        def mark(d, name, p, via=None, level=1):
            """`via`: the variable whose value is stored (the mark only counts if that variable holds a container);
            `level`: how many subscripts below `name` the shared value sits (holds marks)"""
            if name is not None:
                d.setdefault(name, []).append((p, via, level))

        def stored_names(v):
            """bare names whose value is stored by storing the value of expression `v`"""
            if isinstance(v, ast.Name):
                return [v.id]
            if isinstance(v, (ast.Tuple, ast.List)):
                return [x for e in v.elts for x in stored_names(e)]
            return []

        def alias_source(v):
            """(root, level) of an expression whose value is (part of) an existing container: path, .values()/.items()/list(…)"""
            if isinstance(v, ast.Call) and isinstance(v.func, ast.Name) and v.func.id == "list" and len(v.args) == 1:
                return alias_source(v.args[0])
            if isinstance(v, ast.Call) and isinstance(v.func, ast.Attribute) and v.func.attr in ("values", "items", "keys"):
                r = path_root(v.func.value)
                return None if r is None else (r, path_depth(v.func.value) + 1)
            if isinstance(v, ast.Subscript):
                r = path_root(v)
                return None if r is None else (r, path_depth(v))
            return None

        def visit(stmts):
            for s in stmts:
                if isinstance(s, ast.Assign) and len(s.targets) == 1:
                    t = s.targets[0]
                    p = eff(s)
                    if isinstance(t, ast.Name) or (isinstance(t, ast.Attribute) and path_root(t) is not None):
                        tname = t.id if isinstance(t, ast.Name) else path_root(t)
                        if isinstance(s.value, ast.Name):
                            if loops or later_use(s.value.id, s):
                                mark(self.share_pos, s.value.id, p, s.value.id)
                                mark(self.share_pos, tname, p, s.value.id)
                        else:
                            for nm in stored_names(s.value):
                                mark(self.share_pos, nm, p, nm)
                                mark(self.holds_pos, tname, p, nm)
                            src = alias_source(s.value)
                            if src is not None:
                                mark(self.share_pos, tname, p)
                                mark(self.holds_pos, tname, p)
                                mark(self.holds_pos, src[0], p, None, src[1])
                    elif isinstance(t, ast.Subscript):
                        for nm in stored_names(s.value):
                            mark(self.share_pos, nm, p, nm)
                            mark(self.holds_pos, path_root(t), p, nm, path_depth(t))
                        src = alias_source(s.value)
                        if src is not None:
                            mark(self.holds_pos, path_root(t), p, None, path_depth(t))
                            mark(self.holds_pos, src[0], p, None, src[1])
                for n in ast.walk(s) if not isinstance(s, (ast.For, ast.While, ast.If)) else [s]:
                    if isinstance(n, ast.Call) and isinstance(n.func, ast.Attribute) \
                            and n.func.attr in ("append", "insert", "setdefault"):
                        for a in n.args:
                            for nm in stored_names(a):
                                mark(self.share_pos, nm, eff(s), nm)
                                mark(self.holds_pos, path_root(n.func.value), eff(s), nm, path_depth(n.func.value) + 1)
                            src = alias_source(a)
                            if src is not None:
                                mark(self.holds_pos, path_root(n.func.value), eff(s), None, path_depth(n.func.value) + 1)
                                mark(self.holds_pos, src[0], eff(s), None, src[1])
                if isinstance(s, ast.If):
                    visit_expr_calls(s.test, s)
                    visit(s.body)
                    visit(s.orelse)
                elif isinstance(s, (ast.For, ast.While)):
                    loops.append(s)
                    visit(s.body)
                    loops.pop()

        def visit_expr_calls(e, s):
            pass

        visit(self.fn.body)

    def is_container_var(self, name):
        t = self.vars.get(name, self.all_vars.get(name))
        return t is None or kind(t) in ("List", "Dict", "Tuple", "Opt", "Var")

    def check_in_place(self, node, root, depth):
        """an in-place change of the container `root` (depth 1) or of an element below it (depth ≥ 2) at `node`"""
        q = pos_of(node)
        for p, via, _ in self.share_pos.get(root, []):
            if p <= q and (via is None or self.is_container_var(via)):
                raise Untranslatable(f"{self.qual}: line {node.lineno}: {root} is changed in place although its value has been "
                                     f"stored elsewhere (line {p[0]}); containers are values in the translation")
        if depth >= 2:
            for p, via, level in self.holds_pos.get(root, []):
                if p <= q and level <= depth - 1 and (via is None or self.is_container_var(via)):
                    raise Untranslatable(f"{self.qual}: line {node.lineno}: an element of {root} is changed in place although "
                                         f"{root} holds shared containers (line {p[0]})")

    # ---- coercions
    def coerce(self, text, ty, want, what="value"):
        ty, want = prune(ty), prune(want)
        kt, kw = kind(ty), kind(want)
        if kt == "None":
            if kw == "Opt":
                return "none"
            if kw == "Int":
                return "pyNone"
            if kw == "Var":
                unify(want, TOpt(TV()), what)
                return "none"
            raise Untranslatable(f"{self.qual}: None used as {show(want)} ({what})")
        if kt == "Inf":
            if kw in ("IntInf", "Var"):
                unify(want, INTINF, what)
                return "IntInf.inf"
            raise Untranslatable(f"{self.qual}: infinity used as {show(want)} ({what})")
        if kw == "Opt" and kt != "Opt" and kt != "Var":
            return f"(some {self.coerce(text, ty, want[1], what)})"
        if kw == "IntInf" and kt == "Int":
            return f"(IntInf.fin {text})"
        if kt == "Opt" and kw not in ("Opt", "Var"):
            return self.coerce(f"(← optGet {text})", ty[1], want, what)
        try:
            unify(ty, want, what)
        except Untranslatable as e:
            raise Untranslatable(f"{self.qual}: {e}")
        return text

    def unwrap(self, text, ty, attr=False):
        """a value that may be None used as a value"""
        ty = prune(ty)
        if kind(ty) == "Opt":
            return f"(← {'optAttr' if attr else 'optGet'} {text})", prune(ty[1])
        return text, ty

    def join(self, ta, tb, what):
        """common type of two branches"""
        ka, kb = kind(ta), kind(tb)
        if ka == "None" and kb == "None":
            return TOpt(TV())
        if ka == "None":
            return tb if kb == "Opt" else TOpt(tb)
        if kb == "None":
            return ta if ka == "Opt" else TOpt(ta)
        if "Inf" in (ka, kb) or "IntInf" in (ka, kb):
            return INTINF
        if ka == "Opt" and kb != "Opt":
            return ta
        if kb == "Opt" and ka != "Opt":
            return tb
        unify(ta, tb, what)
        return ta

    # ---- expressions: (text, type)
    def expr(self, n):
        if isinstance(n, ast.Constant):
            if n.value is None:
                return "none", NONE
            if isinstance(n.value, bool):
                return ("true" if n.value else "false"), BOOL
            if isinstance(n.value, int):
                return (f"({n.value})" if n.value < 0 else str(n.value)), INT
            raise Untranslatable(f"{self.qual}: constant {n.value!r}")
        if isinstance(n, ast.Name):
            if n.id in self.narrowed:
                self.ref(n.id)
                return self.narrowed[n.id]
            if n.id in self.vars:
                self.ref(n.id)
                return self.lean_var(n.id), self.vars[n.id]
            if n.id in SETTINGS:
                return SETTINGS[n.id], INT
            raise Untranslatable(f"{self.qual}: name {n.id!r}")
        if isinstance(n, ast.Attribute):
            if isinstance(n.value, ast.Name) and n.value.id == "MessageType" and "MessageType" not in self.vars:
                return "MType." + camel(n.attr), MTYPE
            if isinstance(n.value, ast.Name) and n.value.id == "math" and n.attr == "inf":
                return "IntInf.inf", INF
            if n.attr == "_messages":
                t, ty = self.expr(n.value)
                if prune(ty) != SEQ:
                    raise Untranslatable(f"{self.qual}: ._messages of a {show(ty)}")
                return t, TList(REF)
            if n.attr in FIELD:
                t, ty = self.expr(n.value)
                t, ty = self.unwrap(t, ty, attr=True)
                self.coerce(t, ty, REF, f".{n.attr}")
                f, fty = FIELD[n.attr]
                return f"(hGet {self.heap()} {t}).{f}", (MTYPE if fty == "MType" else INT)
            raise Untranslatable(f"{self.qual}: attribute .{n.attr}")
        if isinstance(n, ast.UnaryOp) and isinstance(n.op, ast.USub):
            t, ty = self.expr(n.operand)
            return f"(-{self.coerce(t, ty, INT)})", INT
        if isinstance(n, ast.UnaryOp) and isinstance(n.op, ast.Not):
            return f"(!{self.cond(n.operand)})", BOOL
        if isinstance(n, ast.BinOp):
            a, ta = self.expr(n.left)
            b, tb = self.expr(n.right)
            if isinstance(n.op, ast.Add) and kind(ta) == "List":
                a, ta = self.unwrap(a, ta)
                b = self.coerce(b, tb, ta, "list +")
                return f"({a} ++ {b})", norm(ta)
            a, b = self.coerce(a, ta, INT, "operand"), self.coerce(b, tb, INT, "operand")
            sym = {ast.Add: "+", ast.Sub: "-", ast.Mult: "*"}.get(type(n.op))
            if sym:
                return f"({a} {sym} {b})", INT
            if isinstance(n.op, (ast.FloorDiv, ast.Mod)):
                fn = "pyFloorDiv" if isinstance(n.op, ast.FloorDiv) else "pyMod"
                return f"(← {fn} {a} {b})", INT
            raise Untranslatable(f"{self.qual}: operator {type(n.op).__name__}")
        if isinstance(n, (ast.Compare, ast.BoolOp)):
            return self.cond(n), BOOL
        if isinstance(n, ast.Subscript):
            if isinstance(n.slice, ast.Slice):
                raise Untranslatable(f"{self.qual}: slice")
            l, tl = self.expr(n.value)
            l, tl = self.unwrap(l, tl)
            k = kind(tl)
            if k == "Tuple":
                if not (isinstance(n.slice, ast.Constant) and isinstance(n.slice.value, int)
                        and 0 <= n.slice.value < len(tl) - 1):
                    raise Untranslatable(f"{self.qual}: tuple subscript {ast.unparse(n.slice)}")
                return proj(l, len(tl) - 1, n.slice.value), tl[1 + n.slice.value]
            i, ti = self.expr(n.slice)
            if k == "List":
                return f"(← pyGet {l} {self.coerce(i, ti, INT, 'index')})", norm(tl)[1]
            if k == "Dict":
                return f"(← dictGet {l} {self.coerce(i, ti, tl[1], 'key')})", tl[2]
            raise Untranslatable(f"{self.qual}: subscript of a {show(tl)}")
        if isinstance(n, ast.ListComp):
            return self.comprehension(n, "map")
        if isinstance(n, ast.List):
            if not n.elts:
                return "[]", TList(TV())
            parts = [self.expr(e) for e in n.elts]
            ty = parts[0][1]
            for _, t2 in parts[1:]:
                ty = self.join(ty, t2, "list literal")
            return "[" + ", ".join(self.coerce(t, t1, ty, "list element") for t, t1 in parts) + "]", TList(ty)
        if isinstance(n, ast.Tuple):
            parts = [self.expr(e) for e in n.elts]
            if len(parts) < 2:
                raise Untranslatable(f"{self.qual}: tuple of length {len(parts)}")
            return "(" + ", ".join(t for t, _ in parts) + ")", TTuple(*[norm(t) for _, t in parts])
        if isinstance(n, ast.IfExp):
            c = self.cond(n.test)
            self.no_pre += 1
            a, ta = self.expr(n.body)
            b, tb = self.expr(n.orelse)
            self.no_pre -= 1
            ty = self.join(ta, tb, "conditional expression")
            a, b = self.coerce(a, ta, ty), self.coerce(b, tb, ty)
            if is_monadic(a) or is_monadic(b):
                return f"(← (if {c} then (do pure {a}) else (do pure {b})))", ty
            return f"(if {c} then {a} else {b})", ty
        if isinstance(n, ast.Call):
            return self.call_expr(n)
        raise Untranslatable(f"{self.qual}: expression {type(n).__name__}: {ast.unparse(n)[:60]}")

    def comprehension(self, n, mode):
        """[elt for v in iter]  (mode map) / any(elt for v in iter) (mode any)"""
        if len(n.generators) != 1 or n.generators[0].ifs or not isinstance(n.generators[0].target, ast.Name) \
                or n.generators[0].is_async:
            raise Untranslatable(f"{self.qual}: comprehension {ast.unparse(n)[:70]}")
        v = n.generators[0].target.id
        it, ity = self.iterable(n.generators[0].iter)
        if v in self.vars:
            raise Untranslatable(f"{self.qual}: comprehension variable {v} shadows a local")
        self.vars[v] = ity
        self.no_pre += 1
        lv = "_" if v == "_" else self.lean_var(v)
        if mode == "map":
            e, ety = self.expr(n.elt)
        else:
            e, ety = self.cond(n.elt), BOOL
        self.no_pre -= 1
        del self.vars[v]
        self.refs.pop(v, None)
        if mode == "map":
            if is_monadic(e):
                return f"(← ({it}).mapM (fun {lv} => do pure {e}))", TList(norm(ety))
            return f"(({it}).map (fun {lv} => {e}))", TList(norm(ety))
        if is_monadic(e):
            return f"(← ({it}).anyM (fun {lv} => do pure {e}))", BOOL
        return f"(({it}).any (fun {lv} => {e}))", BOOL

    def iterable(self, n):
        """(text of a Lean list, element type) for something that is iterated"""
        t, ty = self.expr(n)
        t, ty = self.unwrap(t, ty)
        k = kind(ty)
        if k == "List":
            return t, norm(ty)[1]
        if k == "Dict":
            return f"({t}.map (·.1))", ty[1]
        raise Untranslatable(f"{self.qual}: iteration over a {show(ty)}")

    def call_args(self, sig, call, skip_first=False):
        """arguments in the callee's parameter order; a missing one takes the callee's default"""
        params = sig.params[1:] if skip_first else sig.params
        given = {}
        pos = call.args[1:] if skip_first else call.args
        if len(pos) > len(params):
            raise Untranslatable(f"{self.qual}: too many arguments for {sig.qual}")
        for (pname, pty, pdef), a in zip(params, pos):
            given[pname] = a
        for kw in call.keywords:
            if kw.arg is None or kw.arg in given:
                raise Untranslatable(f"{self.qual}: keyword arguments of {sig.qual}")
            given[kw.arg] = kw.value
        unknown = set(given) - {p for p, _, _ in params}
        if unknown:
            raise Untranslatable(f"{self.qual}: arguments {sorted(unknown)} of {sig.qual}")
        out = []
        for pname, pty, pdef in params:
            if pname in given:
                t, ty = self.expr(given[pname])
                out.append(self.coerce(t, ty, pty, f"argument {pname}"))
            elif pdef is not None:
                out.append(pdef)
            else:
                raise Untranslatable(f"{self.qual}: missing argument {pname} of {sig.qual}")
        return out

    def imported_function(self, name):
        """`name` is a module-level function of SPECS that is defined in or imported into this module"""
        if (None, name) not in self.reg.spec:
            return None
        rel, _ = self.reg.spec[(None, name)]
        if rel == self.rel:
            return rel
        mod = rel[:-3].replace("/", ".")
        for st in module_ast(self.rel).body:
            if isinstance(st, ast.ImportFrom) and st.module == mod and any(a.name == name and a.asname is None for a in st.names):
                return rel
        return None

    def imported_from(self, name, mod):
        for st in module_ast(self.rel).body:
            if isinstance(st, ast.ImportFrom) and st.module == mod and any(a.name == name and a.asname is None for a in st.names):
                return True
        return False

    def resolve_callee(self, n):
        """(sig, receiver node | None, first-argument-is-the-changed-list) for a call of a translated function, else None"""
        f = n.func
        if isinstance(f, ast.Name) and f.id not in self.vars and self.imported_function(f.id) is not None:
            return self.reg.get(None, f.id), None
        if isinstance(f, ast.Attribute) and isinstance(f.value, ast.Name) and f.value.id in self.vars \
                and prune(self.vars[f.value.id]) == SEQ and ("AbsoluteSequence", f.attr) in self.reg.spec:
            return self.reg.get("AbsoluteSequence", f.attr), f.value
        return None

    def call_expr(self, n):
        f = n.func
        if isinstance(f, ast.Name) and f.id not in self.vars:
            name = f.id
            if name == "len" and len(n.args) == 1 and not n.keywords:
                t, ty = self.expr(n.args[0])
                t, ty = self.unwrap(t, ty)
                if kind(ty) not in ("List", "Dict"):
                    raise Untranslatable(f"{self.qual}: len() of a {show(ty)}")
                return f"({t}.length : Int)", INT
            if name == "abs" and len(n.args) == 1 and not n.keywords:
                t, ty = self.expr(n.args[0])
                return f"(Int.ofNat (Int.natAbs {self.coerce(t, ty, INT)}))", INT
            if name == "float" and len(n.args) == 1 and isinstance(n.args[0], ast.Constant) and n.args[0].value == "inf":
                return "IntInf.inf", INF
            if name == "range" and 1 <= len(n.args) <= 2 and not n.keywords:
                parts = [self.expr(a) for a in n.args]
                parts = [self.coerce(t, ty, INT, "range") for t, ty in parts]
                if len(parts) == 1:
                    parts = ["0"] + parts
                return f"(pyRange {parts[0]} {parts[1]})", TList(INT)
            if name == "enumerate" and len(n.args) == 1 and not n.keywords:
                t, ety = self.iterable(n.args[0])
                return f"(pyEnumerate {t})", TList(TTuple(INT, ety))
            if name == "zip" and len(n.args) == 2 and not n.keywords:
                a, ta = self.iterable(n.args[0])
                b, tb = self.iterable(n.args[1])
                return f"(List.zip {a} {b})", TList(TTuple(ta, tb))
            if name == "sorted" and len(n.args) == 1 and not n.keywords:
                t, ety = self.iterable(n.args[0])
                unify(ety, INT, "sorted (only lists of ints)")
                return f"(pySortedInt {t})", TList(INT)
            if name == "sum" and len(n.args) == 1 and not n.keywords:
                t, ety = self.iterable(n.args[0])
                unify(ety, INT, "sum")
                return f"(pySum {t})", INT
            if name == "min" and len(n.args) == 1 and not n.keywords:
                t, ety = self.iterable(n.args[0])
                if prune(ety) == INTINF:
                    return f"(← pyMinInf {t})", INTINF
                unify(ety, INT, "min")
                return f"(← pyMinInt {t})", INT
            if name == "any" and len(n.args) == 1 and not n.keywords and isinstance(n.args[0], ast.GeneratorExp):
                return self.comprehension(n.args[0], "any")
            if name == "list" and len(n.args) == 1 and not n.keywords:
                t, ty = self.expr(n.args[0])
                if kind(ty) == "List":
                    return t, norm(ty)
                raise Untranslatable(f"{self.qual}: list() of a {show(ty)}")
            if name == "dict" and not n.args and not n.keywords:
                return "[]", TDict(TV(), TV())
            if name == "isinstance" and len(n.args) == 2 and isinstance(n.args[1], ast.Name):
                t, ty = self.expr(n.args[0])
                if prune(ty) == SEQ and n.args[1].id == "AbsoluteSequence":
                    return "true", BOOL     # the parameter is modelled as an AbsoluteSequence (SPECS param_types)
                raise Untranslatable(f"{self.qual}: {ast.unparse(n)}")
            if name == "AbsoluteSequence" and not n.args and not n.keywords:
                return "[]", SEQ
            if name == "Message":
                return self.message_ctor(n), REF
            if ("util", name) in LINKS and LINKS[("util", name)]["kind"] == "const" and not n.args and not n.keywords \
                    and self.imported_from(name, "scoda.misc.util"):
                self.note_link(("util", name))
                return LINKS[("util", name)]["lean"], TList(INT)
        if isinstance(f, ast.Attribute):
            if isinstance(f.value, ast.Name) and f.value.id == "copy" and f.attr == "copy" and "copy" not in self.vars \
                    and len(n.args) == 1 and not n.keywords:
                t, ty = self.expr(n.args[0])
                t, ty = self.unwrap(t, ty)
                if kind(ty) == "List":
                    return t, norm(ty)          # shallow copy of a list: the same value
                raise Untranslatable(f"{self.qual}: copy.copy of a {show(ty)}")
            if f.attr in ("items", "values", "keys") and not n.args and not n.keywords:
                t, ty = self.expr(f.value)
                t, ty = self.unwrap(t, ty, attr=True)
                if kind(ty) != "Dict":
                    raise Untranslatable(f"{self.qual}: .{f.attr}() of a {show(ty)}")
                if f.attr == "items":
                    return t, TList(TTuple(ty[1], ty[2]))
                return (f"({t}.map (·.2))", TList(ty[2])) if f.attr == "values" else (f"({t}.map (·.1))", TList(ty[1]))
            if f.attr == "index" and len(n.args) == 1 and not n.keywords:
                t, ty = self.expr(f.value)
                t, ty = self.unwrap(t, ty, attr=True)
                if kind(ty) != "List":
                    raise Untranslatable(f"{self.qual}: .index of a {show(ty)}")
                x, tx = self.expr(n.args[0])
                return f"(← pyIndex {t} {self.coerce(x, tx, norm(ty)[1], 'index argument')})", INT
        callee = self.resolve_callee(n)
        if callee is not None:
            sig, recv = callee
            if sig.effectful():
                raise Untranslatable(f"{self.qual}: {sig.qual} changes state; its call must be a statement or the whole right-hand "
                                     f"side of an assignment: {ast.unparse(n)[:60]}")
            args = self.call_args(sig, n)
            if recv is not None:
                r, _ = self.expr(recv)
                args = [r] + args
            if sig.reads_heap:
                args = [self.heap()] + args
            return f"(← {sig.lean} {' '.join(args)})", sig.ret
        raise Untranslatable(f"{self.qual}: call {ast.unparse(n)[:70]}")

    def note_link(self, key):
        if key not in self.reg.links_used:
            self.reg.links_used.append(key)

    def message_ctor(self, n):
        """`Message(…)`: a new heap cell; `channel=None ↦ 0` (Message.__init__, checked)"""
        if n.args:
            raise Untranslatable(f"{self.qual}: positional arguments of Message(…)")
        if self.no_pre:
            raise Untranslatable(f"{self.qual}: Message(…) inside a conditionally evaluated expression")
        fields = {}
        for kw in n.keywords:
            if kw.arg not in FIELD:
                raise Untranslatable(f"{self.qual}: Message({kw.arg}=…)")
            t, ty = self.expr(kw.value)
            f, fty = FIELD[kw.arg]
            if fty == "MType":
                fields[f] = self.coerce(t, ty, MTYPE, "message_type")
            elif kw.arg == "channel":
                c = self.coerce(t, ty, INT, "channel")
                fields[f] = c if isinstance(kw.value, ast.Constant) and isinstance(kw.value.value, int) else f"(chanOfInt {c})"
            else:
                fields[f] = self.coerce(t, ty, INT, f"field {kw.arg}")
        if "ty" not in fields:
            raise Untranslatable(f"{self.qual}: Message(…) without message_type")
        order = [FIELD[k][0] for k in FIELD]
        lit = "{ " + ", ".join(f"{f} := {fields[f]}" for f in order if f in fields) + " : Msg }"
        r = self.fresh_name("new")
        self.writes_heap = True
        self.pre.append(f"let {r} : Nat := {self.heap()}.length")
        self.pre.append(f"heap := heap ++ [{lit}]")
        return r

    def cond(self, n):
        if isinstance(n, ast.BoolOp):
            is_and = isinstance(n.op, ast.And)
            first = self.cond(n.values[0])
            self.no_pre += 1
            rest = [self.cond(v) for v in n.values[1:]]
            self.no_pre -= 1
            acc = rest[-1]
            for p in reversed([first] + rest[:-1]):
                if is_monadic(acc):
                    acc = (f"(← (if {p} then (do pure {acc}) else pure false))" if is_and
                           else f"(← (if {p} then pure true else (do pure {acc})))")
                else:
                    acc = f"({p} && {acc})" if is_and else f"({p} || {acc})"
            return acc
        if isinstance(n, ast.UnaryOp) and isinstance(n.op, ast.Not):
            return f"(!{self.cond(n.operand)})"
        if isinstance(n, ast.Compare):
            if len(n.ops) != 1:
                raise Untranslatable(f"{self.qual}: chained comparison")
            op, l, r = n.ops[0], n.left, n.comparators[0]
            if isinstance(op, (ast.Is, ast.IsNot)):
                neg = isinstance(op, ast.IsNot)
                if isinstance(r, ast.Constant) and r.value is None:
                    t, ty = self.expr(l)
                    k = kind(ty)
                    if k == "Opt":
                        return f"{t}.isSome" if neg else f"{t}.isNone"
                    if k == "Int":
                        return f"({t} != pyNone)" if neg else f"({t} == pyNone)"
                    raise Untranslatable(f"{self.qual}: `is None` on a {show(ty)}")
                a, ta = self.expr(l)
                b, tb = self.expr(r)
                if prune(ta) == prune(tb) and prune(ta) in (MTYPE, REF):     # enum members are singletons; references
                    return f"({a} != {b})" if neg else f"({a} == {b})"
                raise Untranslatable(f"{self.qual}: `is` on {show(ta)}/{show(tb)}")
            if isinstance(op, (ast.In, ast.NotIn)):
                a, ta = self.expr(l)
                b, tb = self.expr(r)
                b, tb = self.unwrap(b, tb)
                if kind(tb) == "List":
                    t = f"({b}.contains {self.coerce(a, ta, norm(tb)[1], 'in')})"
                elif kind(tb) == "Dict":
                    t = f"(Assoc.contains {b} {self.coerce(a, ta, tb[1], 'in')})"
                else:
                    raise Untranslatable(f"{self.qual}: `in` on a {show(tb)}")
                return f"(!{t})" if isinstance(op, ast.NotIn) else t
            a, ta = self.expr(l)
            b, tb = self.expr(r)
            if isinstance(op, (ast.Eq, ast.NotEq)):
                sym = "==" if isinstance(op, ast.Eq) else "!="
                if "None" in (kind(ta), kind(tb)) and "Opt" in (kind(ta), kind(tb)):
                    raise Untranslatable(f"{self.qual}: == None (use `is None`)")
                ty = self.join(ta, tb, "==")
                return f"({self.coerce(a, ta, ty)} {sym} {self.coerce(b, tb, ty)})"
            ty = self.join(ta, tb, "comparison")
            if prune(ty) == INTINF:
                a, b = self.coerce(a, ta, INTINF), self.coerce(b, tb, INTINF)
                fn = {ast.Lt: f"(IntInf.lt {a} {b})", ast.LtE: f"(IntInf.le {a} {b})",
                      ast.Gt: f"(IntInf.lt {b} {a})", ast.GtE: f"(IntInf.le {b} {a})"}.get(type(op))
                if fn is None:
                    raise Untranslatable(f"{self.qual}: comparison {type(op).__name__}")
                return fn
            sym = {ast.Lt: "<", ast.LtE: "≤", ast.Gt: ">", ast.GtE: "≥"}.get(type(op))
            if sym is None:
                raise Untranslatable(f"{self.qual}: comparison {type(op).__name__}")
            return f"(decide ({self.coerce(a, ta, INT, 'comparison')} {sym} {self.coerce(b, tb, INT, 'comparison')}))"
        t, ty = self.expr(n)
        return self.coerce(t, ty, BOOL, "truth value")

    # ---- statements
    def flush(self, blk):
        blk.items.extend(self.pre)
        self.pre = []

    def assign_var(self, blk, name, text, ty):
        """name = <text : ty>"""
        if name == "self" or name in self.narrowed:
            raise Untranslatable(f"{self.qual}: assignment to {name}")
        if name not in self.vars:
            if name in self.nullable:
                t0 = TOpt(TV()) if kind(ty) == "None" else (ty if kind(ty) == "Opt" else TOpt(norm(ty)))
            elif kind(ty) == "Inf" or name in self.infinite:
                t0 = INTINF
            elif kind(ty) == "None":
                t0 = TOpt(TV())
            else:
                t0 = norm(ty)
            self.vars[name] = t0
            self.all_vars[name] = t0
        text = self.coerce(text, ty, self.vars[name], f"assignment to {name}")
        if name in [p for p, _ in self.params]:
            self.reassigned.add(name)
        s = self.ref(name, store=True)
        self.flush(blk)
        blk.items.append(AssignItem(name, text, s))

    def mutate_var(self, blk, node, name, text, keys=()):
        """the container variable `name` gets a new value (an in-place change in Python); `keys` = Lean texts of the path"""
        for it in self.iterating:
            if it["name"] != name:
                continue
            ok = it["kind"] in ("enum", "dictkeys") and keys and keys[0] == it["var"] and it.get("len_ok", True)
            if not ok:
                raise Untranslatable(f"{self.qual}: line {node.lineno}: {name} is changed while it is iterated")
        if name in [p for p, _ in self.params]:
            if prune(self.vars[name]) != SEQ:
                raise Untranslatable(f"{self.qual}: line {node.lineno}: the parameter {name} is changed in place")
            self.mutated.add(name)
        self.ref(name)
        self.flush(blk)
        blk.items.append(f"{self.lean_var(name)} := {text}")

    def lv_open(self, blk, node, top):
        """open the lvalue path `node` for an in-place change: (text of its current value, type, setter(new text))"""
        if isinstance(node, ast.Name) and node.id in self.vars and node.id not in self.narrowed:
            name = node.id
            if kind(self.vars[name]) not in ("List", "Dict"):
                raise Untranslatable(f"{self.qual}: in-place change of {name} : {show(self.vars[name])}")
            self.ref(name)
            return self.lean_var(name), norm(self.vars[name]), (lambda new, keys=(): self.mutate_var(blk, top, name, new, keys))
        if isinstance(node, ast.Attribute) and node.attr == "_messages" and isinstance(node.value, ast.Name) \
                and node.value.id in self.vars and prune(self.vars[node.value.id]) == SEQ:
            name = node.value.id
            self.ref(name)
            return self.lean_var(name), TList(REF), (lambda new, keys=(): self.mutate_var(blk, top, name, new, keys))
        if isinstance(node, ast.Subscript) and not isinstance(node.slice, ast.Slice):
            ptext, pty, psetter = self.lv_open(blk, node.value, top)
            k, tk = self.expr(node.slice)
            tmp = self.fresh_name("c")
            if kind(pty) == "Dict":
                k = self.coerce(k, tk, pty[1], "key")
                self.pre.append(f"let {tmp} ← dictGet {ptext} {k}")
                return tmp, norm(pty[2]), (lambda new, keys=(): psetter(f"Assoc.set {ptext} {k} ({new})", (k,) + keys))
            if kind(pty) == "List":
                k = self.coerce(k, tk, INT, "index")
                self.pre.append(f"let {tmp} ← pyGet {ptext} {k}")
                return tmp, norm(pty[1]), (lambda new, keys=(): psetter(f"(← pySet {ptext} {k} ({new}))", (k,) + keys))
            raise Untranslatable(f"{self.qual}: in-place change below a {show(pty)}")
        raise Untranslatable(f"{self.qual}: line {top.lineno}: in-place change of {ast.unparse(node)[:50]} "
                             f"(only a local variable, self._messages, or a subscript path below one)")

    def in_place(self, blk, stmt, target):
        """common entry of every in-place container change: sharing check, then open the path"""
        root = path_root(target)
        if root is None:
            raise Untranslatable(f"{self.qual}: line {stmt.lineno}: in-place change of {ast.unparse(target)[:50]}")
        self.check_in_place(stmt, root, path_depth(target) + 1)
        if self.rebuild_out and root == self.rebuild_out[-1][0] and path_depth(target) == 0:
            pass
        return self.lv_open(blk, target, stmt)

    def bind_if_monadic(self, text, base="v"):
        """Python evaluates the right-hand side before the target: bind it first if it can raise"""
        if is_monadic(text):
            tmp = self.fresh_name(base)
            self.pre.append(f"let {tmp} := {text}")
            return tmp
        return text

    AUG = {ast.Add: "+", ast.Sub: "-", ast.Mult: "*"}

    def store_field(self, blk, target, text, ty, aug=None):
        """<reference expression>.field = value   /   op= value"""
        f, fty = FIELD[target.attr]
        if fty == "MType":
            if aug:
                raise Untranslatable(f"{self.qual}: message_type op=")
            val = self.coerce(text, ty, MTYPE, "message_type")
        else:
            val = self.coerce(text, ty, INT, f"field {target.attr}")
        val = self.bind_if_monadic(val)
        r, tr = self.expr(target.value)
        r, tr = self.unwrap(r, tr, attr=True)
        self.coerce(r, tr, REF, f"store to .{target.attr}")
        self.writes_heap = True
        new = f"(o_.{f} {aug} {val})" if aug else val
        self.flush(blk)
        blk.items.append(f"heap := hUpd {self.heap()} {r} (fun o_ => {{ o_ with {f} := {new} }})")

    def stmts(self, body, blk):
        for s in body:
            self.stmt(s, blk)
            if self.pre:
                raise AssertionError(f"{self.qual}: unflushed pre-statements at line {s.lineno}")

    def branch(self, body):
        saved = self.path
        blk = self.new_block()
        self.path = blk.path
        self.stmts(body, blk)
        self.path = saved
        if all(isinstance(it, str) and it.startswith("--") for it in blk.items):
            blk.items.append("pure ()")
        return blk

    def is_logging(self, n):
        """`<Class>.LOGGER.info(f"…")`: no effect on the modelled state; the f-string must only read translatable expressions"""
        if not (isinstance(n, ast.Call) and isinstance(n.func, ast.Attribute) and n.func.attr in ("info", "debug", "warning")
                and isinstance(n.func.value, ast.Attribute) and n.func.value.attr == "LOGGER" and not n.keywords):
            return False
        saved = (self.pre, self.uses_heap, dict(self.refs), self.seq)
        self.pre = []
        self.no_pre += 1
        try:
            for a in n.args:
                if isinstance(a, ast.JoinedStr):
                    for v in a.values:
                        if isinstance(v, ast.FormattedValue):
                            t, _ = self.expr(v.value)
                            if is_monadic(t):
                                raise Untranslatable(f"{self.qual}: logging argument can raise: {ast.unparse(v.value)}")
                elif not isinstance(a, ast.Constant):
                    raise Untranslatable(f"{self.qual}: logging argument {ast.unparse(a)[:40]}")
        finally:
            self.no_pre -= 1
            self.pre, self.uses_heap, self.refs, self.seq = saved
        return True

    def stmt(self, s, blk):
        if isinstance(s, ast.Expr) and isinstance(s.value, ast.Constant) and isinstance(s.value.value, str):
            return
        if isinstance(s, ast.Pass):
            return
        if isinstance(s, ast.Assign):
            if len(s.targets) != 1:
                raise Untranslatable(f"{self.qual}: multiple assignment targets")
            self.assign(s, s.targets[0], blk)
            return
        if isinstance(s, ast.AugAssign):
            self.aug_assign(s, blk)
            return
        if isinstance(s, ast.If):
            self.if_stmt(s, blk)
            return
        if isinstance(s, ast.For):
            self.for_stmt(s, blk)
            return
        if isinstance(s, ast.While):
            self.while_stmt(s, blk)
            return
        if isinstance(s, ast.Break):
            if self.loop_kind[-1] == "rebuild":
                raise Untranslatable(f"{self.qual}: break in a loop that changes its loop variable in place")
            blk.items.append("break")
            return
        if isinstance(s, ast.Continue):
            if self.loop_kind[-1] == "rebuild":
                out, v = self.rebuild_out[-1][1:]
                blk.items.append(f"{out} := {out} ++ [{v}]")
            if self.loop_kind[-1] == "while":
                raise Untranslatable(f"{self.qual}: continue in a while loop")
            blk.items.append("continue")
            return
        if isinstance(s, ast.Return):
            if "rebuild" in self.loop_kind:
                raise Untranslatable(f"{self.qual}: return inside a loop that changes its loop variable in place")
            if s.value is None:
                self.ret_types.append(UNIT)
                blk.items.append(("return", None))
            else:
                text, ty = self.expr(s.value)
                self.ret_types.append(ty)
                self.flush(blk)
                blk.items.append(("return", (text, ty)))
            return
        if isinstance(s, ast.Raise):
            exc = s.exc
            if isinstance(exc, ast.Call) and isinstance(exc.func, ast.Name) and exc.func.id == "SequenceException":
                blk.items.append("throw PyErr.sequenceException")
                return
            raise Untranslatable(f"{self.qual}: raise {ast.unparse(exc) if exc else ''}")
        if isinstance(s, ast.Assert):
            c = self.cond(s.test)
            self.flush(blk)
            b = Block(blk.path + ("s",))
            b.items.append("throw PyErr.assertionError")
            blk.items.append(("if", f"(!{c})", b, None))
            return
        if isinstance(s, ast.Expr) and isinstance(s.value, ast.Call):
            if self.is_logging(s.value):
                blk.items.append("-- logging dropped: " + " ".join(ast.unparse(s.value).split())[:110])
                return
            self.call_stmt(s, s.value, blk)
            return
        raise Untranslatable(f"{self.qual}: statement {type(s).__name__}: {ast.unparse(s)[:60]}")

    def effect_call(self, blk, stmt, n, sig, recv):
        """call of a translated function that changes the heap / a sequence; returns the text of its return value (or None)"""
        args = self.call_args(sig, n, skip_first=(recv is None and bool(sig.mutated)))
        names = []
        if recv is not None:
            rname = recv.id
            names_map = {sig.recv: rname}
            args = [self.lean_var(rname)] + args
        else:
            names_map = {}
            if sig.mutated:
                # module-level function that changes its first argument (a list variable)
                first = n.args[0]
                root = path_root(first)
                if root is None or path_depth(first) != 0:
                    raise Untranslatable(f"{self.qual}: first argument of {sig.qual} is not a list variable")
                names_map = {sig.mutated[0]: root}
                args = [self.lean_var(root)] + args
        if sig.reads_heap:
            args = [self.heap()] + args
        # sequence arguments that the callee changes must be variables
        for pname in sig.mutated:
            if pname not in names_map:
                given = {p: a for (p, _, _), a in zip(sig.params, n.args)}
                given.update({kw.arg: kw.value for kw in n.keywords})
                a = given.get(pname)
                if not isinstance(a, ast.Name):
                    raise Untranslatable(f"{self.qual}: {sig.qual} changes its argument {pname}, which is not a variable here")
                names_map[pname] = a.id
        comps = sig.components()
        r = self.fresh_name("r")
        self.flush(blk)
        blk.items.append(f"let {r} ← {sig.lean} {' '.join(args)}".rstrip())
        val = None
        for i, c in enumerate(comps):
            p = proj(r, len(comps), i)
            if c == "heap":
                self.writes_heap = True
                self.uses_heap = True
                blk.items.append(f"heap := {p}")
            elif c == "<ret>":
                val = p
            else:
                target = names_map[c]
                self.check_in_place(stmt, target, 1)
                self.mutate_var(blk, stmt, target, p)
        return val

    def call_stmt(self, s, n, blk):
        f = n.func
        callee = self.resolve_callee(n)
        if callee is not None:
            sig, recv = callee
            if sig.effectful():
                self.effect_call(blk, s, n, sig, recv)
            else:
                t, _ = self.call_expr(n)
                self.flush(blk)
                blk.items.append(f"let _ := {t}")
            return
        if isinstance(f, ast.Attribute):
            # linked method of a sequence object
            if isinstance(f.value, ast.Name) and f.value.id in self.vars and prune(self.vars[f.value.id]) == SEQ \
                    and ("AbsoluteSequence", f.attr) in LINKS:
                link = LINKS[("AbsoluteSequence", f.attr)]
                if link["kind"] != "mutator" or n.args or n.keywords:
                    raise Untranslatable(f"{self.qual}: link call {ast.unparse(n)[:60]}")
                self.note_link(("AbsoluteSequence", f.attr))
                self.uses_heap = True
                self.check_in_place(s, f.value.id, 1)
                self.mutate_var(blk, s, f.value.id, f"{link['lean']} {self.lean_var(f.value.id)}")
                return
            if f.attr in MUTATORS and not n.keywords:
                self.container_method(blk, s, n)
                return
        raise Untranslatable(f"{self.qual}: call statement {ast.unparse(n)[:70]}")

    def container_method(self, blk, s, n, want_value=False):
        """`<path>.append(x)` …; with want_value (only pop): returns (text, type) of the popped value"""
        f = n.func
        cur, ty, setter = self.in_place(blk, s, f.value)
        m = f.attr
        if kind(ty) == "Var" and m in ("append", "extend", "insert", "remove"):
            unify(ty, TList(TV()), f".{m}")
        if kind(ty) == "Var" and m == "setdefault":
            unify(ty, TDict(TV(), TV()), f".{m}")
        ty = norm(ty)
        k = kind(ty)
        args = [self.expr(a) for a in n.args]
        if k == "List":
            ety = norm(ty)[1]
            if m == "append" and len(args) == 1:
                setter(f"{cur} ++ [{self.coerce(args[0][0], args[0][1], ety, 'append')}]")
                return None
            if m == "extend" and len(args) == 1:
                setter(f"{cur} ++ {self.coerce(args[0][0], args[0][1], ty, 'extend')}")
                return None
            if m == "insert" and len(args) == 2:
                setter(f"pyInsert {cur} {self.coerce(args[0][0], args[0][1], INT, 'index')} "
                       f"{self.coerce(args[1][0], args[1][1], ety, 'insert')}")
                return None
            if m == "remove" and len(args) == 1:
                setter(f"(← pyRemove {cur} {self.coerce(args[0][0], args[0][1], ety, 'remove')})")
                return None
            if m == "pop" and len(args) <= 1:
                i = self.coerce(args[0][0], args[0][1], INT, "index") if args else "(-1)"
                val = None
                if want_value:
                    val = self.fresh_name("p")
                    self.pre.append(f"let {val} ← pyGet {cur} {i}")
                setter(f"(← pyPopAt {cur} {i})")
                return (val, ety) if want_value else None
        if k == "Dict":
            if m == "setdefault" and len(args) == 2:
                setter(f"dictSetDefault {cur} {self.coerce(args[0][0], args[0][1], ty[1], 'key')} "
                       f"{self.coerce(args[1][0], args[1][1], ty[2], 'setdefault')}")
                return None
            if m == "pop" and len(args) == 1:
                key = self.coerce(args[0][0], args[0][1], ty[1], "key")
                val = self.fresh_name("p")
                self.pre.append(f"let {val} ← dictGet {cur} {key}")       # KeyError
                setter(f"Assoc.erase {cur} {key}")
                return (val, ty[2]) if want_value else None
            if m == "pop" and len(args) == 2 and kind(args[1][1]) == "None" and not want_value:
                setter(f"Assoc.erase {cur} {self.coerce(args[0][0], args[0][1], ty[1], 'key')}")
                return None
        raise Untranslatable(f"{self.qual}: line {s.lineno}: .{m}(…) on a {show(ty)} with {len(args)} argument(s)")

    def is_value_pop(self, v):
        return isinstance(v, ast.Call) and isinstance(v.func, ast.Attribute) and v.func.attr == "pop" and not v.keywords \
            and path_root(v.func.value) is not None and self.resolve_callee(v) is None

    def assign(self, s, t, blk):
        v = s.value
        # right-hand sides that change state: a translated effectful call, `<path>.pop(…)`
        text = ty = None
        callee = self.resolve_callee(v) if isinstance(v, ast.Call) else None
        if callee is not None and callee[0].effectful():
            text = self.effect_call(blk, s, v, callee[0], callee[1])
            ty = callee[0].ret
            if text is None:
                raise Untranslatable(f"{self.qual}: value of {callee[0].qual}, which returns nothing")
        elif self.is_value_pop(v):
            text, ty = self.container_method(blk, s, v, want_value=True)
        if isinstance(t, ast.Name):
            if text is None:
                text, ty = self.expr(v)
            self.assign_var(blk, t.id, text, ty)
            return
        if isinstance(t, ast.Tuple) and all(isinstance(e, ast.Name) for e in t.elts):
            if text is None:
                text, ty = self.expr(v)
            ty = prune(ty)
            if kind(ty) != "Tuple" or len(ty) - 1 != len(t.elts):
                raise Untranslatable(f"{self.qual}: unpacking a {show(ty)} into {len(t.elts)} names")
            if not (text.isidentifier() or text.endswith("_")):
                tmp = self.fresh_name("t")
                self.pre.append(f"let {tmp} : {lean_ty(ty, 'unpacking')} := {text}")
                text = tmp
            for i, e in enumerate(t.elts):
                self.assign_var(blk, e.id, proj(text, len(t.elts), i), ty[1 + i])
            return
        if text is not None:
            raise Untranslatable(f"{self.qual}: line {s.lineno}: state-changing right-hand side with target {ast.unparse(t)}")
        if isinstance(t, ast.Attribute):
            if t.attr == "_messages":
                text, ty = self.expr(v)
                text = self.bind_if_monadic(self.coerce(text, ty, TList(REF), "_messages"))
                _, _, setter = self.in_place(blk, s, t)
                setter(text)
                return
            if t.attr in FIELD:
                text, ty = self.expr(v)
                self.store_field(blk, t, text, ty)
                return
            raise Untranslatable(f"{self.qual}: store to {ast.unparse(t)}")
        if isinstance(t, ast.Subscript) and not isinstance(t.slice, ast.Slice):
            text, ty = self.expr(v)
            text = self.bind_if_monadic(text)
            cur, cty, setter = self.in_place(blk, s, t.value)
            k, tk = self.expr(t.slice)
            if kind(cty) == "Dict":
                val = self.coerce(text, ty, cty[2], "dict store")
                key = self.coerce(k, tk, cty[1], "key")
                setter(f"Assoc.set {cur} {key} {val}", (key,))
                return
            if kind(cty) == "List":
                val = self.coerce(text, ty, norm(cty)[1], "list store")
                idx = self.coerce(k, tk, INT, "index")
                setter(f"(← pySet {cur} {idx} {val})", (idx,))
                return
            raise Untranslatable(f"{self.qual}: store into a {show(cty)}")
        raise Untranslatable(f"{self.qual}: assignment target {ast.unparse(t)}")

    def aug_assign(self, s, blk):
        sym = self.AUG.get(type(s.op))
        if sym is None:
            raise Untranslatable(f"{self.qual}: augmented operator {type(s.op).__name__}")
        text, ty = self.expr(s.value)
        t = s.target
        if isinstance(t, ast.Name):
            if t.id not in self.vars or t.id in self.narrowed:
                raise Untranslatable(f"{self.qual}: {t.id} {sym}= …")
            vt = self.vars[t.id]
            if kind(vt) == "List" and sym == "+":
                cur, cty, setter = self.in_place(blk, s, t)           # list += list extends in place
                setter(f"{cur} ++ {self.coerce(text, ty, cty, '+=')}")
                return
            if prune(vt) != INT:
                raise Untranslatable(f"{self.qual}: {t.id} {sym}= … on a {show(vt)}")
            self.ref(t.id)
            self.assign_var(blk, t.id, f"({self.lean_var(t.id)} {sym} {self.coerce(text, ty, INT, 'operand')})", INT)
            return
        if isinstance(t, ast.Attribute) and t.attr in FIELD:
            self.store_field(blk, t, text, ty, aug=sym)
            return
        if isinstance(t, ast.Subscript) and not isinstance(t.slice, ast.Slice):
            val = self.bind_if_monadic(self.coerce(text, ty, INT, "operand"))
            cur, cty, setter = self.in_place(blk, s, t.value)
            k, tk = self.expr(t.slice)
            if kind(cty) == "List":
                unify(norm(cty)[1], INT, "op= on a list element")
                idx = self.coerce(k, tk, INT, "index")
                setter(f"(← pySet {cur} {idx} ((← pyGet {cur} {idx}) {sym} {val}))", (idx,))
                return
            if kind(cty) == "Dict":
                unify(cty[2], INT, "op= on a dict value")
                key = self.coerce(k, tk, cty[1], "key")
                setter(f"Assoc.set {cur} {key} ((← dictGet {cur} {key}) {sym} {val})", (key,))
                return
        raise Untranslatable(f"{self.qual}: augmented target {ast.unparse(t)}")

    def stores_to(self, body, name):
        for node in body:
            for n in ast.walk(node):
                if isinstance(n, ast.Name) and n.id == name and isinstance(n.ctx, ast.Store):
                    return True
        return False

    def if_stmt(self, s, blk):
        # narrowing:  if x is not None: <body that does not assign x>
        t = s.test
        if isinstance(t, ast.Compare) and len(t.ops) == 1 and isinstance(t.ops[0], ast.IsNot) \
                and isinstance(t.left, ast.Name) and isinstance(t.comparators[0], ast.Constant) \
                and t.comparators[0].value is None and t.left.id in self.vars and t.left.id not in self.narrowed \
                and kind(self.vars[t.left.id]) == "Opt" and not self.stores_to(s.body, t.left.id):
            name = t.left.id
            self.ref(name)
            nv = self.lean_var(name) + "V_"
            self.narrowed[name] = (nv, prune(self.vars[name])[1])
            then = self.branch(s.body)
            del self.narrowed[name]
            els = self.branch(s.orelse) if s.orelse else None
            blk.items.append(("if", f"let some {nv} := {self.lean_var(name)}", then, els))
            return
        c = self.cond(s.test)
        self.flush(blk)
        then = self.branch(s.body)
        els = self.branch(s.orelse) if s.orelse else None
        blk.items.append(("if", c, then, els))

    def mutates_in_place(self, body, v):
        """the body changes the container held by variable `v` in place (not: stores into a message reached through it)"""
        for node in body:
            for n in ast.walk(node):
                if isinstance(n, (ast.Assign, ast.AugAssign)):
                    for t in (n.targets if isinstance(n, ast.Assign) else [n.target]):
                        if isinstance(t, ast.Subscript) and path_root(t) == v:
                            return True
                        if isinstance(n, ast.AugAssign) and isinstance(t, ast.Name) and t.id == v:
                            return True
                if isinstance(n, ast.Call) and isinstance(n.func, ast.Attribute) and n.func.attr in MUTATORS \
                        and path_root(n.func.value) == v:
                    return True
        return False

    def for_stmt(self, s, blk):
        if s.orelse:
            raise Untranslatable(f"{self.qual}: for … else")
        # targets:  v   |   i, v  (enumerate / zip / items)
        if isinstance(s.target, ast.Name):
            tnames = [s.target.id]
        elif isinstance(s.target, ast.Tuple) and all(isinstance(e, ast.Name) for e in s.target.elts):
            tnames = [e.id for e in s.target.elts]
        else:
            raise Untranslatable(f"{self.qual}: loop target {ast.unparse(s.target)}")
        for v in tnames:
            if (v in self.vars and v not in self.loop_vars_done) or v in self.narrowed:
                raise Untranslatable(f"{self.qual}: loop variable {v} shadows a local")
        it_node = s.iter
        it, ety = self.iterable(it_node)
        ety = prune(ety)
        if len(tnames) > 1:
            if kind(ety) != "Tuple" or len(ety) - 1 != len(tnames):
                raise Untranslatable(f"{self.qual}: loop target {ast.unparse(s.target)} over elements of type {show(ety)}")
            tys = list(ety[1:])
        else:
            tys = [ety]
        # what is iterated, for the "changed while iterated" rule
        it_info = None
        is_enum = isinstance(it_node, ast.Call) and isinstance(it_node.func, ast.Name) and it_node.func.id == "enumerate" \
            and len(it_node.args) == 1
        base = it_node.args[0] if is_enum else it_node
        root = path_root(base)
        if root is not None and path_depth(base) == 0 and root in self.vars:
            kroot = kind(self.vars[root])
            if is_enum and kroot == "List":
                it_info = dict(kind="enum", name=root, var=self.lean_var(tnames[0]),
                               len_ok=not self.stores_to(s.body, tnames[0]))
            elif kroot == "Dict":
                it_info = dict(kind="dictkeys", name=root, var=self.lean_var(tnames[0]),
                               len_ok=not self.stores_to(s.body, tnames[0]))
            else:
                it_info = dict(kind="list", name=root, var=None)
        # a container loop variable that is changed in place is an alias of an element of the iterated container
        rebuild = None
        plain_mut = []
        for v, vt in zip(tnames, tys):
            if kind(vt) in ("List", "Dict") and self.mutates_in_place(s.body, v):
                body_names = names_in(s.body)
                r = path_root(it_node)
                if r is not None and len(tnames) == 1 and r not in body_names \
                        and not any(isinstance(x, (ast.Break, ast.Return)) for b in s.body for x in ast.walk(b)):
                    self.check_in_place(s, r, path_depth(it_node) + 2)
                    rebuild = v
                else:
                    src = None
                    for x in ast.walk(it_node):
                        if isinstance(x, ast.Name) and x.id in self.vars and kind(self.vars[x.id]) in ("List", "Dict"):
                            src = x.id
                    end = (s.end_lineno, s.end_col_offset)
                    used_later = src is None or src in body_names or self.loop_nodes or any(
                        isinstance(x, ast.Name) and x.id == src and pos_of(x) >= end for x in ast.walk(self.fn))
                    if used_later:
                        raise Untranslatable(
                            f"{self.qual}: line {s.lineno}: the loop changes its loop variable {v} (an element of the iterated "
                            f"container) in place, but the iterated container is neither a subscript path that can be written "
                            f"back nor dead")
                    self.check_in_place(s, src, 2)
                    plain_mut.append(v)
        for v, vt in zip(tnames, tys):
            self.vars[v] = vt
            self.all_vars.setdefault(v, vt)
            self.loop_vars_done.add(v)
        saved = self.path
        body = self.new_block()
        self.path = body.path
        if it_info is not None:
            self.iterating.append(it_info)
        self.loop_nodes.append(s)
        lvs = [self.lean_var(v) for v in tnames]
        pat_names = [lv + "0_" if (v == rebuild or v in plain_mut) else lv for v, lv in zip(tnames, lvs)]
        pat = pat_names[0] if len(pat_names) == 1 else "(" + ", ".join(pat_names) + ")"
        for v, lv in zip(tnames, lvs):
            if v in plain_mut:
                body.items.append(f"-- `{v}` is changed in place; the iterated container is not used again, so nothing is written back")
                body.items.append(f"let mut {lv} := {lv}0_")
        if rebuild is not None:
            out = self.fresh_name("out")
            lv = self.lean_var(rebuild)
            self.flush(blk)
            blk.items.append(f"-- the loop changes its loop variable `{rebuild}` in place: the iterated list is rebuilt from the edited elements")
            cur, cty, setter = self.lv_open(blk, it_node, s)
            self.flush(blk)
            blk.items.append(f"let mut {out} : {lean_ty(cty, 'rebuilt list')} := []")
            self.loop_kind.append("rebuild")
            self.rebuild_out.append((rebuild, out, lv))
            body.items.append(f"let mut {lv} := {lv}0_")
            self.stmts(s.body, body)
            body.items.append(f"{out} := {out} ++ [{lv}]")
            self.rebuild_out.pop()
            self.loop_kind.pop()
            blk.items.append(("for", pat, cur, body))
            self.path = saved
            if it_info is not None:
                self.iterating.pop()
            self.loop_nodes.pop()
            setter(out)
        else:
            self.flush(blk)
            self.loop_kind.append("for")
            self.stmts(s.body, body)
            self.loop_kind.pop()
            if all(isinstance(x, str) and x.startswith("--") for x in body.items):
                body.items.append("pure ()")
            blk.items.append(("for", pat, it, body))
            if it_info is not None:
                self.iterating.pop()
            self.loop_nodes.pop()
            self.path = saved
        for v in tnames:
            del self.vars[v]

    def while_stmt(self, s, blk):
        if s.orelse:
            raise Untranslatable(f"{self.qual}: while … else")
        t = s.test
        key = " ".join(ast.unparse(t).split())
        fuel = self.fresh_name("fuel")
        if key in self.opts.get("fuel", {}):
            src = self.opts["fuel"][key]
            ft, fty = self.expr(ast.parse(src, mode="eval").body)
            ft = self.coerce(ft, fty, INT, "fuel")
            self.flush(blk)
            blk.items.append(f"-- while {key}:  fuel (FUEL table of tools/py2lean_abs2.py) = {src}")
            blk.items.append(f"let {fuel} : Nat := Int.toNat ({ft})")
        elif isinstance(t, ast.Compare) and len(t.ops) == 1 and isinstance(t.ops[0], (ast.Lt, ast.LtE, ast.Gt, ast.GtE)):
            a, ta = self.expr(t.left)
            b, tb = self.expr(t.comparators[0])
            a, b = self.coerce(a, ta, INT, "comparison"), self.coerce(b, tb, INT, "comparison")
            dist = f"{b} - {a}" if isinstance(t.ops[0], (ast.Lt, ast.LtE)) else f"{a} - {b}"
            self.flush(blk)
            blk.items.append(f"-- while {key}:  fuel = distance between the two sides at loop entry + 1")
            blk.items.append(f"let {fuel} : Nat := Int.toNat ({dist}) + 1")
        else:
            raise Untranslatable(f"{self.qual}: while test {key} (a single order comparison, or an entry in the FUEL table)")
        saved = self.path
        body = self.new_block()
        self.path = body.path
        c = self.cond(t)
        if self.pre:
            raise Untranslatable(f"{self.qual}: while test with an allocation")
        body.items.append(("if", f"!{c}", self._single("break", body), None))
        self.loop_kind.append("while")
        self.loop_nodes.append(s)
        self.stmts(s.body, body)
        self.loop_nodes.pop()
        self.loop_kind.pop()
        self.path = saved
        blk.items.append(("for", "_", f"List.replicate {fuel} ()", body))
        c2 = self.cond(t)
        blk.items.append(("if", c2, self._single("throw PyErr.fuel", blk), None))

    def _single(self, line, parent):
        b = Block(parent.path + ("s",))
        b.items.append(line)
        return b

    # ---- rendering
    def decide_declarations(self, root):
        """where each local is declared.  A store DECLARES (`let mut`) unless an earlier declaring store of the same name
        dominates it (lies in the same or an enclosing block, earlier in program order).  If every other use is dominated by
        a declaring store, that is all; otherwise the value may be carried over (from a sibling branch, or from one loop
        iteration to the next) and the variable is declared once at the top of the function with a default value
        (Python: UnboundLocalError where the default would be read)."""
        hoist = []
        pnames = {p for p, _ in self.params}
        assigns = {}

        def collect(b):
            for it in b.items:
                if isinstance(it, AssignItem):
                    assigns.setdefault(it.var, {})[it.seq] = (it, b)
                if isinstance(it, tuple):
                    for x in it:
                        if isinstance(x, Block):
                            collect(x)
        collect(root)

        def dominates(dpath, dseq, path, seq):
            return dseq < seq and path[:len(dpath)] == dpath

        for name, rs in self.refs.items():
            if name in pnames or name not in assigns:
                continue
            if name in self.loop_vars_done:
                raise Untranslatable(f"{self.qual}: {name} is both a loop variable and an assigned local")
            decls = []
            ok = True
            for q, path, store in sorted(rs, key=lambda r: r[0]):
                dom = any(dominates(dp, dq, path, q) for dp, dq in decls)
                if q in assigns[name]:
                    if not dom:
                        decls.append((assigns[name][q][1].path, q))
                elif not dom:
                    ok = False
            if ok:
                for dp, dq in decls:
                    assigns[name][dq][0].declares = True
            else:
                hoist.append(name)
        return hoist

    def render(self, blk, ind, out):
        for it in blk.items:
            if isinstance(it, str):
                out.append(ind + it)
            elif isinstance(it, AssignItem):
                v = self.lean_var(it.var)
                if it.declares:
                    out.append(f"{ind}let mut {v} : {lean_ty(self.all_vars[it.var], it.var)} := {it.text}")
                else:
                    out.append(f"{ind}{v} := {it.text}")
            elif it[0] == "if":
                _, c, then, els = it
                out.append(f"{ind}if {c} then")
                self.render(then, ind + "  ", out)
                if els is not None:
                    out.append(f"{ind}else")
                    self.render(els, ind + "  ", out)
            elif it[0] == "for":
                _, v, e, body = it
                out.append(f"{ind}for {v} in {e} do")
                self.render(body, ind + "  ", out)
            elif it[0] == "return":
                out.append(ind + "return " + self.return_value(it[1]))
            else:
                raise AssertionError(it)

    def return_value(self, val):
        comps = []
        if self.sig.writes_heap:
            comps.append("heap")
        comps += [self.lean_var(m) for m in self.sig.mutated]
        if val is not None:
            text, ty = val
            comps.append(self.coerce(text, ty, self.sig.ret, "return value"))
        elif prune(self.sig.ret) != UNIT:
            raise Untranslatable(f"{self.qual}: returns both a value and nothing")
        if not comps:
            return "()"
        return comps[0] if len(comps) == 1 else "(" + ", ".join(comps) + ")"

    def default_text(self, d, ty):
        """Lean text of a parameter default (None, True/False, an int, a settings constant)"""
        if isinstance(d, ast.Constant) and d.value is None:
            return "none" if kind(ty) == "Opt" else "pyNone"
        if isinstance(d, ast.Constant) and isinstance(d.value, bool):
            return "true" if d.value else "false"
        if isinstance(d, ast.Constant) and isinstance(d.value, int):
            return f"({d.value})" if d.value < 0 else str(d.value)
        if isinstance(d, ast.Name) and d.id in SETTINGS:
            return SETTINGS[d.id]
        raise Untranslatable(f"{self.qual}: parameter default {ast.unparse(d)}")

    def param_type(self, arg, default):
        over = self.opts.get("param_types", {}).get(arg.arg)
        if over is not None:
            return parse_ty(over)
        ann = ast.unparse(arg.annotation) if arg.annotation is not None else None
        is_none = isinstance(default, ast.Constant) and default.value is None
        if ann is None:
            if default is None or is_none:
                base = INT
            elif isinstance(default, ast.Constant) and isinstance(default.value, bool):
                return BOOL
            elif isinstance(default, ast.Constant) and isinstance(default.value, int):
                return INT
            elif isinstance(default, ast.Name) and default.id in SETTINGS:
                return INT
            else:
                raise Untranslatable(f"{self.qual}: parameter {arg.arg} without annotation")
        elif ann in ANNOT:
            base = ANNOT[ann]
        else:
            raise Untranslatable(f"{self.qual}: parameter annotation {ann!r}")
        if is_none and kind(base) != "Int":
            return TOpt(base)
        if is_none:
            raise Untranslatable(f"{self.qual}: int parameter {arg.arg} with default None")
        return base

    def translate(self):
        fn = self.fn
        if fn.args.vararg or fn.args.kwarg or fn.args.kwonlyargs or fn.args.posonlyargs or fn.decorator_list:
            raise Untranslatable(f"{self.qual}: parameter kinds / decorators")
        args = fn.args.args
        defaults = [None] * (len(args) - len(fn.args.defaults)) + list(fn.args.defaults)
        sig_params = []
        recv = None
        for a, d in zip(args, defaults):
            if a.arg == "self":
                if self.cls != "AbsoluteSequence":
                    raise Untranslatable(f"{self.qual}: self of an unmodelled class")
                self.vars["self"] = SEQ
                self.params.append(("self", SEQ))
                recv = "self"
                continue
            ty = self.param_type(a, d)
            self.vars[a.arg] = ty
            self.params.append((a.arg, ty))
            sig_params.append((a.arg, ty, self.default_text(d, ty) if d is not None else None))
        if self.cls is None and self.params and kind(self.params[0][1]) == "List" and prune(self.params[0][1]) != SEQ \
                and ast.unparse(args[0].annotation or ast.Constant(None)) == "list":
            # a module-level function whose first parameter is a plain list of messages may change it (binary_insort)
            self.vars[self.params[0][0]] = SEQ
            self.params[0] = (self.params[0][0], SEQ)
            sig_params[0] = (sig_params[0][0], SEQ, sig_params[0][2])
        self.reassigned = set()
        # locals that are assigned None / infinity somewhere
        self.nullable, self.infinite = set(), set()
        for n in ast.walk(fn):
            if isinstance(n, ast.Assign) and len(n.targets) == 1 and isinstance(n.targets[0], ast.Name):
                v = n.value
                if isinstance(v, ast.Constant) and v.value is None:
                    self.nullable.add(n.targets[0].id)
                if (isinstance(v, ast.Attribute) and ast.unparse(v) == "math.inf") or \
                        (isinstance(v, ast.Call) and ast.unparse(v) in ("float('inf')", 'float("inf")')):
                    self.infinite.add(n.targets[0].id)
        self.analyse_sharing()
        root = Block(())
        self.path = ()
        self.stmts(fn.body, root)
        for name in self.mutated:
            if name not in [p for p, _ in self.params]:
                raise AssertionError(name)
        mutated = [p for p, t in self.params if p in self.mutated]
        rts = [t for t in self.ret_types if kind(t) != "Unit"]
        if rts and len(rts) != len(self.ret_types):
            raise Untranslatable(f"{self.qual}: returns both a value and nothing")
        ret = UNIT
        if rts:
            ret = rts[0]
            for t in rts[1:]:
                ret = self.join(ret, t, "return types")
            ret = norm(ret)
        lean = LEAN_NAME.get((self.cls, self.fn_name), camel(self.fn_name))
        self.sig = Sig(lean, sig_params, self.uses_heap, self.writes_heap, mutated, ret, self.qual, recv)
        last = [x for x in fn.body if not (isinstance(x, ast.Expr) and isinstance(x.value, ast.Constant))][-1]
        if not isinstance(last, (ast.Return, ast.Raise)):
            if prune(ret) != UNIT:
                raise Untranslatable(f"{self.qual}: may fall off the end although it returns a {show(ret)}")
            root.items.append(("return", None))
        hoist = self.decide_declarations(root)
        comps = (["Heap"] if self.writes_heap else []) + ["List Nat" for _ in mutated] + \
                ([lean_ty(ret, "return type")] if prune(ret) != UNIT else [])
        rty = " × ".join(paren(c) for c in comps) if comps else "Unit"
        head = f"def {lean} " + ("(heap : Heap) " if self.uses_heap else "") + \
               " ".join(f"({self.lean_var(p)} : {lean_ty(t, p)})" for p, t in self.params) + f" : Except PyErr ({rty}) := do"
        what = []
        if self.writes_heap:
            what.append("the new heap")
        what += [f"the new `{m}`" for m in mutated]
        if prune(ret) != UNIT:
            what.append("the return value")
        out = [f"/-- `{self.qual}` ({self.rel}:{fn.lineno}-{fn.end_lineno}); returns " + (", ".join(what) if what else "nothing") + " -/",
               head]
        if self.writes_heap:
            out.append("  let mut heap := heap")
        for p, _ in self.params:
            if p in self.mutated or p in self.reassigned:
                out.append(f"  let mut {self.lean_var(p)} := {self.lean_var(p)}")
        for name in hoist:
            ty = self.all_vars[name]
            out.append(f"  let mut {self.lean_var(name)} : {lean_ty(ty, name)} := {lean_default(ty)}")
        self.render(root, "  ", out)
        return "\n".join(out) + "\n"


def check_facts():
    """facts about `Message` the translation relies on, read off the AST"""
    P.check_message_class()
    tree = module_ast("scoda/elements/message.py")
    cls = [c for c in tree.body if isinstance(c, ast.ClassDef) and c.name == "Message"][0]
    for f in cls.body:
        if isinstance(f, ast.FunctionDef) and f.name in ("__eq__", "__hash__", "__lt__", "__setattr__", "__getattr__", "__getattribute__"):
            raise Untranslatable(f"Message defines {f.name}: identity comparison / plain attribute access no longer holds")
    if [ast.unparse(b) for b in cls.bases]:
        raise Untranslatable("Message has a base class")


def gen_abs2_fns():
    P._AST_CACHE.clear()
    check_facts()
    reg = Registry()
    for rel, cls, fn, opts in SPECS:
        reg.get(cls, fn)
    L = []
    L.append("/- GENERATED by tools/py2lean_abs2.py (through tools/gen_lean.py) from /repo — do not edit.")
    L.append("   Statement-by-statement translation of the dict-heavy / aliasing methods of scoda/sequences/absolute_sequence.py")
    L.append("   and of util.find_minimal_distance / binary_insort into `do` blocks over `Except PyErr`.")
    L.append("   `Message` objects live in a heap (`List Msg`), a reference is a position; containers are values;")
    L.append("   conventions and the checks that make them sound: docstring of tools/py2lean_abs2.py.")
    L.append("   Tied to the hand models by lean/SCoda/Props/AbsTie2.lean.")
    L.append("")
    L.append("   LINK TABLE — callees that are not translated but mapped to a Lean definition (assumptions):")
    for key in sorted(LINKS):
        used = "used" if key in reg.links_used else "unused"
        L.append(f"     {key[0]}.{key[1]} ↦ {LINKS[key]['lean']}   [{used}]  {LINKS[key]['why']}")
    L.append("   FUEL TABLE — `while` loops without a syntactic measure:")
    for rel, cls, fn, opts in SPECS:
        for k, v in opts.get("fuel", {}).items():
            L.append(f"     {cls}.{fn}: while {k}: {v}")
    L.append("-/")
    L.append("import SCoda.Model.Sort")
    L.append("import SCoda.Model.Assoc")
    L.append("import SCoda.Gen.Settings")
    L.append("set_option linter.unusedVariables false")
    L.append("namespace SCoda.Gen.Abs2")
    L.append(PRELUDE)
    L.append("/-- the translated functions, in dependency order: (Python name, Lean name) -/")
    L.append("def translated : List (String × String) := [" + ", ".join(
        f'("{reg.done[k][0].qual}", "{reg.done[k][0].lean}")' for k in reg.order) + "]")
    L.append("")
    for key in reg.order:
        L.append(reg.done[key][1])
    L.append("end SCoda.Gen.Abs2")
    return "\n".join(L) + "\n"


if __name__ == "__main__":
    print(gen_abs2_fns())
