#!/bin/bash
# usage (from a snapshot of /verif): vp run --with-repo -- tools/run_seeded_here.sh [tier]
# applies every kept seeded change in turn to the SNAPSHOT of /repo ($VP_RUN_REPO), runs the check of its property against it, undoes it.
# Prints one line per change: reported with a concrete input / only as a broken obligation / NOT reported.
tier=${1:-quick}
export SCODA_REPO=${VP_RUN_REPO:?needs --with-repo}
/venv/bin/python tools/gen_lean.py > /dev/null
(cd lean && lake build SCoda driver heapdriver 2>&1 | tail -1)
miss=0
for d in seeded/*/; do
  id=$(basename $d)
  prop=$(python3 -c "import json;print(json.load(open('$d/meta.json'))['property'])")
  git -C $SCODA_REPO apply $(pwd)/${d}patch.diff 2>/dev/null || { echo "$id: patch does not apply"; continue; }
  out=$(./check $prop --tier $tier 2>&1 | grep -E "^VIOLATION" | head -1)
  git -C $SCODA_REPO checkout -- .
  if [ -z "$out" ]; then echo "$id $prop NOT-REPORTED"; miss=$((miss+1));
  elif echo "$out" | grep -q no-failing-input-found; then echo "$id $prop obligation-only";
  else echo "$id $prop concrete"; fi
done
echo "done, not reported: $miss"
