#!/bin/bash
# Re-run every quick check on the unchanged /repo so that the evidence files in the work tree come from clean runs.
cd /verif
test -z "$(git -C /repo status --porcelain)" || { echo "/repo has uncommitted changes — refusing"; exit 2; }
fail=0
for p in C01 C02 C03 C04 C05 C06 C07 C08 C09 C10 C11 C12 C13 C14 C15 C16 C17 C18 C19 C20; do
  out=$(VERIF_SEED=${VERIF_SEED:-0} ./check $p --tier ${1:-quick} 2>&1); rc=$?
  lvl=$(python3 -c "import json;e=json.load(open('evidence/$p.json'));c=e['coverage'];print(e['level'],str(c['discharged'])+'/'+str(c['obligations']),e['wall_s'])")
  echo "$p rc=$rc $lvl $(echo "$out" | grep -c KNOWN-FINDING) known"
  [ $rc -ne 0 ] && { fail=1; echo "$out" | tail -3; }
done
exit $fail
