#!/venv/bin/python
"""recheck_seeded.py <seeded id> [<check> ...] — re-run the checks against a kept seeded change after the machinery was strengthened; records the
outcome under "detected_by_after_strengthening" in its meta.json and stores shrunk oracle inputs in corpus/."""
import hashlib
import json
import os
import re
import subprocess
import sys

sid = sys.argv[1]
V = "/verif"
dst = f"{V}/seeded/{sid}"
meta = json.load(open(f"{dst}/meta.json"))
checks = sys.argv[2:] or [meta["property"]]
MUT = os.environ.get("MUTREPO", "/root/work/mutrepo")      # a scratch worktree of /repo: /repo itself is never patched
if not os.path.isdir(MUT):
    subprocess.run(["git", "-C", "/repo", "worktree", "add", "-q", "--detach", MUT, "HEAD"], check=True)
subprocess.run(["git", "-C", MUT, "checkout", "-q", "--detach", subprocess.run(["git", "-C", "/repo", "rev-parse", "HEAD"], capture_output=True, text=True).stdout.strip()], check=True)
subprocess.run(["git", "-C", MUT, "checkout", "--", "."], check=True)
ENV = dict(os.environ, SCODA_REPO=MUT)
subprocess.run(["git", "-C", MUT, "apply", f"{dst}/patch.diff"], check=True)
res = []
try:
    for c in checks:
        out = subprocess.run([f"{V}/check", c], cwd=V, capture_output=True, text=True, env=ENV).stdout
        m = re.search(r"^VIOLATION property=(\S+) replay=(\S+)(.*)$", out, flags=re.M)
        if not m:
            res.append({"check": f"./check {c}", "result": "not reported"})
            continue
        concrete = "no-failing-input-found" not in m.group(3)
        res.append({"check": f"./check {c}", "result": "VIOLATION with a concrete shrunk input" if concrete else "VIOLATION no-failing-input-found"})
        if concrete:
            rec = json.load(open(m.group(2)))
            if rec.get("kind") == "oracle":
                entry = {"oracle": rec["oracle"], "input": rec["input"], "from": sid}
                h = hashlib.sha256(json.dumps(entry["input"], sort_keys=True).encode()).hexdigest()[:12]
                os.makedirs(f"{V}/corpus/{c}", exist_ok=True)
                json.dump(entry, open(f"{V}/corpus/{c}/{h}.json", "w"), indent=1)
finally:
    subprocess.run(["git", "-C", MUT, "checkout", "--", "."], check=True)
    subprocess.run(["/venv/bin/python", f"{V}/tools/gen_lean.py"], capture_output=True)      # Gen/*.lean back to /repo's source
meta["detected_by_after_strengthening"] = res
json.dump(meta, open(f"{dst}/meta.json", "w"), indent=1)
print(sid, [(r["check"], r["result"][:34]) for r in res])
