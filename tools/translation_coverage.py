#!/venv/bin/python
"""translation_coverage.py — which functions of /repo/scoda are inside the machine-checked tie, and how.

Walks the AST of every module of the package and classifies every function / method:

  translated   re-translated statement by statement on every run (name found in a `translated` list of a generated file under
               lean/SCoda/Gen, i.e. the translator that ran just now emitted it) and proved equal to its hand model in the tie file
  checked      its AST is checked against a pinned shape by the translators on every run (conventions: constructors that store their
               parameters, `copy`, ...), or its *values* are dumped into a generated table that theorems quantify over
  modelled     hand-written Lean model, tied to the code by the sampled correspondence only
  outside      not modelled: printing, logging, file-system glue, plotting; no property depends on it

The hand-maintained part is the table HAND below (modelled / outside / checked); everything else is read off the generated files, so a
function that stops being translated drops out of `translated` by itself.  Writes docs/translation_coverage.md and prints a JSON summary.
"""
import ast
import json
import os
import re
import sys

sys.path.insert(0, os.path.dirname(os.path.abspath(__file__)))
from conventions import LINKED  # noqa: E402

REPO = os.environ.get("SCODA_REPO", "/repo")
VERIF = os.path.dirname(os.path.dirname(os.path.abspath(__file__)))
GEN = os.path.join(VERIF, "lean", "SCoda", "Gen")

# class of the unqualified names in Gen/WrapFns.lean and Gen/TokFns.lean
UNQUALIFIED = {"WrapFns.lean": "Sequence", "TokFns.lean": "MultiTrackLargeVocabularyNotelikeTokeniser"}
TIE = {"WrapFns.lean": "Props/WrapTie.lean", "ViewFns.lean": "Props/ViewTie.lean", "ElemFns.lean": "Props/ElemTie.lean",
       "RelFns2.lean": "Props/RelTie2.lean", "StaticFns.lean": "Props/StaticTie.lean", "TokFns.lean": "Props/TokTie.lean",
       "AbsFns2.lean": "Props/AbsTie2.lean", "UtilFns.lean": "Props/UtilTie.lean", "TheoryFns.lean": "Props/C20.lean", "SortFns.lean": "Props/SortTie.lean", "HeapFns.lean": "Props/HeapTie.lean",
       "HeapFns2.lean": "Props/HeapTie2.lean", "HeapFns3.lean": "Props/HeapTie3.lean"}

# hand-maintained classification of what is NOT translated (qualified name -> (class, note))
HAND = {
    "Message.__init__": ("checked", "AST check: stores every parameter in the field of its name (py2lean.check_message_class)"),
    "Message.copy": ("checked", "AST check: hands every field to the constructor"),
    "MidiMessage.__init__": ("checked", "AST check: stores every parameter in the field of its name"),
    "MidiTrack.__init__": ("checked", "AST check: starts with an empty message list"),
    "AbstractSequence.__init__": ("checked", "pinned body (py2lean_wrap.PINNED)"),
    "AbstractSequence.copy": ("checked", "pinned body (py2lean_wrap.PINNED)"),
    "AbsoluteSequence.__init__": ("checked", "pinned body"),
    "RelativeSequence.__init__": ("checked", "pinned body"),
    "MessageType.__lt__": ("checked", "order of the members dumped and pinned by WrapTie.message_type_order"),
    "RelativeSequence.get_key_signature_guess": ("outside", "key guessing heuristic; no property depends on it"),
    "RelativeSequence.get_sequence_duration_relation": ("outside", "duration as a float multiple of PPQN; no property depends on it"),
    "Sequence.get_sequence_duration_relation": ("outside", "wrapper of the above"),
    "Sequence.plot_pianorolls": ("outside", "plotting"),
    "Sequence._fill_dictionary_entry": ("outside", "helper of plot_pianorolls"),
    "Message.__repr__": ("outside", "printing"),
    "Message.from_dict": ("outside", "constructor from a dict; no property depends on it"),
    "MidiMessage.__str__": ("outside", "printing"),
    "ReadOnlyMessage": ("outside", "read-only proxy class; no property depends on it"),
}
OUTSIDE_FILES = {"scoda/misc/scoda_logging.py": "logging", "scoda/misc/decorators.py": "deprecation decorator", "scoda/settings/settings.py": "settings loader: its VALUES are dumped into Gen/Settings.lean on every run"}


def gen_translated():
    """qualified python name -> generated file"""
    out = {}
    for fn in sorted(os.listdir(GEN)):
        if not fn.endswith(".lean"):
            continue
        text = open(os.path.join(GEN, fn)).read()
        m = re.search(r"^def translated : List ([^\n]*?) := \[(.*?)\]\s*$", text, flags=re.M | re.S)
        if not m:
            continue
        if m.group(1).strip() == "String":
            names = re.findall(r'"([^"]*)"', m.group(2))
        else:                                   # tuples: the first component is the Python name
            names = re.findall(r'\("([^"]*)"', m.group(2))
        for name in names:
            q = name if "." in name or fn not in UNQUALIFIED else f"{UNQUALIFIED[fn]}.{name}"
            out.setdefault(q, fn)
    # the music theory module is translated by gen_lean.py itself (Gen/TheoryFns.lean)
    th = os.path.join(GEN, "TheoryFns.lean")
    if os.path.exists(th):
        text = open(th).read()
        owner = {"transpose_key": "Key", "get_position": "CircleOfFifths", "get_distance": "CircleOfFifths", "from_distance": "CircleOfFifths"}
        for py in re.findall(r"/-- translation of `([a-z_]+)` -/", text):
            out.setdefault(f"{owner.get(py, '?')}.{py}", "TheoryFns.lean")
    return out


def functions():
    res = []
    for root, _, files in os.walk(os.path.join(REPO, "scoda")):
        for f in sorted(files):
            if not f.endswith(".py"):
                continue
            path = os.path.join(root, f)
            rel = os.path.relpath(path, REPO)
            tree = ast.parse(open(path).read())
            for node in tree.body:
                if isinstance(node, (ast.FunctionDef, ast.AsyncFunctionDef)):
                    res.append((rel, node.name, node.lineno, node.end_lineno))
                if isinstance(node, ast.ClassDef):
                    for sub in node.body:
                        if isinstance(sub, (ast.FunctionDef, ast.AsyncFunctionDef)):
                            res.append((rel, f"{node.name}.{sub.name}", sub.lineno, sub.end_lineno))
    return res


def main():
    tr = gen_translated()
    rows = []
    for rel, q, lo, hi in functions():
        cls = q.split(".")[0]
        if q in tr:
            kind, note = "translated", f"Gen/{tr[q]} = hand model ({TIE.get(tr[q], '?')})"
        elif q.split(".")[-1] in tr and "." not in q:
            kind, note = "translated", f"Gen/{tr[q.split('.')[-1]]}"
        elif q in HAND:
            kind, note = HAND[q]
        elif cls in HAND:
            kind, note = HAND[cls]
        elif (q.split(".")[-1].startswith("__") and q.split(".")[-1].endswith("__")) or q.split(".")[-1] == "copy" \
                or (cls, q.split(".")[-1]) in LINKED:
            kind, note = "checked", "body fingerprinted against the recorded baseline on every run (tools/conventions.py)"
        elif rel in OUTSIDE_FILES:
            kind, note = "outside", OUTSIDE_FILES[rel]
        else:
            kind, note = "modelled", "hand model, sampled correspondence only"
        rows.append({"file": rel, "function": q, "lines": hi - lo + 1, "kind": kind, "note": note})
    tot = {}
    for r in rows:
        t = tot.setdefault(r["kind"], [0, 0])
        t[0] += 1
        t[1] += r["lines"]
    md = ["# Which functions of /repo/scoda are inside the tie (regenerated by tools/translation_coverage.py)", "",
          "| kind | functions | source lines |", "|---|---|---|"]
    for k in ("translated", "checked", "modelled", "outside"):
        if k in tot:
            md.append(f"| {k} | {tot[k][0]} | {tot[k][1]} |")
    md += ["", "| file | function | lines | kind | how |", "|---|---|---|---|---|"]
    for r in rows:
        md.append(f"| {r['file']} | `{r['function']}` | {r['lines']} | {r['kind']} | {r['note']} |")
    os.makedirs(os.path.join(VERIF, "docs"), exist_ok=True)
    with open(os.path.join(VERIF, "docs", "translation_coverage.md"), "w") as f:
        f.write("\n".join(md) + "\n")
    print(json.dumps({"totals": {k: {"functions": v[0], "lines": v[1]} for k, v in tot.items()},
                      "modelled_only": [r["function"] for r in rows if r["kind"] == "modelled"]}, indent=1))


if __name__ == "__main__":
    sys.exit(main())
