"""Identity translator, part 2: `RelativeSequence.split` ITSELF (relative_sequence.py:199-288) and, on top of it, `Sequence.split`
with no link left, translated statement by statement with respect to OBJECT IDENTITY *and* VALUE into
`lean/SCoda/Gen/HeapFns2.lean` (namespace `SCoda.Gen.HeapFns2`), over the cell heap of `Model/HeapOps.lean`.  Extends
`tools/py2lean_heap.py` (read its docstring first: cells, `HM`, stores, allocation order, list values and their ownership rules);
the functions already in `Gen/HeapFns.lean` are re-used from there, only the functions that are new or change are emitted.

What is new here
  * NO ORACLE in `RelativeSequence.split`: the method only does integer arithmetic on `capacity` / `msg.time` and compares message
    types, so every decision is translated EXACTLY: integer locals (`remaining_capacity`, `carry_time`) are `Int`s, `a - b`, `a -= b`,
    `<`/`<=`/`>`/`>=`/`==`/`!=` on integers are Lean's, `capacities` is a `List Int` argument (in `py2lean_heap.py` it stood behind the
    oracle tag).  Python `None` in an integer field is `pyNone = -1` (Model/Msg.lean): a WAIT whose `time` is `None` makes Python
    raise `TypeError` at `msg.time <= remaining_capacity`; the translation compares −1.  (Value level; identity statements do not
    depend on it.)
  * every `Message(...)` allocates a cell and runs the translated `Message.__init__` on it; `RelativeSequence()` allocates a view cell;
    `working_memory = copy.copy(self._messages)` is a fresh LIST VALUE of the same message references (the receiver's cell is only
    read); `open_messages` maps `(channel, note)` to a REFERENCE; `.append` / `add_message` store references.
  * `while cond:` is a `for` over `List.range <fuel>` with `if !cond then break` first and a flag that records a regular exit; when the
    fuel runs out the function raises `HErr.fuel`.  The bound is given per loop in WHILE_FUEL (keyed by the source text of the
    condition, so an edited condition is refused) and PROVED sufficient in Props/HeapTie2.lean (`relativeSequenceSplit_no_fuel`).
  * `break` (of a `for`: Lean's `break`; of a `while`: flag := true, then `break`).
  * local lists: `x.pop(0)` (`HM.index x 0`, then `x := x.drop 1`; `IndexError` on an empty list), `x[0:0] = y` (`x := y ++ x`: the
    REFERENCES of `y` are put in front; both must be lists this function owns).
  * dicts are insertion-ordered association lists (`HeapLib2.dictSet` / `dictDel`: `d[k] = v` keeps the position of an existing key,
    `d.pop(k, None)` removes the key if present), keys are tuples of integers, values are references; `for k, v in d.items()`.
  * `X.attr -= e` on a message field: a STORE into the message cell (the source has none in `split`; a mutant that writes the popped
    message — seeded/C16_agent7 — is translated, and then the frame theorem of HeapTie2 fails).
Everything else is refused (`Untranslatable`) exactly as in `py2lean_heap.py`; in particular `working_memory = self._messages`
("gives the list object … a second name") — a local that aliases an attribute list cannot be a list value.
"""
import ast
import contextlib
import os
import sys

sys.path.insert(0, os.path.dirname(os.path.abspath(__file__)))
import py2lean_heap as H                                   # noqa: E402
from py2lean_heap import Untranslatable, camel, check_decorators, defaults_of   # noqa: E402

# loop bounds: (qualified function, condition text) -> Lean expression over the locals AT LOOP ENTRY
WHILE_FUEL = {
    # every round pops one message from working_memory or leaves the loop; working_memory grows only immediately before a `break`
    ("RelativeSequence.split", "remaining_capacity >= 0"): "(workingMemory_.length + 1)",
}
# dict locals: (qualified function, name) -> (key type, value type)
DICTS = {
    ("RelativeSequence.split", "open_messages"): ("Tup Int Int", "Msg"),
}
# parameter types that differ from py2lean_heap's (there `capacities` is value level)
PARAM2 = {("RelativeSequence", "capacities"): "List Int", ("Sequence", "capacities"): "List Int"}
# links that are TRANSLATED here
UNLINK = [("RelativeSequence", "split")]

NEW_ROOTS = [("RelativeSequence", "split"), ("Sequence", "split")]


@contextlib.contextmanager
def patched_tables():
    """the tables of py2lean_heap with this module's entries, restored afterwards (gen_lean.py runs every generator in one process)"""
    saved_param, saved_links = dict(H.PARAM), dict(H.LINKS)
    try:
        H.PARAM.update(PARAM2)
        for k in UNLINK:
            H.LINKS.pop(k, None)
        yield
    finally:
        H.PARAM.clear()
        H.PARAM.update(saved_param)
        H.LINKS.clear()
        H.LINKS.update(saved_links)


def lean_ty(t):
    if t.startswith("Tup "):
        return " × ".join(lean_ty(x) for x in t[4:].split(" "))
    if t.startswith("Dict "):
        k, v = DICT_OF[t]
        return f"List (({lean_ty(k)}) × {lean_ty(v)})"
    if t.startswith("List "):
        return f"List ({lean_ty(t[5:])})"
    return H.lean_ty(t)


DICT_OF = {}      # "Dict <n>" -> (key type, value type)


class FnTranslator2(H.FnTranslator):
    def __init__(self, reg, cls, fn):
        super().__init__(reg, cls, fn)
        self.loops = []        # stack of ("for", None) / ("while", flag name)
        self.nwhile = 0

    # ---------------------------------------------------------------- exact integers
    def is_int(self, n):
        """n is an integer expression that is translated exactly (no effects besides reads of the current heap)"""
        if isinstance(n, ast.Constant):
            return isinstance(n.value, int) and not isinstance(n.value, bool)
        if isinstance(n, ast.Name):
            return self.types.get(n.id) == "Int"
        if isinstance(n, ast.Attribute) and isinstance(n.value, ast.Name) and self.types.get(n.value.id) == "Msg":
            return n.attr in H.MSG_FIELDS and H.MSG_FIELDS[n.attr][1] == "Int"
        if isinstance(n, ast.BinOp) and isinstance(n.op, (ast.Add, ast.Sub, ast.Mult)):
            return self.is_int(n.left) and self.is_int(n.right)
        if isinstance(n, ast.UnaryOp) and isinstance(n.op, ast.USub):
            return self.is_int(n.operand)
        return False

    def expr(self, n, ind):
        if isinstance(n, ast.BinOp) and self.is_int(n):
            a, _ = self.expr(n.left, ind)
            b, _ = self.expr(n.right, ind)
            sym = {ast.Add: "+", ast.Sub: "-", ast.Mult: "*"}[type(n.op)]
            return f"({a} {sym} {b})", "Int"
        if isinstance(n, ast.UnaryOp) and isinstance(n.op, ast.USub) and self.is_int(n):
            a, _ = self.expr(n.operand, ind)
            return f"(-{a})", "Int"
        if isinstance(n, ast.Compare) and len(n.ops) == 1 and self.is_int(n.left) and self.is_int(n.comparators[0]):
            sym = {ast.Gt: ">", ast.GtE: "≥", ast.Lt: "<", ast.LtE: "≤", ast.Eq: "=", ast.NotEq: "≠"}.get(type(n.ops[0]))
            if sym is None:
                raise Untranslatable(f"{self.qual}: comparison {ast.unparse(n)}")
            a, _ = self.expr(n.left, ind)
            b, _ = self.expr(n.comparators[0], ind)
            return f"(decide ({a} {sym} {b}))", "Bool"
        if isinstance(n, ast.Tuple) and n.elts and all(self.is_int(x) for x in n.elts):
            vs = [self.expr(x, ind)[0] for x in n.elts]
            return "(" + ", ".join(vs) + ")", "Tup " + " ".join("Int" for _ in vs)
        if isinstance(n, ast.Call) and isinstance(n.func, ast.Name) and n.func.id == "dict" and not n.args and not n.keywords:
            return "[]", "Dict ?"
        if isinstance(n, ast.Call) and isinstance(n.func, ast.Attribute) and n.func.attr == "pop" \
                and isinstance(n.func.value, ast.Name) and self.types.get(n.func.value.id, "").startswith("List "):
            return self.list_pop(n, ind)
        return super().expr(n, ind)

    def list_pop(self, n, ind):
        nm = n.func.value.id
        if nm not in self.fresh_lists:
            raise Untranslatable(f"{self.qual}: {ast.unparse(n)} mutates a list that this function does not own")
        if len(n.args) != 1 or not (isinstance(n.args[0], ast.Constant) and n.args[0].value == 0) or n.keywords:
            raise Untranslatable(f"{self.qual}: {ast.unparse(n)} (only pop(0))")
        v = self.lname(nm)
        r = self.new()
        self.emit(ind, f"let {r} ← HM.index {v} 0", effect=False)
        self.emit(ind, f"{v} := {v}.drop 1", effect=False)
        return r, self.types[nm][5:]

    # ---------------------------------------------------------------- statements
    def assign_local(self, name, v, t, ind, fresh):
        if t == "Dict ?":
            key = (self.qual, name)
            if key not in DICTS:
                raise Untranslatable(f"{self.qual}: the dict local {name} has no entry in DICTS")
            if name in self.types:
                raise Untranslatable(f"{self.qual}: {name} is assigned a dict twice")
            dt = f"Dict {self.qual}.{name}"
            DICT_OF[dt] = DICTS[key]
            self.types[name] = dt
            self.emit(ind, f"let mut {self.lname(name)} : {lean_ty(dt)} := []", effect=False)
            return
        if t.startswith("Tup ") or t.startswith("Dict "):
            raise Untranslatable(f"{self.qual}: {name} receives a {t}")
        if name in self.types and self.types[name].startswith("Dict "):
            raise Untranslatable(f"{self.qual}: the dict local {name} is re-bound")
        super().assign_local(name, v, t, ind, fresh)

    def stmts(self, body, ind):
        for s in body:
            src = ast.unparse(s).split("\n")[0]
            if isinstance(s, ast.While):
                self.comment(ind, src)
                self.while_stmt(s, ind)
            elif isinstance(s, ast.Break):
                self.comment(ind, src)
                if not self.loops:
                    raise Untranslatable(f"{self.qual}: break outside a loop")
                kind, flag = self.loops[-1]
                if kind == "while":
                    self.emit(ind, f"{flag} := true", effect=False)
                self.emit(ind, "break", effect=False)
            elif isinstance(s, ast.Continue):
                raise Untranslatable(f"{self.qual}: continue")
            elif isinstance(s, ast.AugAssign):
                if not isinstance(s.op, (ast.Add, ast.Sub, ast.Mult)):
                    raise Untranslatable(f"{self.qual}: {src}")
                load = ast.parse(ast.unparse(s.target), mode="eval").body
                new = ast.Assign(targets=[s.target], value=ast.BinOp(left=load, op=s.op, right=s.value))
                ast.copy_location(new, s)
                ast.fix_missing_locations(new)
                if not self.is_int(new.value):
                    raise Untranslatable(f"{self.qual}: `{src}`: not integer arithmetic on exactly translated operands")
                self.comment(ind, src)
                if isinstance(s.target, ast.Name):
                    v, t = self.expr(new.value, ind)
                    self.emit(ind, f"{self.lname(s.target.id)} := {v}", effect=False)
                elif isinstance(s.target, ast.Attribute):
                    self.store(s.target, new.value, ind, src)
                else:
                    raise Untranslatable(f"{self.qual}: {src}")
            elif isinstance(s, ast.Assign) and len(s.targets) == 1 and isinstance(s.targets[0], ast.Subscript):
                self.comment(ind, src)
                self.subscript_store(s, ind, src)
            elif isinstance(s, ast.Expr) and isinstance(s.value, ast.Call) and isinstance(s.value.func, ast.Attribute) \
                    and s.value.func.attr == "pop" and isinstance(s.value.func.value, ast.Name) \
                    and self.types.get(s.value.func.value.id, "").startswith("Dict "):
                self.comment(ind, src)
                c = s.value
                if len(c.args) != 2 or not (isinstance(c.args[1], ast.Constant) and c.args[1].value is None) or c.keywords:
                    raise Untranslatable(f"{self.qual}: {src} (only d.pop(key, None) as a statement)")
                d = self.lname(c.func.value.id)
                k, kt = self.expr(c.args[0], ind)
                if kt != DICT_OF[self.types[c.func.value.id]][0]:
                    raise Untranslatable(f"{self.qual}: {src}: key of type {kt}")
                self.emit(ind, f"{d} := HeapLib2.dictDel {d} {k}", effect=False)
            elif isinstance(s, ast.For) and isinstance(s.target, ast.Tuple):
                self.comment(ind, src)
                self.for_items(s, ind)
            elif isinstance(s, ast.For):
                self.loops.append(("for", None))
                super().stmts([s], ind)
                self.loops.pop()
            else:
                super().stmts([s], ind)

    def subscript_store(self, s, ind, src):
        tgt = s.targets[0]
        if not isinstance(tgt.value, ast.Name) or tgt.value.id not in self.types:
            raise Untranslatable(f"{self.qual}: {src}")
        nm = tgt.value.id
        t = self.types[nm]
        if t.startswith("Dict "):
            kt, vt = DICT_OF[t]
            k, kty = self.expr(tgt.slice, ind)
            v, vty = self.expr(s.value, ind)
            if kty != kt or not H.sub(vty, vt):
                raise Untranslatable(f"{self.qual}: {src}: {kty} -> {vty} stored into a dict {kt} -> {vt}")
            d = self.lname(nm)
            self.emit(ind, f"{d} := HeapLib2.dictSet {d} {k} {v}", effect=False)
            return
        if t.startswith("List ") and isinstance(tgt.slice, ast.Slice) and ast.unparse(tgt.slice) == "0:0":
            if nm not in self.fresh_lists:
                raise Untranslatable(f"{self.qual}: `{src}` mutates a list that this function does not own")
            v, vt = self.expr(s.value, ind)
            if not (isinstance(s.value, ast.Name) and s.value.id in self.fresh_lists):
                raise Untranslatable(f"{self.qual}: `{src}`: the inserted list must be a local list of this function")
            if vt == "List ?":
                vt = t
            if not H.sub(vt, t):
                raise Untranslatable(f"{self.qual}: `{src}`: a {vt} inserted into a {t}")
            x = self.lname(nm)
            self.emit(ind, f"{x} := {v} ++ {x}", effect=False)
            return
        raise Untranslatable(f"{self.qual}: {src}")

    def for_items(self, s, ind):
        it = s.iter
        if s.orelse or not (isinstance(it, ast.Call) and isinstance(it.func, ast.Attribute) and it.func.attr == "items" and not it.args
                            and isinstance(it.func.value, ast.Name) and self.types.get(it.func.value.id, "").startswith("Dict ")) \
                or len(s.target.elts) != 2 or not all(isinstance(e, ast.Name) for e in s.target.elts):
            raise Untranslatable(f"{self.qual}: for loop {ast.unparse(s).splitlines()[0]}")
        dname = it.func.value.id
        kt, vt = DICT_OF[self.types[dname]]
        kn, vn = s.target.elts[0].id, s.target.elts[1].id
        # the loop must not mutate the dict it iterates (Python: RuntimeError)
        for node in ast.walk(s):
            if isinstance(node, ast.Name) and node.id == dname and node is not it.func.value:
                raise Untranslatable(f"{self.qual}: the dict {dname} is used inside the loop over its items")
        self.types[kn], self.types[vn] = kt, vt
        self.emit(ind, f"for ({self.lname(kn)}, {self.lname(vn)}) in {self.lname(dname)} do", effect=False)
        self.heap = None
        self.loops.append(("for", None))
        self.stmts(s.body, ind + "  ")
        self.loops.pop()
        self.heap = None

    def while_stmt(self, s, ind):
        cond_txt = ast.unparse(s.test)
        if s.orelse:
            raise Untranslatable(f"{self.qual}: while … else")
        if (self.qual, cond_txt) not in WHILE_FUEL:
            raise Untranslatable(f"{self.qual}: the loop `while {cond_txt}` has no bound in WHILE_FUEL")
        self.nwhile += 1
        flag = f"whileDone{self.nwhile}_"
        self.emit(ind, f"let mut {flag} : Bool := false", effect=False)
        self.emit(ind, f"for _ in List.range {WHILE_FUEL[(self.qual, cond_txt)]} do", effect=False)
        self.heap = None
        c, t = self.expr(s.test, ind + "  ")
        if t != "Bool":
            raise Untranslatable(f"{self.qual}: loop condition `{cond_txt}` is a {t}")
        self.emit(ind + "  ", f"if !{c} then", effect=False)
        self.emit(ind + "    ", f"{flag} := true", effect=False)
        self.emit(ind + "    ", "break", effect=False)
        self.loops.append(("while", flag))
        self.stmts(s.body, ind + "  ")
        self.loops.pop()
        self.heap = None
        self.emit(ind, f"if !{flag} then", effect=False)
        self.emit(ind + "  ", "HM.fail HErr.fuel", effect=False)
        self.heap = None

    def patch_decl(self, name, lt):
        v = self.lname(name)
        for i, ln in enumerate(self.lines):
            if ln.strip().startswith(f"let mut {v} : List ? :="):
                self.lines[i] = ln.replace("List ?", lean_ty(lt))


class Registry2(H.Registry):
    def get(self, cls, meth):
        key = (cls, meth)
        if key in self.done:
            return self.done[key]
        if key in self.in_progress:
            raise Untranslatable(f"recursive call cycle through {cls}.{meth}")
        self.in_progress.add(key)
        fn = self.methods[cls][meth]
        check_decorators(fn, f"{cls}.{meth}")
        self.defaults += defaults_of(cls, fn)
        tr = FnTranslator2(self, cls, fn)
        text = tr.translate()
        self.in_progress.discard(key)
        self.done[key] = (tr.lean_name, tr.sig, tr.ret_type)
        self.order.append((key, text))
        return self.done[key]


def translate_new(roots, drop=()):
    """the functions reachable from `roots` that Gen/HeapFns.lean does not have (or that change: `drop`), with this module's tables"""
    base = H.Registry()
    base.need_view_class = False
    for cls, meth in H.ROOTS:
        base.get(cls, meth)
    with patched_tables():
        reg = Registry2()
        reg.need_view_class = False
        for k, v in base.done.items():
            if k not in drop:
                reg.done[k] = v
        for cls, meth in roots:
            reg.get(cls, meth)
    return reg


HEADER = [
    "/- GENERATED by tools/py2lean_heap2.py from scoda/sequences/*.py — do not edit.",
    "   `RelativeSequence.split` (and `Sequence.split` on top of it, no link left) translated statement by statement with respect to OBJECT IDENTITY",
    "   and value, over the cell heap of Model/HeapOps.lean (conventions: docstrings of tools/py2lean_heap.py and tools/py2lean_heap2.py;",
    "   support: Model/HeapLib.lean, Model/HeapLib2.lean).  Callees that Gen/HeapFns.lean already has are taken from there. -/",
    "import SCoda.Gen.HeapFns",
    "import SCoda.Model.HeapLib2",
    "set_option linter.unusedVariables false",
    "namespace SCoda.Gen.HeapFns2",
    "open SCoda SCoda.HeapOps SCoda.HeapLib SCoda.Gen.HeapFns",
    "",
]


def gen_heap_fns2():
    reg = translate_new(NEW_ROOTS, drop=[("Sequence", "split")])
    out = []
    for (cls, meth), text in reg.order:
        # a re-translated function gets its own name (Gen.HeapFns is open)
        out.append(text)
    body = "\n".join(out)
    # `Sequence.split` exists in Gen.HeapFns with the linked callee: the one generated here is `sequenceSplit2`
    body = body.replace("def sequenceSplit (", "def sequenceSplit2 (")
    names = "def translated : List String := [" + ", ".join(f'"{c}.{m}"' for (c, m), _ in reg.order) + "]\n"
    names += "\n/-- the loop bounds, as given to the translator -/\n"
    names += "def whileFuel : List (String × String × String) := [" + ", ".join(
        f'("{q}", "{c}", "{f}")' for (q, c), f in WHILE_FUEL.items()) + "]\n"
    return "\n".join(HEADER) + "\n" + body + "\n" + names + "\nend SCoda.Gen.HeapFns2\n"


if __name__ == "__main__":
    print(gen_heap_fns2())
