"""Translator for the `Sequence` wrapper layer (scoda/sequences/sequence.py).

`gen_wrap_fns()` re-reads the *current* source of `Sequence` and emits `lean/SCoda/Gen/WrapFns.lean`
(namespace `SCoda.Gen.Wrap`): one Lean `do` block in `Except Err` per wrapper method, translated
statement by statement.  `Props/WrapTie.lean` then proves that every generated function equals the
hand-written wrapper model `SCoda.Seq.*` (Model/Wrapper.lean) that the C04 / C16 / C18 theorems are
about and that the driver executes — so the stale-flag protocol of the model is re-proved against
what the source says on every run.

What is translated and what is linked:
  * translated: every statement of the listed methods — reads of the `abs` / `rel` properties (the
    property bodies themselves are translated: `getAbs`, `getRel`), stores into `_abs`, `_rel`,
    `_abs_stale`, `_rel_stale`, calls of other wrapper methods (`self.normalise()`, `self.invalidate_abs()`),
    `if`, `raise SequenceException`, `return`, `for … in` over a parameter list, the generator methods
    `messages_abs` / `messages_rel` (try / for / yield / finally, read as "the consumer edits every yielded
    message with `f` and runs the iterator to its end"), list comprehensions over sequence parameters.
  * linked (an assumption per entry, tied by the correspondence check as before): the view-level
    methods the wrapper calls (`self.rel.pad(n)` ↦ `View.rel_pad`, …), defined in the hand-written
    `Model/ViewLib.lean` in terms of the view-level models; a view object is its message list, calling a
    mutating view method replaces that list in place (the wrapper's field keeps pointing at the same
    object); `<view>.copy()` is the identity on values (aliasing is C16's subject);
    `Sequence(relative_sequence=x)` ↦ `Seq.ofRel x`, `self.__class__(a, r)` ↦ `View.seq_init a r`.
A construct outside this subset raises `Untranslatable`: the generated file then does not compile and
the check reports a broken translator obligation.
"""
import ast
import os

REPO = os.environ.get("SCODA_REPO", "/repo")


class Untranslatable(Exception):
    pass


def camel(name):
    parts = name.strip("_").split("_")
    return parts[0] + "".join(p.capitalize() for p in parts[1:])


# wrapper methods to translate, in dependency order; value = Lean name
METHODS = [
    ("invalidate_abs", "invalidateAbs"), ("invalidate_rel", "invalidateRel"),
    ("abs", "getAbs"), ("rel", "getRel"), ("refresh", "refresh"), ("copy", "copy"),
    ("add_absolute_message", "addAbsoluteMessage"), ("add_relative_message", "addRelativeMessage"),
    ("normalise", "normalise"), ("concatenate", "concatenate"), ("cutoff", "cutoff"), ("merge", "merge"),
    ("messages_abs", "messagesAbs"), ("messages_rel", "messagesRel"),
    ("overwrite_absolute_messages", "overwriteAbsoluteMessages"),
    ("overwrite_relative_messages", "overwriteRelativeMessages"),
    ("pad", "pad"), ("set_channel", "setChannel"), ("split", "split"),
    ("quantise", "quantise"), ("quantise_note_lengths", "quantiseNoteLengths"),
    ("quantise_and_normalise", "quantiseAndNormalise"), ("scale", "scale"), ("transpose", "transpose"),
    ("get_sequence_duration", "getSequenceDuration"), ("is_empty", "isEmpty"), ("equals", "equals"),
    ("get_sequence_channel", "getSequenceChannel"), ("is_channel_consistent", "isChannelConsistent"),
    ("__eq__", "eqDunder"),
]
LEAN_OF = dict(METHODS)

# parameter types by (annotation text | name); `None` default turns T into `Option T`
ANNOT_TYPES = {"int": "Int", "bool": "Bool", "list[int]": "List Int", "list[Message]": "List Msg",
               "list[Sequence]": "List Seq", "list[RelativeSequence]": "List (List Msg)",
               "list[AbsoluteSequence]": "List (List Msg)", "Message": "Msg", "list": "List Msg", "object": "Seq"}
NAME_TYPES = {"msg": "Msg", "index": "Nat", "maximum_length": "Int", "reduced_length": "Int", "padding_length": "Int",
              "factor": "Int", "note_values": "List Int", "standard_length": "Int", "do_not_extend": "Bool",
              "meta_sequence": "Seq", "quantise_afterwards": "Bool", "step_sizes": "List Int", "capacities": "List Int"}

# linked view-level methods: (view, python name) -> result type of the Lean link `View.<view>_<name>`
# every link has type  Env → List Msg → <params…> → Except Err (List Msg × R)
VIEW_LINKS = {
    ("abs", "add_message"): "Unit", ("rel", "add_message"): "Unit", ("rel", "concatenate"): "Unit",
    ("abs", "cutoff"): "Unit", ("abs", "merge"): "Unit", ("rel", "normalise_relative"): "Unit",
    ("rel", "pad"): "Unit", ("rel", "set_channel"): "Unit", ("rel", "split"): "List (List Msg)",
    ("rel", "scale"): "Unit", ("rel", "transpose"): "Bool", ("abs", "quantise"): "Unit",
    ("abs", "quantise_note_lengths"): "Unit", ("abs", "get_sequence_duration"): "Int", ("rel", "is_empty"): "Bool",
    ("abs", "equals"): "Bool", ("abs", "get_sequence_channel"): "Int", ("abs", "is_channel_consistent"): "Bool",
    ("abs", "__eq__"): "Bool",
}
# pure conversions: view -> other view
CONVERSIONS = {("rel", "to_absolute_sequence"): "View.rel_to_absolute_sequence",
               ("abs", "to_relative_sequence"): "View.abs_to_relative_sequence"}
VIEW_CLASS = {"abs": "AbsoluteSequence", "rel": "RelativeSequence"}
FIELD = {"_abs": "abs", "_rel": "rel", "_abs_stale": "absStale", "_rel_stale": "relStale"}


def unparse(n):
    return ast.unparse(n)


class Ctx:
    def __init__(self, view_sigs):
        self.view_sigs = view_sigs      # (view, method) -> list of (param name, default ast or None)


class MethodTranslator:
    def __init__(self, fn, ctx, ret_types):
        self.fn, self.ctx, self.ret_types = fn, ctx, ret_types
        self.lines = []
        self.types = {}          # python local / param name -> Lean type
        self.tmp = 0
        self.ret_type = None
        self.is_generator = any(isinstance(n, (ast.Yield, ast.YieldFrom)) for n in ast.walk(fn))
        self.mutable_seq_params = []

    # ---- helpers
    def fresh(self, base="t"):
        self.tmp += 1
        return f"{base}{self.tmp}"

    def emit(self, ind, text, src=None):
        if src is not None:
            self.lines.append(f"{ind}-- {src}")
        self.lines.append(ind + text)

    def lname(self, pyname):
        return camel(pyname) + "_"

    def param_type(self, arg, default):
        ann = unparse(arg.annotation) if arg.annotation is not None else None
        t = ANNOT_TYPES.get(ann) or NAME_TYPES.get(arg.arg)
        if t is None:
            raise Untranslatable(f"parameter {arg.arg}: unknown type ({ann})")
        if default is not None and isinstance(default, ast.Constant) and default.value is None:
            t = f"Option ({t})"
        return t

    # ---- expressions
    def is_self_attr(self, n, attr=None):
        return (isinstance(n, ast.Attribute) and isinstance(n.value, ast.Name) and n.value.id == "self"
                and (attr is None or n.attr == attr))

    def view_receiver(self, n, ind):
        """`self.abs` / `self.rel` / `self._abs` / `self._rel` / `<seq param>.rel` / local view variable.
        Emits the property read where there is one. Returns (kind, lean lvalue-ish accessor, setter fn)."""
        if self.is_self_attr(n) and n.attr in ("abs", "rel"):
            getter = "getAbs" if n.attr == "abs" else "getRel"
            t = self.fresh("r")
            self.emit(ind, f"let {t} ← {getter} e self_")
            self.emit(ind, f"self_ := {t}.1")
            # the object the property handed out is the one the method is then called on: it must be the view it is named after
            self.emit(ind, f"if {t}.2 != self_.{n.attr} then throw Err.fuel      -- the property returned another object than its own view")
            return n.attr, f"self_.{n.attr}", lambda v: f"self_ := {{ self_ with {n.attr} := {v} }}"
        if self.is_self_attr(n) and n.attr in ("_abs", "_rel"):
            f = FIELD[n.attr]
            return f, f"self_.{f}", lambda v: f"self_ := {{ self_ with {f} := {v} }}"
        if isinstance(n, ast.Name) and self.types.get(n.id) in ("AbsView", "RelView"):
            kind = "abs" if self.types[n.id] == "AbsView" else "rel"
            v = self.lname(n.id)
            return kind, v, lambda val: f"{v} := {val}"
        raise Untranslatable(f"view receiver {unparse(n)}")

    def const(self, n):
        if isinstance(n, ast.Constant):
            if n.value is True:
                return "true", "Bool"
            if n.value is False:
                return "false", "Bool"
            if n.value is None:
                return "none", "None"
            if isinstance(n.value, int):
                return (f"({n.value})" if n.value < 0 else str(n.value)), "Int"
        if isinstance(n, ast.Name) and n.id == "PPQN":
            return "e.ppqn", "Int"
        return None

    def coerce(self, val, ty, want):
        """pass a value of Lean type `ty` where `want` is expected"""
        if ty == want or want is None:
            return val
        if ty == "None" and want.startswith("Option"):
            return "none"
        if want == f"Option ({ty})":
            return f"(some {val})"
        raise Untranslatable(f"type mismatch: {val} : {ty}, expected {want}")

    def expr(self, n, ind, want=None):
        """returns (lean text, lean type)"""
        c = self.const(n)
        if c:
            return c
        if isinstance(n, ast.Name):
            if n.id not in self.types:
                raise Untranslatable(f"unknown name {n.id}")
            return self.lname(n.id), self.types[n.id]
        if self.is_self_attr(n) and n.attr in ("_abs_stale", "_rel_stale"):
            return f"self_.{FIELD[n.attr]}", "Bool"
        if isinstance(n, ast.Attribute) and isinstance(n.value, ast.Name) and self.types.get(n.value.id) == "Seq" and n.attr in ("abs", "rel"):
            getter = "getAbs" if n.attr == "abs" else "getRel"
            t = self.fresh("o")
            self.emit(ind, f"let {t} ← {getter} e {self.lname(n.value.id)}      -- (the argument's refreshed cache is not written back)")
            return f"{t}.2", "List Msg"
        if isinstance(n, ast.UnaryOp) and isinstance(n.op, ast.Not):
            v, t = self.expr(n.operand, ind)
            if t != "Bool":
                raise Untranslatable("not of a non-bool")
            return f"(!{v})", "Bool"
        if isinstance(n, ast.BoolOp):
            vs = [self.expr(v, ind) for v in n.values]
            if any(t != "Bool" for _, t in vs):
                raise Untranslatable("bool op of non-bools")
            sym = " && " if isinstance(n.op, ast.And) else " || "
            return "(" + sym.join(v for v, _ in vs) + ")", "Bool"
        if isinstance(n, ast.Compare) and len(n.ops) == 1 and isinstance(n.ops[0], (ast.Is, ast.IsNot)) \
                and isinstance(n.comparators[0], ast.Constant) and n.comparators[0].value is None:
            v, t = self.expr(n.left, ind)
            if not t.startswith("Option"):
                raise Untranslatable(f"`is None` on non-optional {unparse(n.left)}")
            return (f"{v}.isNone" if isinstance(n.ops[0], ast.Is) else f"{v}.isSome"), "Bool"
        if isinstance(n, ast.Call):
            return self.call(n, ind)
        if isinstance(n, ast.ListComp):
            return self.listcomp(n, ind)
        raise Untranslatable(f"expression {unparse(n)}")

    def listcomp(self, n, ind):
        if len(n.generators) != 1 or n.generators[0].ifs or not isinstance(n.generators[0].target, ast.Name):
            raise Untranslatable(f"comprehension {unparse(n)}")
        g = n.generators[0]
        it, it_t = self.expr(g.iter, ind)
        var = g.target.id
        elt = n.elt
        # [seq.rel for seq in sequences] / [seq.abs for seq in sequences]: read the property of every argument
        if it_t == "List Seq" and isinstance(elt, ast.Attribute) and isinstance(elt.value, ast.Name) \
                and elt.value.id == var and elt.attr in ("abs", "rel"):
            getter = "getAbs" if elt.attr == "abs" else "getRel"
            t = self.fresh("vs")
            self.emit(ind, f"let {t} ← {it}.mapM (fun x => do let r ← {getter} e x; pure r.2)")
            return t, "List (List Msg)"
        # [Sequence(relative_sequence=seq.copy()) for seq in relative_sequences]
        if it_t == "List (List Msg)" and isinstance(elt, ast.Call) and isinstance(elt.func, ast.Name) \
                and elt.func.id == "Sequence" and len(elt.keywords) == 1 and not elt.args:
            kw = elt.keywords[0]
            inner = kw.value
            if isinstance(inner, ast.Call) and isinstance(inner.func, ast.Attribute) and inner.func.attr == "copy" \
                    and not inner.args and isinstance(inner.func.value, ast.Name) and inner.func.value.id == var:
                inner = inner.func.value        # <view>.copy() is the identity on values
            if not (isinstance(inner, ast.Name) and inner.id == var):
                raise Untranslatable(f"comprehension element {unparse(elt)}")
            ctor = {"relative_sequence": "Seq.ofRel", "absolute_sequence": "Seq.ofAbs"}.get(kw.arg)
            if ctor is None:
                raise Untranslatable(f"Sequence keyword {kw.arg}")
            return f"({it}.map {ctor})", "List Seq"
        raise Untranslatable(f"comprehension {unparse(n)}")

    def bind_args(self, sig, call, ind, skip_first=0):
        """map positional + keyword arguments of `call` onto the callee's parameter list `sig`
        [(name, default ast, lean type)], filling defaults; returns lean argument texts"""
        given = {}
        names = [p[0] for p in sig]
        for i, a in enumerate(call.args):
            if i >= len(names):
                raise Untranslatable(f"too many arguments in {unparse(call)}")
            given[names[i]] = a
        for kw in call.keywords:
            if kw.arg not in names or kw.arg in given:
                raise Untranslatable(f"keyword {kw.arg} in {unparse(call)}")
            given[kw.arg] = kw.value
        out = []
        for name, default, ty in sig:
            node = given.get(name, default)
            if node is None:
                raise Untranslatable(f"missing argument {name} in {unparse(call)}")
            v, t = self.expr(node, ind)
            out.append(self.coerce(v, t, ty))
        return out

    def call(self, n, ind):
        f = n.func
        # self.<wrapper method>(args)
        if self.is_self_attr(f) and f.attr in LEAN_OF and f.attr not in ("abs", "rel"):
            sig = self.ctx.wrapper_sigs[f.attr]
            args = self.bind_args(sig, n, ind)
            t = self.fresh("r")
            self.emit(ind, f"let {t} ← {LEAN_OF[f.attr]} e self_ {' '.join(args)}".rstrip())
            self.emit(ind, f"self_ := {t}.1")
            return f"{t}.2", self.ret_types[f.attr]
        # self.__class__(cpy_abs, cpy_rel)
        if isinstance(f, ast.Attribute) and f.attr == "__class__" and isinstance(f.value, ast.Name) and f.value.id == "self":
            if len(n.args) != 2 or n.keywords:
                raise Untranslatable(f"constructor call {unparse(n)}")
            a = [self.coerce(*self.expr(x, ind), "Option (List Msg)") for x in n.args]
            return f"(View.seq_init {a[0]} {a[1]})", "Seq"
        # AbsoluteSequence() / RelativeSequence(): a new empty view
        if isinstance(f, ast.Name) and f.id in ("AbsoluteSequence", "RelativeSequence") and not n.args and not n.keywords:
            return "([] : List Msg)", ("AbsView" if f.id == "AbsoluteSequence" else "RelView")
        # <view>.<method>(args)
        if isinstance(f, ast.Attribute):
            # <view>.copy(): the identity on values
            if f.attr == "copy" and not n.args and not n.keywords:
                kind, acc, _ = self.view_receiver(f.value, ind)
                return acc, "List Msg"
            # conversions: self._rel.to_absolute_sequence()
            for (kind0, meth), lean in CONVERSIONS.items():
                if f.attr == meth:
                    kind, acc, _ = self.view_receiver(f.value, ind)
                    if kind != kind0:
                        raise Untranslatable(f"{meth} on the {kind} view")
                    return f"({lean} {acc})", ("AbsView" if kind0 == "rel" else "RelView")
            kind, acc, setter = self.view_receiver(f.value, ind)
            key = (kind, f.attr)
            if key not in VIEW_LINKS:
                raise Untranslatable(f"view method {kind}.{f.attr} has no link")
            sig = self.ctx.view_sigs[key]
            args = self.bind_args(sig, n, ind)
            t = self.fresh("v")
            self.emit(ind, f"let {t} ← View.{kind}_{f.attr} e {acc} {' '.join(args)}".rstrip())
            self.emit(ind, setter(f"{t}.1"))
            return f"{t}.2", VIEW_LINKS[key]
        raise Untranslatable(f"call {unparse(n)}")

    # ---- statements
    def assign_local(self, name, val, ty, ind):
        v = self.lname(name)
        known = self.types.get(name)
        if known is None:
            if ty == "None":
                raise Untranslatable(f"{name} = None needs a later typed assignment (handled by pre-scan)")
            self.types[name] = ty
            lean_ty = "List Msg" if ty in ("AbsView", "RelView") else ty
            self.emit(ind, f"let mut {v} : {lean_ty} := {val}")
        else:
            want = "List Msg" if known in ("AbsView", "RelView") else known
            have = "List Msg" if ty in ("AbsView", "RelView") else ty
            self.emit(ind, f"{v} := {self.coerce(val, have, want)}")

    def stmts(self, body, ind):
        for s in body:
            src = unparse(s).split("\n")[0]
            if isinstance(s, ast.Expr) and isinstance(s.value, ast.Constant) and isinstance(s.value.value, str):
                continue
            if isinstance(s, ast.Expr) and isinstance(s.value, ast.Call):
                self.lines.append(f"{ind}-- {src}")
                self.expr(s.value, ind)
            elif isinstance(s, ast.Expr) and isinstance(s.value, ast.Yield):
                if not (isinstance(s.value.value, ast.Name) and s.value.value.id == self.loop_var):
                    raise Untranslatable("yield of something other than the loop variable")
                self.emit(ind, f"{self.lname(self.loop_var)} := f {self.lname(self.loop_var)}", src + "   (the consumer edits the yielded message)")
            elif isinstance(s, ast.Assign):
                if len(s.targets) != 1:
                    raise Untranslatable("multiple assignment")
                tgt = s.targets[0]
                self.lines.append(f"{ind}-- {src}")
                if self.is_self_attr(tgt) and tgt.attr in FIELD:
                    v, t = self.expr(s.value, ind)
                    fld = FIELD[tgt.attr]
                    if fld in ("absStale", "relStale") and t != "Bool":
                        raise Untranslatable(f"{src}: non-bool flag")
                    if fld == "abs" and t not in ("AbsView",):
                        raise Untranslatable(f"{src}: _abs must receive an absolute view")
                    if fld == "rel" and t not in ("RelView",):
                        raise Untranslatable(f"{src}: _rel must receive a relative view")
                    self.emit(ind, f"self_ := {{ self_ with {fld} := {v} }}")
                elif isinstance(tgt, ast.Name):
                    v, t = self.expr(s.value, ind)
                    self.assign_local(tgt.id, v, t, ind)
                else:
                    raise Untranslatable(f"assignment target {unparse(tgt)}")
            elif isinstance(s, ast.If) and ast.unparse(s.test).startswith("not isinstance(") and not s.orelse \
                    and len(s.body) == 1 and isinstance(s.body[0], ast.Return):
                self.emit(ind, "pure ()", src + "   (holds by typing: the parameter is a Sequence)")
            elif isinstance(s, ast.If):
                c, t = self.expr(s.test, ind)
                if t != "Bool":
                    raise Untranslatable(f"condition {unparse(s.test)} is not a bool")
                self.emit(ind, f"if {c} then", f"if {unparse(s.test)}:")
                self.stmts(s.body, ind + "  ")
                if s.orelse:
                    self.emit(ind, "else")
                    self.stmts(s.orelse, ind + "  ")
            elif isinstance(s, ast.Raise):
                txt = unparse(s.exc)
                if not txt.startswith("SequenceException("):
                    raise Untranslatable(f"raise {txt}")
                err = "Err.sequenceStale" if "stale" in txt else "Err.sequenceError"
                self.emit(ind, f"throw {err}", src)
            elif isinstance(s, ast.Return):
                self.lines.append(f"{ind}-- {src}")
                if s.value is None:
                    v, t = "()", "Unit"
                elif self.is_self_attr(s.value) and s.value.attr in ("_abs", "_rel"):
                    v, t = f"self_.{FIELD[s.value.attr]}", "List Msg"      # property getter: the view object it hands out
                else:
                    v, t = self.expr(s.value, ind)
                    if t in ("AbsView", "RelView"):
                        t = "List Msg"
                if self.ret_type not in (None, t):
                    raise Untranslatable(f"return types differ: {self.ret_type} / {t}")
                self.ret_type = t
                self.emit(ind, f"return (self_, {v})")
            elif isinstance(s, ast.For):
                self.for_loop(s, ind, src)
            elif isinstance(s, ast.Pass):
                self.emit(ind, "pure ()", src)
            elif isinstance(s, ast.Try):
                if s.handlers or s.orelse or not s.finalbody:
                    raise Untranslatable("try with handlers")
                if not self.is_generator:
                    raise Untranslatable("try/finally outside a generator")
                # generator run to its end by the consumer: body, then the finally block
                self.emit(ind, "-- try:")
                self.stmts(s.body, ind)
                self.emit(ind, "-- finally:")
                self.stmts(s.finalbody, ind)
            else:
                raise Untranslatable(f"statement {type(s).__name__}: {src}")

    def for_loop(self, s, ind, src):
        if s.orelse or not isinstance(s.target, ast.Name):
            raise Untranslatable(f"for loop {src}")
        var = s.target.id
        it = s.iter
        # for message in self.abs._messages:   (generator methods: edit every element in place)
        if isinstance(it, ast.Attribute) and it.attr == "_messages":
            if not self.is_generator:
                raise Untranslatable("iteration over _messages outside a generator")
            kind, acc, setter = self.view_receiver(it.value, ind)
            out = self.fresh("out")
            self.emit(ind, f"let mut {out} : List Msg := []", src + "   (the list object is edited in place, element by element)")
            self.emit(ind, f"for x in {acc} do")
            self.types[var] = "Msg"
            self.loop_var = var
            self.emit(ind + "  ", f"let mut {self.lname(var)} := x")
            self.stmts(s.body, ind + "  ")
            self.emit(ind + "  ", f"{out} := {out} ++ [{self.lname(var)}]")
            self.emit(ind, setter(out))
            return
        v, t = self.expr(it, ind)
        if t != "List Msg":
            raise Untranslatable(f"for loop over {t}")
        self.types[var] = "Msg"
        self.emit(ind, f"for {self.lname(var)} in {v} do", src)
        self.stmts(s.body, ind + "  ")

    def translate(self, lean_name, sig):
        fn = self.fn
        params = []
        for name, default, ty in sig:
            self.types[name] = ty
            params.append(f"({self.lname(name)} : {ty})")
        if self.is_generator:
            params.append("(f : Msg → Msg)")
        # pre-scan: `x = None` followed by a typed assignment: declare as Option
        for node in ast.walk(fn):
            if isinstance(node, ast.Assign) and len(node.targets) == 1 and isinstance(node.targets[0], ast.Name) \
                    and isinstance(node.value, ast.Constant) and node.value.value is None:
                self.none_init = getattr(self, "none_init", set()) | {node.targets[0].id}
        body_lines_start = len(self.lines)
        for nm in sorted(getattr(self, "none_init", set())):
            self.types[nm] = "Option (List Msg)"
            self.lines.append(f"  let mut {self.lname(nm)} : Option (List Msg) := none")
        body = [s for s in fn.body]
        # drop `x = None` statements (declared above)
        body = [s for s in body if not (isinstance(s, ast.Assign) and isinstance(s.value, ast.Constant) and s.value.value is None
                                        and isinstance(s.targets[0], ast.Name))]
        self.stmts(body, "  ")
        last = [s for s in fn.body if not (isinstance(s, ast.Expr) and isinstance(s.value, ast.Constant))][-1]
        if not isinstance(last, ast.Return):
            if self.ret_type not in (None, "Unit"):
                raise Untranslatable("falls off the end of a value-returning method")
            self.ret_type = "Unit"
            self.lines.append("  return (self_, ())")
        head = f"def {lean_name} (e : Env) (self0 : Seq) {' '.join(params)} : Except Err (Seq × {self.paren(self.ret_type)}) := do".replace("  :", " :")
        return "\n".join([head, "  let mut self_ := self0"] + self.lines) + "\n"

    @staticmethod
    def paren(t):
        return f"({t})" if " " in t else t


def signature(fn, translator_cls=None):
    """[(name, default ast | None, lean type)] of a method (without self)"""
    args = fn.args.args[1:]
    defaults = [None] * (len(args) - len(fn.args.defaults)) + list(fn.args.defaults)
    mt = MethodTranslator(fn, None, None)
    return [(a.arg, d, mt.param_type(a, d)) for a, d in zip(args, defaults)]


def class_methods(path, cls):
    tree = ast.parse(open(path).read())
    for node in tree.body:
        if isinstance(node, ast.ClassDef) and node.name == cls:
            return {n.name: n for n in node.body if isinstance(n, ast.FunctionDef)}
    raise Untranslatable(f"class {cls} not found in {path}")


# Functions the translation relies on as CONVENTIONS without translating them (a view object is its message list; `<view>.copy()` and
# `Message.copy()` are the identity on values; `Sequence(...)` sets the flags by which views are given).  Their source is pinned: the
# normalised AST of each body must be what it was when the convention was written down; any edit makes generation fail loudly.
PINNED = {
    ("scoda/sequences/abstract_sequence.py", "AbstractSequence", "__init__"):
        "super().__init__()|self._messages = []|if messages is not None:\n    self._messages.extend(messages)",
    ("scoda/sequences/abstract_sequence.py", "AbstractSequence", "copy"):
        "cpy = self.__class__(messages=[msg.copy() for msg in self._messages])|return cpy",
    ("scoda/sequences/absolute_sequence.py", "AbsoluteSequence", "__init__"): "super().__init__(messages=messages)",
    ("scoda/sequences/relative_sequence.py", "RelativeSequence", "__init__"): "super().__init__(messages=messages)",
}
ALLOWED_DECORATORS = {"property", "staticmethod"}


def body_text(fn):
    return "|".join(ast.unparse(s) for s in fn.body
                    if not (isinstance(s, ast.Expr) and isinstance(s.value, ast.Constant) and isinstance(s.value.value, str)))


def check_pinned(pinned=None):
    # Message.__init__ stores every parameter in the field of its name and Message.copy hands every field to the constructor
    # (checked on the AST by the view-level translator): `msg.copy()` is the identity on values for this translator too
    import py2lean
    try:
        py2lean.check_message_class()
    except py2lean.Untranslatable as e:
        raise Untranslatable(f"pinned convention Message: {e}")
    for (path, cls, meth), want in (pinned or PINNED).items():
        fns = class_methods(os.path.join(REPO, path), cls)
        if meth not in fns:
            raise Untranslatable(f"pinned convention {cls}.{meth} not found")
        got = body_text(fns[meth])
        if got != want:
            raise Untranslatable(f"pinned convention {cls}.{meth} changed: {got!r} (expected {want!r})")
        check_decorators(fns[meth], f"{cls}.{meth}")


def check_decorators(fn, what):
    for d in fn.decorator_list:
        if ast.unparse(d) not in ALLOWED_DECORATORS:
            raise Untranslatable(f"{what} carries the decorator @{ast.unparse(d)}: a decorator can change what a call does (caching, wrapping)")


def defaults_of(cls, fn):
    """'Class.method(param=default source)' for every defaulted parameter: pinned by a theorem in the tie file"""
    args = fn.args.args
    defs = [None] * (len(args) - len(fn.args.defaults)) + list(fn.args.defaults)
    out = [f"{cls}.{fn.name}({a.arg}={ast.unparse(d)})" for a, d in zip(args, defs) if d is not None]
    out += [f"{cls}.{fn.name}({a.arg}={ast.unparse(d)})" for a, d in zip(fn.args.kwonlyargs, fn.args.kw_defaults) if d is not None]
    return out


def gen_wrap_fns_ctx():
    check_pinned()
    seq = class_methods(os.path.join(REPO, "scoda/sequences/sequence.py"), "Sequence")
    views = {"abs": class_methods(os.path.join(REPO, "scoda/sequences/absolute_sequence.py"), "AbsoluteSequence"),
             "rel": class_methods(os.path.join(REPO, "scoda/sequences/relative_sequence.py"), "RelativeSequence")}
    ctx = Ctx({})
    for (kind, meth) in VIEW_LINKS:
        if meth not in views[kind]:
            raise Untranslatable(f"{VIEW_CLASS[kind]}.{meth} not found")
        ctx.view_sigs[(kind, meth)] = [(n_, d_, "List Msg" if t_ == "Seq" else t_) for (n_, d_, t_) in signature(views[kind][meth])]
    ctx.wrapper_sigs = {}
    ret_types = {}
    out = []
    missing = [m for m, _ in METHODS if m not in seq]
    if missing:
        raise Untranslatable(f"Sequence methods not found: {missing}")
    defaults = []
    for (kind, meth) in VIEW_LINKS:
        check_decorators(views[kind][meth], f"{VIEW_CLASS[kind]}.{meth}")
        defaults += defaults_of(VIEW_CLASS[kind], views[kind][meth])
    for (kind, meth) in CONVERSIONS:
        check_decorators(views[kind][meth], f"{VIEW_CLASS[kind]}.{meth}")
    for py, lean in METHODS:
        fn = seq[py]
        check_decorators(fn, f"Sequence.{py}")
        defaults += defaults_of("Sequence", fn)
        sig = signature(fn)
        ctx.wrapper_sigs[py] = sig
        mt = MethodTranslator(fn, ctx, ret_types)
        text = mt.translate(lean, sig)
        ret_types[py] = mt.ret_type
        out.append(f"/-- translation of `Sequence.{py}` (sequence.py:{fn.lineno}) -/\n{text}")
    # every public mutator of Sequence must be either translated or named here as out of scope
    head = [
        "/- GENERATED by tools/py2lean_wrap.py from scoda/sequences/sequence.py — do not edit.",
        "   Statement-by-statement translation of the `Sequence` wrapper methods; view-level methods are the",
        "   links of Model/ViewLib.lean (one assumption each, tied by the correspondence check):",
        "   " + ", ".join(f"{VIEW_CLASS[k]}.{m}" for (k, m) in VIEW_LINKS) + ",",
        "   " + ", ".join(f"{VIEW_CLASS[k]}.{m}" for (k, m) in CONVERSIONS) + ". -/",
        "import SCoda.Model.ViewLib",
        "set_option linter.unusedVariables false",
        "namespace SCoda.Gen.Wrap",
        "",
    ]
    names = "def translated : List String := [" + ", ".join(f'"{p}"' for p, _ in METHODS) + "]\n"
    names += "\n/-- every default argument of the translated and linked methods, as written in the source -/\n"
    names += "def defaults : List String := [" + ", ".join('"' + d.replace('"', "'") + '"' for d in defaults) + "]\n"
    return "\n".join(head) + "\n" + "\n".join(out) + "\n" + names + "\nend SCoda.Gen.Wrap\n", ctx, ret_types


def gen_wrap_fns():
    return gen_wrap_fns_ctx()[0]


if __name__ == "__main__":
    print(gen_wrap_fns())
