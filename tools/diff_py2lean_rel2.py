#!/venv/bin/python
"""Differential check of the TRANSLATOR tools/py2lean_rel2.py: the generated Lean functions of Gen/RelFns2.lean
(`normaliseRelative`, `split`) are run (`lake env lean`, `#eval`) on random inputs and compared with what the real
implementation in SCODA_REPO (default /repo) does on the same inputs, including ill-formed ones:

  normalise_relative   unbalanced / nested / orphan notes, repeated signatures, channel None, note None, zero and negative
                       waits, and lists in which THE SAME OBJECT occurs more than once (ids repeat in the Lean input).
                       The result is compared as a list of OBJECTS: every output message must be the input object with the
                       expected id or the k-th freshly allocated one (ids base, base+1, … in order), with equal fields.
  split                the same message lists, capacity lists with 0, negative and huge entries, the empty list.

    /venv/bin/python tools/diff_py2lean_rel2.py [cases-per-function] [seed]

This is sampling; it checks the translation conventions.  The hand models are tied to the generated functions by the
theorems of Props/RelTie2.lean.
"""
import os
import random
import subprocess
import sys

sys.path.insert(0, os.path.dirname(os.path.abspath(__file__)))
import diff_py2lean as D                                         # noqa: E402  (puts SCODA_REPO on sys.path)
from diff_py2lean import L_msg, L_int, T, KEYS                   # noqa: E402
from scoda.elements.message import Message                      # noqa: E402
from scoda.sequences.relative_sequence import RelativeSequence   # noqa: E402

HERE = os.path.join(os.path.dirname(os.path.abspath(__file__)), "..")
ERR = {IndexError: "indexError", KeyError: "keyError", ValueError: "valueError"}


def rand_msg(rng, wild):
    r = rng.random()
    if r < 0.30:
        t = T.NOTE_ON
    elif r < 0.58:
        t = T.NOTE_OFF
    elif r < 0.78:
        t = T.WAIT
    else:
        t = rng.choice(list(T))
    m = Message(message_type=t, channel=rng.choice([0, 0, 1, 2]))
    if t in (T.NOTE_ON, T.NOTE_OFF):
        m.note = rng.choice([60, 60, 61, 62])
        if t == T.NOTE_ON:
            m.velocity = rng.randint(1, 127)
        if wild and rng.random() < 0.05:
            m.note = None
    if t == T.KEY_SIGNATURE:
        m.key = rng.choice(KEYS[:3])
    if t == T.TIME_SIGNATURE:
        m.numerator, m.denominator = rng.choice([(4, 4), (3, 4), (4, 8)])
    if t == T.WAIT:
        m.time = rng.choice([0, 1, 2, 3, 5, 8, 24]) if not wild else rng.choice([0, 1, 2, 3, 5, -1, -2, 30])
    if wild and rng.random() < 0.06:
        m.channel = None
    return m


def rand_objs(rng, wild, maxlen=10):
    """a list of message objects; with `wild`, some objects occur more than once"""
    ms = [rand_msg(rng, wild) for _ in range(rng.randint(0, maxlen))]
    if wild and ms and rng.random() < 0.35:
        for _ in range(rng.randint(1, 3)):
            ms.insert(rng.randint(0, len(ms)), rng.choice(ms))
    return ms


def ids_of(ms):
    """id of an object = index of its first occurrence"""
    out = []
    for m in ms:
        out.append(next(i for i, x in enumerate(ms) if x is m))
    return out


def L_objs(ms, ids):
    return "([" + ", ".join(f"({i}, {L_msg(m)})" for i, m in zip(ids, ms)) + "] : List Obj)"


def L_list(ms):
    return "([" + ", ".join(L_msg(m) for m in ms) + "] : List Msg)"


def run(fn):
    try:
        return "ok", fn()
    except tuple(ERR) as e:
        return "err", ERR[type(e)]
    except TypeError as e:       # arithmetic / ordering on None: outside the conventions of the translation
        return "skip", str(e)


def main():
    n = int(sys.argv[1]) if len(sys.argv) > 1 else 300
    rng = random.Random(int(sys.argv[2]) if len(sys.argv) > 2 else 20260930)
    cases = []
    stats = {"skip": 0, "alias": 0, "err": 0}

    def add(label, lean_call, kind, expected):
        if kind == "skip":
            stats["skip"] += 1
            return
        if kind == "err":
            stats["err"] += 1
        rhs = f"Except.ok {expected}" if kind == "ok" else f"Except.error PyErr.{expected}"
        cases.append((label, f"decide (Gen.Rel2.{lean_call} = {rhs})"))

    for i in range(n):
        wild = i % 3 == 2
        ms = rand_objs(rng, wild)
        ids = ids_of(ms)
        if len(set(ids)) < len(ids):
            stats["alias"] += 1
        fields = [dict(m.__dict__) for m in ms]
        s = RelativeSequence()
        s._messages = list(ms)
        kind, v = run(lambda: s.normalise_relative())
        for m, f in zip(ms, fields):
            assert m.__dict__ == f, "normalise_relative changed a field of an input message"
        if kind == "ok":
            base = (max(ids) + 1) if ids else 0
            out_ids, k = [], 0
            for o in s._messages:
                j = next((ids[q] for q, x in enumerate(ms) if x is o), None)
                if j is None:
                    j = base + k
                    k += 1
                out_ids.append(j)
            add(f"normalise_relative#{i}", f"normaliseRelative {L_objs(ms, ids)}", "ok", L_objs(s._messages, out_ids))
        else:
            add(f"normalise_relative#{i}", f"normaliseRelative {L_objs(ms, ids)}", kind, v)

    for i in range(n):
        wild = i % 3 == 2
        ms = rand_objs(rng, wild)
        caps = [rng.choice([0, 1, 2, 3, 4, 6, 8, 24, 96] + ([-1, -3, 1000] if wild else [])) for _ in range(rng.randint(0, 5))]
        fields = [dict(m.__dict__) for m in ms]
        s = RelativeSequence()
        s._messages = list(ms)
        kind, v = run(lambda: s.split(list(caps)))
        for m, f in zip(ms, fields):
            assert m.__dict__ == f, "split changed a field of an input message"
        assert len(s._messages) == len(ms) and all(a is b for a, b in zip(s._messages, ms)), "split changed its receiver"
        lean = f"split {L_list(ms)} [{', '.join(L_int(c) for c in caps)}]"
        if kind == "ok":
            add(f"split#{i}", lean, "ok", "[" + ", ".join(L_list(p._messages) for p in v) + "]")
        else:
            add(f"split#{i}", lean, kind, v)

    out_dir = os.path.join(HERE, "lean", ".difftest_rel2")
    os.makedirs(out_dir, exist_ok=True)
    path = os.path.join(out_dir, "Diff.lean")
    with open(path, "w") as fh:
        fh.write("import SCoda.Gen.RelFns2\nopen SCoda SCoda.Gen.Rel2\n")
        fh.write("""instance {ε α : Type} [DecidableEq ε] [DecidableEq α] : DecidableEq (Except ε α)
  | .ok a, .ok b => if h : a = b then isTrue (h ▸ rfl) else isFalse (fun h' => h (by cases h'; rfl))
  | .error a, .error b => if h : a = b then isTrue (h ▸ rfl) else isFalse (fun h' => h (by cases h'; rfl))
  | .ok _, .error _ => isFalse (by intro h; cases h)
  | .error _, .ok _ => isFalse (by intro h; cases h)
""")
        chunks = [cases[i:i + 100] for i in range(0, len(cases), 100)]
        for ci, chunk in enumerate(chunks):
            fh.write(f"def cases{ci} : List (String × Bool) := [\n")
            fh.write(",\n".join(f'  ("{lab}", {expr})' for lab, expr in chunk))
            fh.write("]\n")
        fh.write("def cases : List (String × Bool) := " + " ++ ".join(f"cases{ci}" for ci in range(len(chunks))) + "\n")
        fh.write('#eval IO.println s!"DIFF total={cases.length} failed={(cases.filter (fun c => !c.2)).map (·.1)}"\n')
    res = subprocess.run(["lake", "env", "lean", ".difftest_rel2/Diff.lean"], cwd=os.path.join(HERE, "lean"),
                         capture_output=True, text=True)
    print(res.stdout[-3000:], res.stderr[-3000:])
    print(f"python side: {stats['skip']} skipped (TypeError on None), {stats['err']} expected errors, "
          f"{stats['alias']} normalise inputs with a repeated object")
    ok = "failed=[]" in res.stdout and res.returncode == 0
    if ok and not os.environ.get("KEEP_DIFF"):
        import shutil
        shutil.rmtree(out_dir, ignore_errors=True)
    sys.exit(0 if ok else 1)


if __name__ == "__main__":
    main()
