#!/venv/bin/python
"""keep_mutant.py <worktree> <seeded id> <property> "<what>" "<needs>" "<confirm line>" <check> [<check> ...]
Copies patch.diff/demo.py to seeded/<id>/, applies the patch to /repo, runs the named checks, records the result in
meta.json, stores every shrunk oracle replay input in corpus/<check>/, undoes the patch."""
import hashlib
import json
import os
import re
import shutil
import subprocess
import sys

wt, sid, prop, what, needs, confirm = sys.argv[1:7]
checks = sys.argv[7:]
V = os.environ.get("VERIF_ROOT", "/verif")
MUT = os.environ.get("MUTREPO", "/root/work/mutrepo")      # a scratch worktree of /repo: /repo itself is never patched
if not os.path.isdir(MUT):
    subprocess.run(["git", "-C", "/repo", "worktree", "add", "-q", "--detach", MUT, "HEAD"], check=True)
subprocess.run(["git", "-C", MUT, "checkout", "-q", "--detach", subprocess.run(["git", "-C", "/repo", "rev-parse", "HEAD"], capture_output=True, text=True).stdout.strip()], check=True)
subprocess.run(["git", "-C", MUT, "checkout", "--", "."], check=True)
ENV = dict(os.environ, SCODA_REPO=MUT)
dst = f"{V}/seeded/{sid}"
os.makedirs(dst, exist_ok=True)
shutil.copy(f"{wt}/patch.diff", f"{dst}/patch.diff")
shutil.copy(f"{wt}/demo.py", f"{dst}/demo.py")
subprocess.run(["git", "-C", MUT, "apply", f"{dst}/patch.diff"], check=True)
detected = []
try:
    for c in checks:
        out = subprocess.run([f"{V}/check", c], cwd=V, capture_output=True, text=True, env=ENV).stdout
        m = re.search(r"^VIOLATION property=(\S+) replay=(\S+)(.*)$", out, flags=re.M)
        if not m:
            detected.append({"check": f"./check {c}", "tier": "quick", "result": "not reported"})
            continue
        concrete = "no-failing-input-found" not in m.group(3)
        detected.append({"check": f"./check {c}", "tier": "quick",
                         "result": "VIOLATION with a concrete shrunk input" if concrete else "VIOLATION no-failing-input-found (broken obligation / correspondence)"})
        if concrete:
            rec = json.load(open(m.group(2)))
            if rec.get("kind") == "oracle":
                entry = {"oracle": rec["oracle"], "input": rec["input"], "from": sid}
                h = hashlib.sha256(json.dumps(entry["input"], sort_keys=True).encode()).hexdigest()[:12]
                os.makedirs(f"{V}/corpus/{c}", exist_ok=True)
                with open(f"{V}/corpus/{c}/{h}.json", "w") as f:
                    json.dump(entry, f, indent=1)
finally:
    subprocess.run(["git", "-C", MUT, "checkout", "--", "."], check=True)
    subprocess.run(["/venv/bin/python", f"{V}/tools/gen_lean.py"], capture_output=True)      # Gen/*.lean back to /repo's source
# the corpus entries just added must be quiet on the unchanged tree (a shrunk input may have left the property's domain)
for c in checks:
    r = subprocess.run([f"{V}/check", c], cwd=V, capture_output=True, text=True)
    if r.returncode != 0:
        print(f"WARNING: ./check {c} is not quiet on the clean tree after adding the corpus entry:", r.stdout[-400:])
meta = {"property": prop, "origin": "fresh sub-agent given only the property text and a scratch worktree (round 5 or later)",
        "what": what, "needs_to_manifest": needs,
        "confirmed_by_me": {"how": "tools/confirm_mutant.sh in the scratch worktree", "result": confirm},
        "detected_by": detected,
        "how_to_run": f"git -C /repo apply /verif/seeded/{sid}/patch.diff && ./check {prop}; git -C /repo checkout -- ."}
with open(f"{dst}/meta.json", "w") as f:
    json.dump(meta, f, indent=1)
print(sid, [(d["check"], d["result"][:40]) for d in detected])
