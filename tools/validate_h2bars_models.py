"""compare the harness-side mechanism models (h2bars_util.split_model / bars_model) with the code on every input the C08 / C09 generators draw.
usage: validate_models.py C08|C09 seed [thorough]"""
import sys, os, json, importlib
V = "/root/work/g1/verif"
sys.path.insert(0, V + "/harness")
os.environ.setdefault("SCODA_VERIF", "1")
from checklib import Ctx
from oracle_util import *
from protocol import from_real
import h2bars_util as U
prop, seed = sys.argv[1], int(sys.argv[2])
tier = "thorough" if len(sys.argv) > 3 else "quick"
mod = importlib.import_module("props." + prop)
ctx = Ctx(prop, tier, seed)
mod.setup(ctx)
kf = {x["id"]: x for x in json.load(open(V + "/known_findings.json"))["findings"]}
ALLOWED, STD = kf["D26"]["default_note_values"], kf["D34"]["standard_length"]
stats = {"n": 0, "bad": 0, "raise": 0, "skipped": 0}

def cmp_c08(inp):
    rel = [tuple(m) for m in inp["rel"]]; caps = list(inp["caps"])
    if any(c <= 0 for c in caps): return
    state = inp.get("state", "rel")
    s, _ = U.build_state(rel, state)
    if state not in ("rel", "both", "stale-abs"): return
    try:
        real = [[from_real(m) for m in p.rel._messages] for p in s.split(list(caps))]
    except Exception as e:
        stats["raise"] += 1; return
    stats["n"] += 1
    model = U.split_model(rel, caps)
    if real != model:
        stats["bad"] += 1
        if stats["bad"] < 4: print("C08 MISMATCH", json.dumps(inp), "\n real ", real, "\n model", model)

def cmp_c09(inp):
    from scoda.sequences.sequence import Sequence
    tracks = [[tuple(m) for m in t] for t in inp["tracks"]]
    if not tracks: return
    meta = inp.get("meta", 0)
    states = inp.get("states") or ["rel"] * len(tracks)
    abs_lists = [None if a is None else [tuple(m) for m in a] for a in (inp.get("abs") or [None] * len(tracks))]
    seqs = [U.build_state(t, st, a)[0] for t, st, a in zip(tracks, states, abs_lists)]
    ts, ks = mod.given_meta_events(tracks[meta], states[meta], abs_lists[meta])
    if states[meta] in ("rel", "stale-abs", "churned"):
        ts = sorted(ts, key=lambda x: (x[0], -1 if x[2] is None else x[2]))
    m = U.bars_model(tracks, ts, inp["requant"], ALLOWED, STD)
    try:
        tb = Sequence.sequences_split_bars(seqs, meta_track_index=meta, quantise_note_lengths=inp["requant"])
    except Exception as e:
        stats["raise"] += 1
        if str(e) == "Bar capacity exceeded":
            if m["overflow"] is None:
                stats["bad"] += 1; print("C09 unpredicted overflow", json.dumps(inp))
        return
    stats["n"] += 1
    bad = None
    if m["overflow"] is not None: bad = "predicted overflow %r, no raise" % (m["overflow"],)
    elif m["bars"] != len(tb[0]): bad = "bars %d vs %d" % (m["bars"], len(tb[0]))
    else:
        for ti, bars in enumerate(tb):
            laid, off = [], 0
            for b in bars:
                tp, d = rel_timed([from_real(x) for x in b.sequence.rel._messages])
                laid.extend((x + off, mm) for x, mm in tp if mm[TY] in (ON, OFF)); off += d
            if laid != m["laid"][ti]:
                bad = "track %d\n real  %s\n model %s" % (ti, [(t, x[TY], x[CH], x[NOTE], x[VEL]) for t, x in laid], [(t, x[TY], x[CH], x[NOTE], x[VEL]) for t, x in m["laid"][ti]])
                break
    if bad:
        stats["bad"] += 1
        if stats["bad"] < 4: print("C09 MISMATCH", bad, "\n", json.dumps(inp))

def check(name, inp):
    (cmp_c08 if prop == "C08" else cmp_c09)(inp)
    return []
ctx.check = check
ctx.corr = lambda *a, **k: None
mod.generate(ctx)
print(prop, seed, tier, stats)
ctx.close()
