#!/bin/bash
# Mutation self-test of the ABS TIE 2 (tools/py2lean_abs2.py + lean/SCoda/Props/AbsTie2.lean).
#
# For each small semantic edit of a scratch COPY of the source: regenerate lean/SCoda/Gen/*.lean from the copy
# (SCODA_REPO=<copy> tools/gen_lean.py), check that Gen/AbsFns2.lean changed, and check that
# `lake build SCoda.Props.AbsTie2` FAILS (or that generation fails loudly).  On the unedited source it must PASS (checked
# first and last; the last run also restores the generated files).  /repo and /verif are never written.
#
#   usage: tools/test_py2lean_abs2.sh        (ORIG=<repo root> to translate another tree than /repo; since the repair of D41 the proofs are about the
#                                             repaired source, so ORIG must contain fix_D41.diff — m18 is "the repair reverted")
set -u
HERE="$(cd "$(dirname "$0")/.." && pwd)"
SCRATCH="${SCRATCH:-/root/work/t2abs/mut_scratch}"
PY=/venv/bin/python
ORIG="${ORIG:-/repo}"
fail=0

regen_and_build() {   # $1 = repo root to translate; prints PASS / FAIL(gen) / FAIL(build); log in $SCRATCH/last.log
  ( cd "$HERE" && SCODA_REPO="$1" $PY tools/gen_lean.py > "$SCRATCH/gen.json" 2>&1 )
  if $PY - "$SCRATCH/gen.json" <<'EOF'
import json, sys
r = json.load(open(sys.argv[1]))
sys.exit(0 if any(e["file"] == "AbsFns2.lean" for e in r["errors"]) else 1)
EOF
  then echo "FAIL(gen)"; return; fi
  if ( cd "$HERE/lean" && lake build SCoda.Props.AbsTie2 > "$SCRATCH/last.log" 2>&1 ); then echo "PASS"; else echo "FAIL(build)"; fi
}

mutant() {   # $1 = name, $2 = file below scoda/, $3 = python regex, $4 = replacement, $5 = description
  local name="$1" file="$2" pat="$3" rep="$4" desc="$5"
  local root="$SCRATCH/$name"
  rm -rf "$root"; mkdir -p "$root"; cp -r "$ORIG/scoda" "$root/scoda"
  if ! $PY - "$root/scoda/$file" "$pat" "$rep" <<'EOF'
import re, sys
path, pat, rep = sys.argv[1:4]
src = open(path).read()
new, n = re.subn(pat, rep, src, count=1, flags=re.S)
if n != 1 or new == src:
    sys.exit(1)
open(path, "w").write(new)
EOF
  then echo "$name: the edit did not apply (source changed?)"; fail=1; return; fi
  cp "$HERE/lean/SCoda/Gen/AbsFns2.lean" "$SCRATCH/AbsFns2.before"
  local res; res=$(regen_and_build "$root")
  local changed="generated text changed"
  cmp -s "$SCRATCH/AbsFns2.before" "$HERE/lean/SCoda/Gen/AbsFns2.lean" && changed="GENERATED TEXT UNCHANGED"
  local why=""
  if [ "$res" = "FAIL(build)" ]; then why=$(grep -m1 -o 'error: [^ ]*\.lean:[0-9]*' "$SCRATCH/last.log" | sed 's/error: //'); fi
  if [ "$res" = "FAIL(gen)" ]; then why=$($PY -c "import json;print([e['error'] for e in json.load(open('$SCRATCH/gen.json'))['errors'] if e['file']=='AbsFns2.lean'][0][:170])"); fi
  echo "$name: $desc"
  echo "    -> $changed; AbsTie2 build: $res  $why"
  if [ "$res" = "PASS" ] || [ "$changed" = "GENERATED TEXT UNCHANGED" ]; then echo "    !! MUTANT SURVIVED"; fail=1; fi
  rm -rf "$root"
}

mkdir -p "$SCRATCH"
echo "== original source ($ORIG)"
t0=$(date +%s); r=$(regen_and_build "$ORIG"); t1=$(date +%s)
echo "original: AbsTie2 build: $r ($((t1 - t0)) s)"
[ "$r" = "PASS" ] || { echo "!! the unedited source does not pass"; fail=1; }

echo "== semantic edits of translated functions (each must change the generated text and break a theorem)"
mutant m1_cutoff_ge sequences/absolute_sequence.py \
  'message_pairing\[0\]\.time > maximum_length' 'message_pairing[0].time >= maximum_length' \
  "cutoff: note length  >  ->  >=  maximum_length"
mutant m2_cutoff_alias_target sequences/absolute_sequence.py \
  'message_pairing\[1\]\.time = message_pairing\[0\]\.time \+ reduced_length' 'message_pairing[0].time = message_pairing[1].time - reduced_length' \
  "cutoff: the store through the alias goes to the note-on instead of the note-off"
mutant m3_cutoff_no_sort sequences/absolute_sequence.py \
  'message_pairing\[0\]\.time \+ reduced_length\n\n\s*self\.normalise_absolute\(\)' 'message_pairing[0].time + reduced_length' \
  "cutoff: final normalise_absolute() dropped"
mutant m4_pairings_always_impute sequences/absolute_sequence.py \
  'if msg\.note in open_messages\[msg\.channel\] and impute_notes:' 'if msg.note in open_messages[msg.channel]:' \
  "get_message_pairings: a repeated note-on closes the open note even without impute_notes"
mutant m5_pairings_index sequences/absolute_sequence.py \
  'open_messages\[msg\.channel\]\[msg\.note\] = len\(message_pairings\[msg\.channel\]\) - 1' 'open_messages[msg.channel][msg.note] = len(message_pairings[msg.channel])' \
  "get_message_pairings: index of the open pairing off by one"
mutant m6_pairings_key sequences/absolute_sequence.py \
  'message_pairings\.setdefault\(msg\.channel, \[\]\)' 'message_pairings.setdefault(0, [])' \
  "get_message_pairings: setdefault on channel 0 instead of the message's channel (dict insertion order / KeyError)"
mutant m7_fmd_le misc/util.py \
  'if candidate_distance < distance:' 'if candidate_distance <= distance:' \
  "find_minimal_distance: ties go to the later candidate"
mutant m8_times_of_type sequences/absolute_sequence.py \
  'timings\.append\(\(msg\.time, msg\)\)' 'timings.insert(0, (msg.time, msg))' \
  "get_message_times_of_type: result in reverse order (outside the subset of list.insert on tuples or a changed order)"
mutant m9_merge_no_sort sequences/absolute_sequence.py \
  'self\._add_message_unsorted\(msg\)\n\n\s*self\.normalise_absolute\(\)' 'self._add_message_unsorted(msg)' \
  "merge: final normalise_absolute() dropped"

mutant m13_interleaved_le sequences/absolute_sequence.py \
  "track_val_times = \[channel_nxt_times\[i\] if channel_cur_index\[i\] < channel_max_index\[i\] else float\('inf'\)" "track_val_times = [channel_nxt_times[i] if channel_cur_index[i] <= channel_max_index[i] else float('inf')" \
  "get_interleaved_message_pairings: exhausted channels are still candidates (<  ->  <=)"
mutant m14_equals_and sequences/absolute_sequence.py \
  'if self_msg\.note != other_msg\.note or self_msg_value != other_msg_value:' 'if self_msg.note != other_msg.note and self_msg_value != other_msg_value:' \
  "equals: notes differ only if pitch AND length differ (or -> and)"
mutant m15_revert_has_next_fix sequences/absolute_sequence.py \
  'has_next = any\(channel_cur_index\[i\] < channel_max_index\[i\] for i in range\(len\(channel_pairings_list\)\)\)' 'has_next = len(channel_pairings_list) > 0' \
  "get_interleaved_message_pairings: the fix 1462441 REVERTED (IndexError when no channel has a pairing; interleaved_eq must break)"

echo "== quantise / quantise_note_lengths (theorems quantise_eq / quantiseNoteLengths_eq must break)"
mutant m16_quantise_lt sequences/absolute_sequence.py \
  'if not position - note_open_timing <= 0:' 'if not position - note_open_timing < 0:' \
  "quantise: a note-off may land on its note-on (<= 0  ->  < 0)"
mutant m17_qnl_ge sequences/absolute_sequence.py \
  'if possible_correction > 0 and do_not_extend and note_value in valid_durations:' 'if possible_correction >= 0 and do_not_extend and note_value in valid_durations:' \
  "quantise_note_lengths: do_not_extend also forbids the exact length (> 0  ->  >= 0)"

mutant m18_revert_d41_repair sequences/absolute_sequence.py \
  '(step_sizes = get_default_step_sizes\(\)\n\n(?:[ \t]*#[^\n]*\n)*)[ \t]*self\.normalise_absolute\(\)\n' '\1' \
  "quantise: the repair of D41 REVERTED (no normalise_absolute() before the walk: the stored order is walked; quantise_eq against quantiseS must break)"

echo "== edits that leave the subset / break a checked fact (generation must fail loudly)"
mutant m10_alias_container sequences/absolute_sequence.py \
  'valid_positions \+= possible_positions\n(\s*)message_to_append\.time = valid_positions\[find_minimal_distance\(message_original_time, valid_positions\)\]\n\n(\s*)# Check if note was' \
  'valid_positions = possible_positions\n\1message_to_append.time = valid_positions[find_minimal_distance(message_original_time, valid_positions)]\n\n\2# Check if note was' \
  "quantise: 'valid_positions = possible_positions' makes two names for one list that is later appended to (containers are values: refused)"
mutant m11_message_eq elements/message.py \
  '    def copy\(self\) -> Message:' '    def __eq__(self, other):\n        return self.equivalent(other)\n\n    def copy(self) -> Message:' \
  "Message gets an __eq__ (the translation compares messages by identity: a checked fact)"
mutant m12_loopvar_alias sequences/absolute_sequence.py \
  'for pairing in message_pairings\[channel\]:' 'for pairing in list(message_pairings[channel]):' \
  "get_message_pairings: the closing loop appends to pairings reached through a copied list (write-back impossible: refused)"

echo "== original source again (restores the generated files)"
r=$(regen_and_build "$ORIG")
echo "original: AbsTie2 build: $r"
[ "$r" = "PASS" ] || { echo "!! the unedited source does not pass"; fail=1; }
rm -rf "$SCRATCH"
[ $fail = 0 ] && echo "SELF-TEST OK: every edit changed the generated text and broke the build (or generation); the original passes" || echo "SELF-TEST FAILED"
exit $fail
