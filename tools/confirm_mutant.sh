#!/bin/bash
# usage: confirm_mutant.sh <worktree>  — confirm: suite passes with the change; demo fails with, passes without
wt=$1
cd $wt || exit 2
git diff -- scoda > /tmp/confirm_$$.diff
[ -s /tmp/confirm_$$.diff ] || { echo "$wt: no change applied"; exit 2; }
suite=$(PYTHONPATH=$wt /venv/bin/python -m pytest -q -p no:cacheprovider --timeout=900 2>&1 | tail -1)
PYTHONPATH=$wt /venv/bin/python demo.py > /tmp/confirm_$$.with 2>&1; with=$?
git checkout -- scoda
PYTHONPATH=$wt /venv/bin/python demo.py > /tmp/confirm_$$.without 2>&1; without=$?
git apply /tmp/confirm_$$.diff
echo "$wt: suite=[$suite] demo_with_change_exit=$with demo_without_change_exit=$without"
rm -f /tmp/confirm_$$.*
