#!/bin/bash
# Mutation self-test of the identity tie of to_absolute_sequence / to_relative_sequence / normalise_relative / pad
# (tools/py2lean_heap3.py + lean/SCoda/Props/HeapTie3.lean).
#
# For each small IDENTITY-CHANGING edit of a scratch COPY of the S-Coda source: regenerate lean/SCoda/Gen/HeapFns3.lean from the copy, check
# that the generated text changed (or that generation failed loudly: the edit was refused), and check that `lake build SCoda.Props.HeapTie3`
# FAILS.  On the unedited source it must PASS (checked first and last; the last run also restores the generated file).
# /repo and /verif are never written; scratch copies live under $SCRATCH (default <framework>/../src/mut_heap3) and are removed.
#
#   usage: [ORIG=<source root, default /repo>] tools/test_py2lean_heap3.sh      (works on the copy of the framework it lives in)
#
# Value-only edits (another sort key, another wait time) are NOT expected to break this tie: it is about identities; values are tied by
# Props/ViewTie.lean, RelTie2.lean, SortTie.lean.
set -u
HERE="$(cd "$(dirname "$0")/.." && pwd)"
SCRATCH="${SCRATCH:-$HERE/../src/mut_heap3}"
PY=/venv/bin/python
ORIG="${ORIG:-/repo}"
fail=0

regen_and_build() {   # $1 = repo root to translate; prints PASS / FAIL(gen) / FAIL(build)
  if ! ( cd "$HERE" && SCODA_REPO="$1" $PY tools/py2lean_heap3.py > "$SCRATCH/HeapFns3.new" 2> "$SCRATCH/gen.err" ); then echo "FAIL(gen)"; return; fi
  cp "$SCRATCH/HeapFns3.new" "$HERE/lean/SCoda/Gen/HeapFns3.lean"
  if ( cd "$HERE/lean" && lake build SCoda.Props.HeapTie3 > "$SCRATCH/last.log" 2>&1 ); then echo "PASS"; else echo "FAIL(build)"; fi
}

report() {   # $1 = name, $2 = description, $3 = root
  local name="$1" desc="$2" root="$3"
  cp "$HERE/lean/SCoda/Gen/HeapFns3.lean" "$SCRATCH/HeapFns3.before"
  local res; res=$(regen_and_build "$root")
  local changed="generated text changed"
  cmp -s "$SCRATCH/HeapFns3.before" "$HERE/lean/SCoda/Gen/HeapFns3.lean" && changed="GENERATED TEXT UNCHANGED"
  local why=""
  if [ "$res" = "FAIL(build)" ]; then why=$(grep -m1 -o 'error: [^ ]*\(HeapTie3\|HeapTie3L\|HeapFns3\).lean:[0-9]*' "$SCRATCH/last.log" | sed 's/error: //'); fi
  if [ "$res" = "FAIL(gen)" ]; then why="refused: $(tail -1 "$SCRATCH/gen.err" | cut -c1-200)"; changed="generation refused"; fi
  echo "$name: $desc"
  echo "    -> $changed; HeapTie3 build: $res  $why"
  if [ "$res" = "PASS" ] || [ "$changed" = "GENERATED TEXT UNCHANGED" ]; then echo "    !! MUTANT SURVIVED"; fail=1; fi
  rm -rf "$root"
}

mutant() {   # $1 = name, $2 = file below scoda/, $3 = python regex, $4 = replacement, $5 = description
  local name="$1" file="$2" pat="$3" rep="$4" desc="$5"
  local root="$SCRATCH/$name"
  rm -rf "$root"; mkdir -p "$root"; cp -r "$ORIG/scoda" "$root/scoda"
  if ! $PY - "$root/scoda/$file" "$pat" "$rep" <<'PYEOF'
import re, sys
path, pat, rep = sys.argv[1:4]
src = open(path).read()
new, n = re.subn(pat, rep, src, count=1, flags=re.S)
if n != 1 or new == src:
    sys.exit(1)
open(path, "w").write(new)
PYEOF
  then echo "$name: the edit did not apply (source changed?)"; fail=1; return; fi
  report "$name" "$desc" "$root"
}

patched() {   # $1 = name, $2 = patch file, $3 = description
  local name="$1" pf="$2" desc="$3"
  local root="$SCRATCH/$name"
  rm -rf "$root"; mkdir -p "$root"; cp -r "$ORIG/scoda" "$root/scoda"
  if ! patch -s -p1 -d "$root" < "$pf" > /dev/null 2>&1; then echo "$name: the patch did not apply (source changed?)"; fail=1; return; fi
  report "$name" "$desc" "$root"
}

mkdir -p "$SCRATCH"
echo "== original source ($ORIG)"
t0=$(date +%s); r=$(regen_and_build "$ORIG"); t1=$(date +%s)
echo "original: HeapTie3 build: $r ($((t1 - t0)) s)"
[ "$r" = "PASS" ] || { echo "!! the unedited source does not pass"; fail=1; }

R=sequences/relative_sequence.py
A=sequences/absolute_sequence.py
echo "== RelativeSequence.to_absolute_sequence"
mutant b1_toabs_no_copy $R \
  'message_to_add = msg\.copy\(\)\n(\s+)message_to_add\.time = current_point_in_time' 'message_to_add = msg\n\1message_to_add.time = current_point_in_time' \
  "conversion without .copy(): the absolute time is written into the RECEIVER's message object, which is shared with the result"
mutant b2_toabs_shares_list $R \
  'absolute_sequence = AbsoluteSequence\(\)' 'absolute_sequence = AbsoluteSequence(self._messages)' \
  "the new AbsoluteSequence starts with the receiver's message objects (the result is not made of new messages only)"
mutant b3_toabs_returns_sorted_self $R \
  'absolute_sequence\.normalise_absolute\(\)' 'absolute_sequence.normalise_absolute()\n        self._messages.append(Message(message_type=MessageType.INTERNAL))' \
  "to_absolute_sequence appends a message to the RECEIVER's list (a write of the receiver's list cell)"
echo "== AbsoluteSequence.to_relative_sequence"
mutant b4_torel_no_copy $A \
  'message_to_add = msg\.copy\(\)\n(\s+)message_to_add\.time = None' 'message_to_add = msg\n\1message_to_add.time = None' \
  "conversion without .copy(): time = None is written into the receiver's message object, which is shared with the result"
mutant b5_torel_writes_source $A \
  '(message_to_add = msg\.copy\(\)\n)(\s+)' '\1\2msg.time = current_point_in_time\n\2' \
  "the receiver's message is re-timed while it is copied"
mutant b6_torel_receiver_grows $A \
  'relative_sequence\.add_message\(message_to_add\)' 'self._messages.append(message_to_add)' \
  "the copies are appended to the receiver (must be refused: the loop mutates the list it iterates)"
echo "== RelativeSequence.pad"
mutant b7_pad_mutates_wait $R \
  '(current_length \+= msg\.time\n)(\s+)(if current_length >= padding_length)' '\1\2msg.time = current_length\n\2\3' \
  "pad writes the time of the receiver's own WAIT objects (lengthening in place instead of appending)"
mutant b8_pad_inserts_front $R \
  'self\._messages\.append\(\s*Message\(message_type=MessageType\.WAIT, channel=default_channel, time=padding_length - current_length\)\)' 'self._messages.insert(0, Message(message_type=MessageType.WAIT, channel=default_channel, time=padding_length - current_length))' \
  "the padding wait is put in FRONT of the list, not appended (pad_shape fails)"
mutant b9_pad_two_messages $R \
  '(self\._messages\.append\(\s*Message\(message_type=MessageType\.WAIT, channel=default_channel, time=padding_length - current_length\)\))' '\1\n            self._messages.append(Message(message_type=MessageType.WAIT, channel=default_channel, time=0))' \
  "pad appends two new messages"
echo "== RelativeSequence.normalise_relative"
mutant b10_norm_reuses_wait $R \
  '(wait_buffer \+= msg\.time\n)' '\1                msg.time = wait_buffer\n' \
  "normalise consolidates waits by writing the running total into the receiver's WAIT objects"
mutant b11_norm_keeps_list_object $R \
  'self\._messages = messages_normalized' 'self._messages.extend(messages_normalized)' \
  "the normalised messages are appended to the old list instead of replacing it"
mutant b12_norm_copies_kept $R \
  'messages_normalized\.append\(msg\)' 'messages_normalized.append(msg.copy())' \
  "the kept messages are COPIES, not the receiver's own objects"
mutant b13_norm_alias_unsaved $R \
  'note_list\.append\(msg\)\n\s+open_messages\[msg\.channel\]\[msg\.note\] = note_list' 'note_list.append(msg)' \
  "the list stored in the dict is mutated without the store-back (must be refused: value semantics of an aliased list)"
echo "== callees"
mutant b14_insort_appends misc/util.py \
  'collection\.insert\(lo, message\)' 'collection.append(message)' \
  "binary_insort appends (must be refused or break the tie: list references support insert only)"
echo "== original source again (restores the generated file)"
r=$(regen_and_build "$ORIG")
echo "original: HeapTie3 build: $r"
[ "$r" = "PASS" ] || { echo "!! the unedited source does not pass"; fail=1; }
rm -rf "$SCRATCH"
[ $fail = 0 ] && echo "SELF-TEST OK: every edit changed the generated text (or was refused) and broke the build; the original passes" || echo "SELF-TEST FAILED"
exit $fail

