#!/usr/bin/env python3
"""add_clause.py <Cxx> <lean module> <clause text> <thm> [<thm> ...] — append a clause to harness/props/Cxx.py CLAUSES and the module to LEAN_MODULE"""
import json
import re
import sys

prop, module, text, thms = sys.argv[1], sys.argv[2], sys.argv[3], sys.argv[4:]
p = f"/verif/harness/props/{prop}.py"
s = open(p).read()
i = s.index("CLAUSES = [")
j = s.index("\n]\n", i)
entry = "    (" + repr(text) + ",\n     " + json.dumps(thms) + "),\n"
s = s[:j + 1] + entry + s[j + 1:]
m = re.search(r"^LEAN_MODULE = (\[.*?\]|\".*?\")$", s, flags=re.M)
mods = eval(m.group(1))
if isinstance(mods, str):
    mods = [mods]
if module not in mods:
    mods.append(module)
s = s[:m.start()] + "LEAN_MODULE = " + repr(mods).replace("'", '"') + s[m.end():]
open(p, "w").write(s)
print(prop, "clauses +1; modules", mods)
