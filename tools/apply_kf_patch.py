#!/usr/bin/env python3
"""apply_kf_patch.py <kf_patch.json> — merge a findings patch ({"add": [...], "update": {id: fields}}) into known_findings.json"""
import json
import sys
kf = json.load(open('/verif/known_findings.json'))
p = json.load(open(sys.argv[1]))
ids = {f['id'] for f in kf['findings']}
for f in kf['findings']:
    if f['id'] in p.get('update', {}):
        f.update(p['update'][f['id']])
for a in p.get('add', []):
    assert a['id'] not in ids, a['id']
    kf['findings'].append(a)
json.dump(kf, open('/verif/known_findings.json', 'w'), indent=1)
print('applied', [a['id'] for a in p.get('add', [])], list(p.get('update', {})))
