#!/venv/bin/python
"""Differential check of the TRANSLATOR tools/py2lean_tok.py: the generated Lean functions of Gen/TokFns.lean are run
(`lake env lean`, `#eval`) on random inputs and compared with what the real implementation in SCODA_REPO (default /repo)
does on the same inputs — including ill-formed ones (unsorted / empty / negative / three-digit step sizes and note values,
odd velocity-bin counts, ill-formed relative sequences, junk token strings, state dictionaries with missing keys).

    /venv/bin/python tools/diff_py2lean_tok.py [configurations] [seed]

Every configuration goes through the translated `__init__` (`tokInit`), so each case also checks `_construct_dictionary`.
This is sampling; it checks the translation conventions and the LINK table (Model/TokLib.lean), not the hand models: those
are tied to the generated functions by the theorems of Props/TokTie.lean.
"""
import math
import os
import random
import subprocess
import sys

REPO = os.environ.get("SCODA_REPO", "/repo")
HERE = os.path.join(os.path.dirname(os.path.abspath(__file__)), "..")
sys.path.insert(0, REPO)
sys.path.insert(0, os.path.join(HERE, "harness"))

import gens                                                       # noqa: E402
from protocol import from_real                                   # noqa: E402
from pyimpl import seq_of_rel                                     # noqa: E402
from scoda.exceptions.tokenisation_exception import TokenisationException  # noqa: E402
from scoda.tokenisation.notelike_tokenisation import MultiTrackLargeVocabularyNotelikeTokeniser as Tokeniser  # noqa: E402

ERR = {TokenisationException: "TokenisationException", IndexError: "IndexError", KeyError: "KeyError",
       ValueError: "ValueError", ZeroDivisionError: "ZeroDivisionError", NotImplementedError: "NotImplementedError",
       StopIteration: "StopIteration"}
MT = ["internal", "sequenceControl", "keySignature", "timeSignature", "controlChange", "programChange", "noteOff", "noteOn", "wait"]
STATE_KEYS = ["cur_time", "cur_time_bar", "cur_time_signature_numerator", "cur_time_signature_denominator",
              "cur_bar_capacity_remaining", "prv_track", "prv_value", "prv_velocity"]


def L_int(v):
    if v is None:
        return "pyNone"
    return f"({v})" if v < 0 else str(v)


def L_bool(b):
    return "true" if b else "false"


def L_ints(l):
    return "[" + ", ".join(L_int(v) for v in l) + "]"


def L_opt(v, f):
    return "none" if v is None else f"(some {f(v)})"


def L_str(s):
    return '"' + s.replace("\\", "\\\\").replace('"', '\\"') + '"'


def L_strs(l):
    return "[" + ", ".join(L_str(s) for s in l) + "]"


def L_msg(p):
    ty, ch, time, note, vel, ctl, prog, num, den, key = p
    return ("{ ty := MType.%s, ch := %s, time := %s, note := %s, vel := %s, ctl := %s, prog := %s, num := %s, den := %s, key := %s }"
            % (MT[ty], L_int(ch), L_int(time), L_int(note), L_int(vel), L_int(ctl), L_int(prog), L_int(num), L_int(den), L_int(key)))


def L_rel(ps):
    return "(LSeq.rel [" + ", ".join(L_msg(p) for p in ps) + "])"


def p_int(v):
    return "N" if v is None else str(v)


def p_msg(p):
    return ",".join(p_int(x) for x in p)


def guarded(f):
    try:
        return f()
    except tuple(ERR) as e:
        return "ERR " + ERR[type(e)]


# ---------------------------------------------------------------------------------------------- random inputs

def rand_cfg(rng, wild):
    n_tracks = rng.choice([1, 1, 2, 3])
    # ppqn: the object's own value is used for the bar capacities, the module constant PPQN for imputed note-offs (audit 4 C6);
    # 12 / 48 / 96 occur in EVERY third of the configurations (scaled valid pieces: `rand_tracks`), odd values in the wild ones
    kw = dict(ppqn=rng.choice([None, None, 24, 12, 48, 96, 7] if wild else [None, 24, 12, 48, 96]),
              num_tracks=n_tracks if not (wild and rng.random() < 0.1) else rng.choice([0, -1, 4]),
              pitch_range=rng.choice([(60, 62), (59, 64), (21, 30), (100, 108)]) if not (wild and rng.random() < 0.15)
              else rng.choice([(62, 60), (-2, 1), (98, 101), (0, 3)]),
              step_sizes=None, note_values=None,
              # velocity_bins: the link is the translated `get_velocity_bins` (Model/TokLib3.lean), every int: counts above the
              # former 64-row table (65 … 128), counts whose bins repeat 127 (D16b), 0 (ZeroDivisionError) and negative counts
              velocity_bins=rng.choice([1, 1, 2, 3, 4, 5, 8] + ([15, 16, 17, 19, 20, 33, 64, 65, 100, 127, 128, 0, -1, -3] if wild
                                                                 else [32, 65, 96, 128])),
              time_signature_range=rng.choice([(2, 16), (2, 16), (1, 4), (6, 12)]) if not (wild and rng.random() < 0.15)
              else rng.choice([(5, 3), (-1, 2), (98, 101), (0, 20)]),
              flag_running_values=rng.random() < 0.5, flag_fuse_track=rng.random() < 0.5,
              flag_fuse_value=rng.random() < 0.5, flag_fuse_velocity=rng.random() < 0.5,
              flag_simplify_time_signature=rng.random() < 0.5)
    r = rng.random()
    if r < 0.5:
        kw["step_sizes"] = rng.choice([[2, 4, 8, 16], [24, 12, 6, 3], [1, 2, 3], [6, 12], [3]])
    if wild and r < 0.2:
        kw["step_sizes"] = rng.choice([[], [5, 2, 2, 7], [-3, 4], [100, 2, 300], [0, 4], [12, 6, 12]])
    r = rng.random()
    if r < 0.5:
        kw["note_values"] = rng.choice([[2, 4, 8, 16], [24, 12, 6], [6, 12, 18, 36], [1, 2, 3, 4], [12]])
    if wild and r < 0.2:
        kw["note_values"] = rng.choice([[], [9, 3, 3], [-2, 4], [100, 4, 250], [0, 6]])
    # repeated entries in the user-supplied lists (finding D31; `__init__` stores sorted(set(…)) since its repair): positive values, so
    # that tokenise / detokenise / encode / decode are exercised on these configurations as well
    if rng.random() < 0.2:
        kw["step_sizes"] = rng.choice([[4, 4, 8], [2, 2, 2], [8, 4, 8, 4], [12, 6, 12], [3, 1, 2, 3, 1], [24, 24]])
    if rng.random() < 0.2:
        kw["note_values"] = rng.choice([[12, 12, 24], [6, 6], [24, 12, 6, 12, 24], [4, 8, 4], [36, 18, 36, 9, 9]])
    # many bins fused into the note tokens multiply the vocabulary (dicts are association lists on the Lean side): keep it small
    if kw["velocity_bins"] > 33 and kw["flag_fuse_velocity"]:
        kw["pitch_range"] = rng.choice([(60, 61), (60, 60)])
        kw["num_tracks"] = 1
        kw["note_values"] = rng.choice([[12], [6, 12], [24, 48], [12, 12, 24]])
    return kw


def has_dup(kw):
    return any(l is not None and len(set(l)) != len(l) for l in (kw["step_sizes"], kw["note_values"]))


def L_cfg(kw):
    return (f"tokInit {L_opt(kw['ppqn'], L_int)} {L_int(kw['num_tracks'])} ({L_int(kw['pitch_range'][0])}, {L_int(kw['pitch_range'][1])}) "
            f"{L_opt(kw['step_sizes'], L_ints)} {L_opt(kw['note_values'], L_ints)} {L_int(kw['velocity_bins'])} "
            f"({L_int(kw['time_signature_range'][0])}, {L_int(kw['time_signature_range'][1])}) "
            f"{L_bool(kw['flag_running_values'])} {L_bool(kw['flag_fuse_track'])} {L_bool(kw['flag_fuse_value'])} "
            f"{L_bool(kw['flag_fuse_velocity'])} {L_bool(kw['flag_simplify_time_signature'])}")


def build(kw):
    kw = dict(kw)
    kw["step_sizes"] = None if kw["step_sizes"] is None else list(kw["step_sizes"])
    kw["note_values"] = None if kw["note_values"] is None else list(kw["note_values"])
    return Tokeniser(**kw)


def rand_tracks(rng, tk, wild):
    n = tk.num_tracks if rng.random() < 0.93 else rng.choice([0, 1, 2, 3])
    n = max(n, 0)
    r = rng.random()
    if r < 0.7 and tk.step_sizes and tk.note_values and all(s > 0 for s in tk.step_sizes) and tk.ppqn in (12, 24, 48, 96):
        lo, hi = tk.pitch_range
        if wild and rng.random() < 0.2:
            lo, hi = lo - 1, hi + 1
        if lo > hi:
            lo, hi = hi, lo
        # a piece on the bar grid of ppqn 24 (gens.gen_piece), every tick scaled by ppqn / 24: a valid piece for the tokeniser's
        # own ppqn whenever its step sizes / note values are multiples of that factor (otherwise a piece off the bar grid)
        q = tk.ppqn
        steps = [s * 24 // q for s in tk.step_sizes if s > 0 and (s * 24) % q == 0 and (q >= 24 or (s * 24 // q) % (24 // q) == 0)]
        values = [v * 24 // q for v in tk.note_values if v > 0 and (v * 24) % q == 0 and (q >= 24 or (v * 24 // q) % (24 // q) == 0)]
        scaled = bool(steps) and bool(values) and rng.random() < 0.8
        if not scaled:
            steps, values = [s for s in tk.step_sizes if s > 0], [v for v in tk.note_values if v > 0] or [4]
        piece = gens.gen_piece(rng, n_tracks=max(n, 1), n_bars=rng.randint(1, 3), steps=steps, values=values, pitch_range=(lo, hi),
                               tail_ok=rng.random() < 0.3, unequal=rng.random() < 0.3)
        tracks = piece["tracks"][:n]
        if scaled and q != 24 and all(p[2] is None or (p[2] * q) % 24 == 0 for tr in tracks for p in tr):
            tracks = [[tuple(x if i != 2 or x is None else x * q // 24 for i, x in enumerate(p)) for p in tr] for tr in tracks]
        return tracks
    if r < 0.88:
        return [gens.gen_ill_rel(rng, channels=(0, 1), pitches=(tk.pitch_range[0], tk.pitch_range[0] + 1, 60, 61)) for _ in range(n)]
    a, _ = gens.gen_wf_abs(rng, max_tick=96, grid=rng.choice([1, 2, 3, 6]), max_dur=24)
    return [gens.abs_to_rel(a)] + [[] for _ in range(n - 1)] if n > 0 else []


def rand_state(rng):
    r = rng.random()
    if r < 0.55:
        return None
    if r < 0.62:
        return {}
    full = dict(zip(STATE_KEYS, [rng.choice([0, 96, 100, 7]), rng.choice([0, 0, 12, 95]), rng.choice([8, 4, 3, 6, 0, -3]),
                                 rng.choice([8, 4, 4, 8, 2, 0, -4]), rng.choice([96, 48, 0, 12, -5]), rng.choice([-1, 0, 1]),
                                 rng.choice([-1, 12, 4]), rng.choice([-1, 127, 64])]))
    if r < 0.8:
        return full
    keys = [k for k in STATE_KEYS if rng.random() < 0.6] + (["other"] if rng.random() < 0.3 else [])
    rng.shuffle(keys)
    return {k: full.get(k, 5) for k in keys}


def rand_tokens(rng, tk, wild):
    vocab = list(tk.dictionary.keys())
    out = []
    for _ in range(rng.randint(0, 12)):
        r = rng.random()
        if r < 0.75 or not wild:
            out.append(rng.choice(vocab))
        elif r < 0.85:
            out.append(rng.choice(["pit_060", "trk_01-pit_061-val_12-vel_127", "val_12-pit_060-trk_00", "rst_05", "rst_100",
                                   "tsg_03_04", "tsg_06_08", "tsg_04_00", "tsg_00_08", "trk_07", "trk_01-trk_00-pit_060",
                                   "vel_064", "val_07", "bar-rst_02", "pad_x_y", "pit_060-pit_061"]))
        else:
            out.append(rng.choice(["", "-", "_", "rst", "rst_", "rst_x", "pit", "tsg_04", "nte_01", "xyz", "rst_+5", "rst_ 5",
                                   "trk_01-", "-pit_060", "rst_1_2_3", "pit_6_0", "tsg_x_8", "sta-sto", "rst_-5"]))
    return out


# ---------------------------------------------------------------------------------------------- expected values

def fmt_dict(d):
    return " ".join(f"{k}={v}" for k, v in d.items())


def exp_vocab(kw):
    def f():
        t = build(kw)
        return (f"{t.dictionary_size} | {fmt_dict(t.dictionary)} | {fmt_dict(t.inverse_dictionary)} | {t.ppqn} "
                f"{t.step_sizes} {t.note_values} {t.velocity_bins}").replace(",", "")
    return guarded(f)


def exp_tokenise(kw, tracks, ibt, frts, state):
    def f():
        t = build(kw)
        sd = None if state is None else dict(state)
        toks = t.tokenise([seq_of_rel(tr) for tr in tracks], insert_bar_token=ibt, flag_running_time_signature=frts, state_dict=sd)
        return " ".join(toks) + " | " + ("-" if sd is None else fmt_dict(sd))
    return guarded(f)


def exp_detokenise(kw, toks):
    def f():
        seqs = build(kw).detokenise(list(toks))
        return " ".join("[" + ";".join(p_msg(from_real(m)) for m in s.abs._messages) + "]" for s in seqs)
    return guarded(f)


def exp_encode(kw, toks):
    return guarded(lambda: " ".join(str(i) for i in build(kw).encode(list(toks))))


def exp_decode(kw, ids):
    return guarded(lambda: " ".join(build(kw).decode(list(ids))))


def exp_info(kw, toks, impute):
    def f():
        info = build(kw).get_info(list(toks), flag_impute_values=impute)

        def o(x):
            return "nan" if isinstance(x, float) and math.isnan(x) else str(x)
        return " | ".join(" ".join(o(x) for x in info[k]) for k in
                          ["info_position", "info_time", "info_time_bar", "info_pitch", "info_circle_of_fifths"])
    return guarded(f)


PRELUDE = r'''
import SCoda.Gen.TokFns
open SCoda SCoda.TokLib SCoda.Gen.Tok

def pI (v : Int) : String := if v == pyNone then "N" else toString v
def pMsg (m : Msg) : String :=
  ",".intercalate [toString m.ty.rank, pI m.ch, pI m.time, pI m.note, pI m.vel, pI m.ctl, pI m.prog, pI m.num, pI m.den, pI m.key]
def pE {α} (f : α → String) : Except PyErr α → String
  | .ok a => f a
  | .error e => "ERR " ++ e.name
def pInts (l : List Int) : String := "[" ++ " ".intercalate (l.map toString) ++ "]"
def pDictSI (d : List (String × Int)) : String := " ".intercalate (d.map (fun kv => kv.1 ++ "=" ++ toString kv.2))
def pDictIS (d : List (Int × String)) : String := " ".intercalate (d.map (fun kv => toString kv.1 ++ "=" ++ kv.2))
def pVocab (o : TokObj) : String :=
  toString o.dictionarySize_ ++ " | " ++ pDictSI o.dictionary ++ " | " ++ pDictIS o.inverseDictionary ++ " | " ++ toString o.ppqn
    ++ " " ++ pInts o.stepSizes ++ " " ++ pInts o.noteValues ++ " " ++ pInts o.velocityBins
def pOpt (o : Option Int) : String := match o with | some v => toString v | none => "nan"
def withObj (c : Except PyErr TokObj) (f : TokObj → String) : String :=
  match c with | .ok o => f o | .error e => "ERR " ++ e.name
def pTok (stateGiven : Bool) (r : List (String × Int) × List String) : String :=
  " ".intercalate r.2 ++ " | " ++ (if stateGiven then pDictSI r.1 else "-")
def pSeqs (l : List LSeq) : String := " ".intercalate (l.map (fun s => "[" ++ ";".intercalate (s.absOf.map pMsg) ++ "]"))
def pInfo (r : List Int × List Int × List Int × List (Option Int) × List (Option Int)) : String :=
  " | ".intercalate [" ".intercalate (r.1.map toString), " ".intercalate (r.2.1.map toString), " ".intercalate (r.2.2.1.map toString),
                     " ".intercalate (r.2.2.2.1.map pOpt), " ".intercalate (r.2.2.2.2.map pOpt)]
'''


def main():
    n = int(sys.argv[1]) if len(sys.argv) > 1 else 60
    rng = random.Random(int(sys.argv[2]) if len(sys.argv) > 2 else 20260930)
    cases = []     # (label, lean string expression, expected)
    n_dup = 0
    stats = {"ppqn": {}, "vb>64": 0, "vb<=0": 0, "tok_ok": {}}
    for i in range(n):
        wild = i % 3 == 2
        kw = rand_cfg(rng, wild)
        cfg = L_cfg(kw)
        ev = exp_vocab(kw)
        cases.append((f"vocab#{i} {kw}", f"withObj ({cfg}) pVocab", ev))
        n_dup += has_dup(kw)
        stats["ppqn"][kw["ppqn"]] = stats["ppqn"].get(kw["ppqn"], 0) + 1
        stats["vb>64"] += kw["velocity_bins"] > 64
        stats["vb<=0"] += kw["velocity_bins"] <= 0
        if ev.startswith("ERR"):
            continue
        tk = build(kw)
        # a step size <= 0 makes the real `_apply_rest` loop forever (rest value 0 or negative); the translation stops with FUEL
        for j in range(3 if all(x > 0 for x in tk.step_sizes) else 0):
            tracks = rand_tracks(rng, tk, wild)
            ibt = rng.random() < 0.8
            frts = rng.random() < 0.97
            state = rand_state(rng)
            st = "none" if state is None else "(some [" + ", ".join(f"({L_str(k)}, {L_int(v)})" for k, v in state.items()) + "])"
            lean = (f"withObj ({cfg}) (fun o => pE (pTok {L_bool(state is not None)}) (tokenise o [" + ", ".join(L_rel(t) for t in tracks)
                    + f"] {L_bool(ibt)} {L_bool(frts)} {st}))")
            want = exp_tokenise(kw, tracks, ibt, frts, state)
            if not want.startswith("ERR"):
                stats["tok_ok"][kw["ppqn"]] = stats["tok_ok"].get(kw["ppqn"], 0) + 1
            cases.append((f"tokenise#{i}.{j} {kw} tracks={tracks} ibt={ibt} frts={frts} state={state}", lean, want))
        for j in range(3):
            toks = rand_tokens(rng, tk, wild or j == 2)
            cases.append((f"detokenise#{i}.{j} {kw} {toks}", f"withObj ({cfg}) (fun o => pE pSeqs (detokenise o {L_strs(toks)}))",
                          exp_detokenise(kw, toks)))
            imp = rng.random() < 0.5
            cases.append((f"get_info#{i}.{j} {kw} {toks} impute={imp}",
                          f"withObj ({cfg}) (fun o => pE pInfo (getInfo o {L_strs(toks)} {L_bool(imp)}))", exp_info(kw, toks, imp)))
            cases.append((f"encode#{i}.{j} {kw} {toks}",
                          f"withObj ({cfg}) (fun o => pE (fun l => \" \".intercalate (l.map toString)) (encode o {L_strs(toks)}))",
                          exp_encode(kw, toks)))
        ids = [rng.randint(-1, tk.dictionary_size + 1) for _ in range(rng.randint(0, 6))]
        cases.append((f"decode#{i} {kw} {ids}",
                      f"withObj ({cfg}) (fun o => pE (fun l => \" \".intercalate l) (decode o {L_ints(ids)}))", exp_decode(kw, ids)))

    scratch = os.environ.get("SCRATCH", "/tmp/diff_py2lean_tok")
    os.makedirs(scratch, exist_ok=True)
    path = os.path.join(scratch, "DiffTok.lean")
    with open(path, "w") as fh:
        fh.write(PRELUDE)
        for k, (_, lean, _) in enumerate(cases):
            fh.write(f"#eval IO.println (\"@{k} \" ++ ({lean}))\n")
    res = subprocess.run(["lake", "env", "lean", path], cwd=os.path.join(HERE, "lean"), capture_output=True, text=True)
    got = {}
    for line in res.stdout.splitlines():
        if line.startswith("@"):
            k, _, rest = line[1:].partition(" ")
            got[int(k)] = rest
    bad = 0
    kinds = {}
    for k, (label, lean, want) in enumerate(cases):
        kind = label.split("#")[0]
        kinds.setdefault(kind, [0, 0, 0])
        kinds[kind][0] += 1
        if want.startswith("ERR"):
            kinds[kind][2] += 1
        if got.get(k) != want.rstrip() and got.get(k, "").rstrip() != want.rstrip():
            bad += 1
            kinds[kind][1] += 1
            if bad <= 12:
                print("DIFFERENCE", label)
                print("   python:", want[:600])
                print("   lean:  ", got.get(k, "<no output>")[:600])
    if res.returncode != 0 and not got:
        print(res.stdout[-3000:], res.stderr[-3000:])
    for kind, (tot, b, errs) in kinds.items():
        print(f"{kind}: {tot} cases ({errs} where the real code raises), {b} differences")
    print(f"configurations by ppqn: {stats['ppqn']}; velocity_bins > 64: {stats['vb>64']}, <= 0: {stats['vb<=0']}; "
          f"tokenise calls the real code accepts, by ppqn: {stats['tok_ok']}")
    print(f"configurations with a repeated entry in step_sizes / note_values: {n_dup} of {n}   (SCODA_REPO={REPO})")
    print(f"TOTAL {len(cases)} cases, {bad} differences")
    sys.exit(1 if bad else 0)


if __name__ == "__main__":
    main()
