#!/bin/bash
# Mutation self-test of the sort tie (tools/py2lean_sort.py + lean/SCoda/Props/SortTie.lean).
#
# For each small semantic edit of a scratch COPY of /repo/scoda: regenerate lean/SCoda/Gen/*.lean from the copy
# (SCODA_REPO=<copy> tools/gen_lean.py), check that Gen/SortFns.lean changed, and check that
# `lake build SCoda.Props.SortTie` FAILS (or that generation fails loudly).  On the unedited source it must PASS (checked
# first and last; the last run also restores the generated files).  /repo and /verif are never written; scratch copies are removed.
#
#   usage: tools/test_py2lean_sort.sh            (from anywhere; works on the copy of the framework it lives in)
set -u
HERE="$(cd "$(dirname "$0")/.." && pwd)"
SCRATCH="${SCRATCH:-$(cd "$HERE/.." && pwd)/src/scratch_mut_sort}"
PY=/venv/bin/python
ORIG=/repo
fail=0

regen_and_build() {   # $1 = repo root to translate; prints PASS / FAIL(gen) / FAIL(build); log in $SCRATCH/last.log
  ( cd "$HERE" && SCODA_REPO="$1" $PY tools/gen_lean.py > "$SCRATCH/gen.json" 2>&1 )
  if $PY - "$SCRATCH/gen.json" <<'EOF'
import json, sys
r = json.load(open(sys.argv[1]))
sys.exit(0 if any(e["file"] == "SortFns.lean" for e in r["errors"]) else 1)
EOF
  then echo "FAIL(gen)"; return; fi
  if ( cd "$HERE/lean" && lake build SCoda.Props.SortTie > "$SCRATCH/last.log" 2>&1 ); then echo "PASS"; else echo "FAIL(build)"; fi
}

mutant() {   # $1 = name, $2 = file below scoda/, $3 = python regex, $4 = replacement, $5 = description
  local name="$1" file="$2" pat="$3" rep="$4" desc="$5"
  local root="$SCRATCH/$name"
  rm -rf "$root"; mkdir -p "$root"; cp -r "$ORIG/scoda" "$root/scoda"
  if ! $PY - "$root/scoda/$file" "$pat" "$rep" <<'EOF'
import re, sys
path, pat, rep = sys.argv[1:4]
src = open(path).read()
new, n = re.subn(pat, rep, src, count=1, flags=re.S)
if n != 1 or new == src:
    sys.exit(1)
open(path, "w").write(new)
EOF
  then echo "$name: the edit did not apply (source changed?)"; fail=1; return; fi
  cp "$HERE/lean/SCoda/Gen/SortFns.lean" "$SCRATCH/SortFns.before"
  local res; res=$(regen_and_build "$root")
  local changed="generated text changed"
  cmp -s "$SCRATCH/SortFns.before" "$HERE/lean/SCoda/Gen/SortFns.lean" && changed="GENERATED TEXT UNCHANGED"
  local why=""
  if [ "$res" = "FAIL(build)" ]; then why=$(grep -m1 -o 'error: [^ ]*\(SortTie\|SortTieL\|SortFns\|SortLib\).lean:[0-9]*' "$SCRATCH/last.log" | sed 's/error: //'); fi
  if [ "$res" = "FAIL(gen)" ]; then why=$($PY -c "import json;print([e['error'] for e in json.load(open('$SCRATCH/gen.json'))['errors'] if e['file']=='SortFns.lean'][0][:170])"); fi
  echo "$name: $desc"
  echo "    -> $changed; SortTie build: $res  $why"
  if [ "$res" = "PASS" ] || [ "$changed" = "GENERATED TEXT UNCHANGED" ]; then echo "    !! MUTANT SURVIVED"; fail=1; fi
  rm -rf "$root"
}

mkdir -p "$SCRATCH"
echo "== original source"
t0=$(date +%s); r=$(regen_and_build "$ORIG"); t1=$(date +%s)
echo "original: SortTie build: $r ($((t1 - t0)) s)"
[ "$r" = "PASS" ] || { echo "!! the unedited source does not pass"; fail=1; }

ABSPY=sequences/absolute_sequence.py
MTPY=enumerations/message_type.py
echo "== semantic edits of AbsoluteSequence.sort (each must fail)"
mutant m1_key_order $ABSPY \
  'lambda x: \(x\.time, -1 if x\.channel is None else x\.channel,' 'lambda x: (-1 if x.channel is None else x.channel, x.time,' \
  "key: channel before time"
mutant m2_none_channel_zero $ABSPY \
  '-1 if x\.channel is None else x\.channel' '0 if x.channel is None else x.channel' \
  "key: a None channel sorts as 0 instead of -1"
mutant m3_dropped_note $ABSPY \
  'x\.message_type, x\.note\)\)' 'x.message_type))' \
  "key: the note component dropped (ties between notes keep their input order)"
mutant m4_dropped_type $ABSPY \
  'x\.message_type, x\.note\)\)' 'x.note))' \
  "key: the message_type component dropped"
mutant m5_reverse $ABSPY \
  'x\.message_type, x\.note\)\)' 'x.message_type, x.note), reverse=True)' \
  "list.sort(..., reverse=True)"
mutant m6_other_attribute $ABSPY \
  'x\.message_type, x\.note\)\)' 'x.message_type, x.velocity))' \
  "key: velocity instead of note"
mutant m7_is_not_none $ABSPY \
  '-1 if x\.channel is None else x\.channel' '-1 if x.channel is not None else x.channel' \
  "key: is None -> is not None (every channel becomes -1, a None channel stays None)"
mutant m8_time_only $ABSPY \
  'key=lambda x: \(x\.time, [^\n]*x\.note\)\)' 'key=lambda x: x.time)' \
  "key: the time alone (a single value, not a tuple)"
mutant m9_type_before_channel $ABSPY \
  '-1 if x\.channel is None else x\.channel, x\.message_type,' 'x.message_type, -1 if x.channel is None else x.channel,' \
  "key: message_type before channel"

echo "== semantic edits of MessageType (each must fail)"
mutant m10_lt_reversed $MTPY \
  'values\.index\(self\) < values\.index\(other\)' 'values.index(self) > values.index(other)' \
  "__lt__: < -> > (the enum order reversed)"
mutant m11_members_swapped $MTPY \
  '    NOTE_OFF = "note_off"\n    NOTE_ON = "note_on"' '    NOTE_ON = "note_on"\n    NOTE_OFF = "note_off"' \
  "NOTE_ON declared before NOTE_OFF (note-ons sort before note-offs on one tick)"
mutant m12_lt_operands $MTPY \
  'values\.index\(self\) < values\.index\(other\)' 'values.index(other) < values.index(self)' \
  "__lt__: operands swapped"
mutant m13_lt_le $MTPY \
  'values\.index\(self\) < values\.index\(other\)' 'values.index(self) <= values.index(other)' \
  "__lt__: < -> <= (X < X becomes True)"
mutant m14_lt_const $MTPY \
  'return values\.index\(self\) < values\.index\(other\)' 'return False' \
  "__lt__: constant False (all types tie)"

echo "== edits outside the subset (generation must fail loudly)"
mutant m15_key_not_lambda $ABSPY \
  'key=lambda x: \(x\.time, [^\n]*x\.note\)\)' 'key=operator.attrgetter("time"))' \
  "key is not a lambda"
mutant m16_sorted_builtin $ABSPY \
  'self\._messages\.sort\(key=' 'self._messages = sorted(self._messages, key=' \
  "self._messages = sorted(...) instead of the in-place sort"
mutant m17_enum_eq $MTPY \
  '    def __lt__\(self, other\):' '    def __eq__(self, other):\n        return True\n\n    def __lt__(self, other):' \
  "MessageType gets an __eq__ (tuple comparison would skip the type component)"
mutant m18_lt_value $MTPY \
  'return values\.index\(self\) < values\.index\(other\)' 'return self.value < other.value' \
  "__lt__ compares the string values (alphabetical order)"
mutant m19_key_arith $ABSPY \
  'lambda x: \(x\.time,' 'lambda x: (-x.time,' \
  "key: descending time by negation (arithmetic on a nullable field: outside the subset)"

echo "== original source again (restores the generated files)"
r=$(regen_and_build "$ORIG")
echo "original: SortTie build: $r"
[ "$r" = "PASS" ] || { echo "!! the unedited source does not pass"; fail=1; }
rm -rf "$SCRATCH"
[ $fail = 0 ] && echo "SELF-TEST OK: every edit changed the generated text and broke the build (or generation); the original passes" || echo "SELF-TEST FAILED"
exit $fail
