#!/bin/bash
# Mutation self-test of the second relative-sequence tie (tools/py2lean_rel2.py + lean/SCoda/Props/RelTie2.lean).
#
# For each small semantic edit of a scratch COPY of the source: regenerate lean/SCoda/Gen/*.lean from the copy
# (SCODA_REPO=<copy> tools/gen_lean.py), check that Gen/RelFns2.lean changed, and check that generation fails loudly
# (Untranslatable, incl. the flow check) or `lake build SCoda.Props.RelTie2` FAILS.  On the unedited source it must PASS
# (checked first and last; the last run also restores the generated files).  /repo and /verif are never written;
# scratch copies are removed.
#
#   usage: tools/test_py2lean_rel2.sh        (ORIG=<root containing scoda/> to test against a snapshot, default /repo)
set -u
HERE="$(cd "$(dirname "$0")/.." && pwd)"
SCRATCH="${SCRATCH:-/root/work/t1rel/scratch}"
PY=/venv/bin/python
ORIG="${ORIG:-/repo}"
fail=0

regen_and_build() {   # $1 = repo root to translate; prints PASS / FAIL(gen) / FAIL(build); log in $SCRATCH/last.log
  ( cd "$HERE" && SCODA_REPO="$1" $PY tools/gen_lean.py > "$SCRATCH/gen.json" 2>&1 )
  if $PY - "$SCRATCH/gen.json" <<'EOF'
import json, sys
r = json.load(open(sys.argv[1]))
sys.exit(0 if any(e["file"] == "RelFns2.lean" for e in r["errors"]) else 1)
EOF
  then echo "FAIL(gen)"; return; fi
  if ( cd "$HERE/lean" && lake build SCoda.Props.RelTie2 > "$SCRATCH/last.log" 2>&1 ); then echo "PASS"; else echo "FAIL(build)"; fi
}

mutant() {   # $1 = name, $2 = file below scoda/, $3 = python regex, $4 = replacement, $5 = description
  local name="$1" file="$2" pat="$3" rep="$4" desc="$5"
  local root="$SCRATCH/$name"
  rm -rf "$root"; mkdir -p "$root"; cp -r "$ORIG/scoda" "$root/scoda"
  if ! $PY - "$root/scoda/$file" "$pat" "$rep" <<'EOF'
import re, sys
path, pat, rep = sys.argv[1:4]
src = open(path).read()
new, n = re.subn(pat, rep, src, count=1, flags=re.S)
if n != 1 or new == src:
    sys.exit(1)
open(path, "w").write(new)
EOF
  then echo "$name: the edit did not apply (source changed?)"; fail=1; return; fi
  cp "$HERE/lean/SCoda/Gen/RelFns2.lean" "$SCRATCH/RelFns2.before"
  local res; res=$(regen_and_build "$root")
  local changed="generated text changed"
  cmp -s "$SCRATCH/RelFns2.before" "$HERE/lean/SCoda/Gen/RelFns2.lean" && changed="GENERATED TEXT UNCHANGED"
  local why=""
  if [ "$res" = "FAIL(build)" ]; then why=$(grep -m1 -o 'error: [^ ]*RelTie2L\?.lean:[0-9]*' "$SCRATCH/last.log" | sed 's/error: //'); fi
  if [ "$res" = "FAIL(gen)" ]; then why=$($PY -c "import json;print([e['error'] for e in json.load(open('$SCRATCH/gen.json'))['errors'] if e['file']=='RelFns2.lean'][0][:190])"); fi
  echo "$name: $desc"
  echo "    -> $changed; RelTie2 build: $res  $why"
  if [ "$res" = "PASS" ] || [ "$changed" = "GENERATED TEXT UNCHANGED" ]; then echo "    !! MUTANT SURVIVED"; fail=1; fi
  rm -rf "$root"
}

RS=sequences/relative_sequence.py
mkdir -p "$SCRATCH"
echo "== original source ($ORIG)"
t0=$(date +%s); r=$(regen_and_build "$ORIG"); t1=$(date +%s)
echo "original: RelTie2 build: $r ($((t1 - t0)) s)"
[ "$r" = "PASS" ] || { echo "!! the unedited source does not pass"; fail=1; }

echo "== normalise_relative"
mutant n1_already_open $RS \
  '(note_list\.append\(msg\)\n\s*open_messages\[msg\.channel\]\[msg\.note\] = note_list\n\n\s*# Skip message if note is already open\n\s*if len\(note_list\)) != 1:' '\1 != 2:' \
  "note-on: 'already open' test  != 1  ->  != 2"
mutant n2_pop_first $RS \
  'note_list\.pop\(-1\)' 'note_list.pop(0)' \
  "note-off: pops the oldest instead of the newest open note-on (same lengths, different object survives)"
mutant n3_no_store_back $RS \
  'note_list\.pop\(-1\)\n\s*open_messages\[msg\.channel\]\[msg\.note\] = note_list\n' 'note_list.pop(-1)\n' \
  "note-off: store-back of the popped list dropped (Python still changes the dict entry through the alias: the flow check must refuse)"
mutant n4_wait_ge $RS \
  '# Insert consolidated wait message\n(\s*)if wait_buffer > 0:' '# Insert consolidated wait message\n\1if wait_buffer >= 0:' \
  "consolidated wait:  > 0  ->  >= 0  (zero-length waits are emitted)"
mutant n5_cleanup_keys $RS \
  'for key in open_messages\[channel\]\.keys\(\):' 'for key in open_messages.keys():' \
  "clean-up iterates the channel keys instead of the note keys (defect D5 re-introduced; still type-correct)"
mutant n6_ts_and $RS \
  'msg\.numerator != current_ts_numerator or msg\.denominator != current_ts_denominator' 'msg.numerator != current_ts_numerator and msg.denominator != current_ts_denominator' \
  "time signature: 'or' -> 'and'"
mutant n7_message_eq elements/message.py \
  '    def equivalent\(self, other\) -> bool:' '    def __eq__(self, other):\n        return self.equivalent(other)\n\n    def equivalent(self, other) -> bool:' \
  "Message gets a structural __eq__ (in / remove no longer compare identity: generation must fail loudly)"

echo "== split"
mutant s1_wait_lt $RS \
  'if msg\.time <= remaining_capacity:' 'if msg.time < remaining_capacity:' \
  "a wait that fits exactly is split:  <=  ->  <"
mutant s2_key_pitch_only $RS \
  'open_messages\[\(msg\.channel, msg\.note\)\] = msg' 'open_messages[msg.note] = msg' \
  "open-note table keyed by pitch only (defect D7 re-introduced)"
mutant s3_keep_current $RS \
  'split_sequences\.append\(current_sequence\)\n\s*current_sequence = next_sequence\n(\s*)break' 'split_sequences.append(current_sequence)\n\1break' \
  "end of input: the appended piece stays the current sequence (later add_message calls change an element of the result: the flow check must refuse)"
mutant s4_requeue_behind $RS \
  'working_memory\[0:0\] = next_sequence_queue' 'working_memory.extend(next_sequence_queue)' \
  "deferred messages are put behind the rest of the input instead of in front"
mutant s5_while_gt $RS \
  'while remaining_capacity >= 0:' 'while remaining_capacity > 0:' \
  "loop test  >= 0  ->  > 0  (a filled piece is closed without looking at zero-time messages)"
mutant s6_off_deferred $RS \
  'elif msg\.message_type == MessageType\.NOTE_OFF:\n(\s*)current_sequence\.add_message\(msg\)\n\s*open_messages\.pop\(\(msg\.channel, msg\.note\), None\)' 'elif msg.message_type == MessageType.NOTE_OFF:\n\1current_sequence.add_message(msg)' \
  "note-off no longer removes the note from the open-note table"
mutant s7_hoist_next $RS \
  '        for capacity in capacities:\n            next_sequence = RelativeSequence\(\)\n' '        next_sequence = RelativeSequence()\n        for capacity in capacities:\n' \
  "next_sequence is created once before the loop (after 'current_sequence = next_sequence' both names denote ONE object: a real aliasing bug that value semantics would hide; the flow check must refuse)"

echo "== original source again (restores the generated files)"
r=$(regen_and_build "$ORIG")
echo "original: RelTie2 build: $r"
[ "$r" = "PASS" ] || { echo "!! the unedited source does not pass"; fail=1; }
rm -rf "$SCRATCH"
[ $fail = 0 ] && echo "SELF-TEST OK: every edit changed the generated text and broke generation or the build; the original passes" || echo "SELF-TEST FAILED"
exit $fail
