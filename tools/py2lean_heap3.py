"""Identity translator, part 3: the four view-level methods that were still LINKS of `Model/HeapLib.lean` —
`RelativeSequence.to_absolute_sequence`, `AbsoluteSequence.to_relative_sequence`, `RelativeSequence.normalise_relative`,
`RelativeSequence.pad` — translated statement by statement with respect to OBJECT IDENTITY *and* VALUE into
`lean/SCoda/Gen/HeapFns3.lean` (namespace `SCoda.Gen.HeapFns3`), over the cell heap of `Model/HeapOps.lean`.  Extends
`tools/py2lean_heap.py` / `tools/py2lean_heap2.py` (read their docstrings first: cells, `HM`, stores, allocation order, list values and
their ownership rules, exact integers, `while` with fuel, dicts as association lists).  Functions that `Gen/HeapFns.lean` already has
(`Message.__init__` / `copy`, the view constructors, `RelativeSequence.add_message`) are re-used from there.

What is new here
  * NO ORACLE: all four methods (and their callees `AbsoluteSequence._add_message_unsorted` / `normalise_absolute` / `sort` /
    `add_message` and `util.binary_insort`) are translated exactly.  `msg.copy()` and `Message(...)` allocate a cell and run the translated
    `Message.__init__` on it; `message_to_add.time = …` is a STORE into the cell of `message_to_add` (so a source that writes `msg.time`
    of the receiver's own object is translated as such, and then the frame theorems of Props/HeapTie3.lean fail).
  * `None` operands: an integer field of a message may hold `None` (`pyNone`).  `x is None`, `==`, `!=` are translated on the encoding;
    for `+ - * // < <= > >=` an operand that may be `None` (a message field, or a local that receives one, transitively) is guarded by
    `HeapLib3.needInt` first (Python: `TypeError`; here `HErr.noneAttr`).  Parameters typed `Int` are ints.
  * `x = None` for a local that later receives an integer: an `Int` local initialised with `pyNone`.
  * `int(e)` of an exactly translated integer is `e`; `a // c` for a positive integer constant `c` is Lean's `a / c` (floor for a positive
    divisor); `len(xs)` of a list of references is `Int.ofNat xs.length`; `xs[i]` for an integer local `i` is `HeapLib3.pyIndex`.
  * module-level functions of scoda/misc/util.py (`binary_insort`): a parameter that is a raw Python list and is MUTATED by the callee is a
    LIST REFERENCE (`LRef`): the cell of the view object that owns the list (Model/HeapOps.lean: a view object and its `_messages` list
    are one cell).  The only accepted argument is `<view>._messages`; `collection.insert(i, x)` is a store into that cell.
  * `self._messages.sort(key=lambda …)` (the body of `AbsoluteSequence.sort`): the call must be, token for token, the one
    `tools/py2lean_sort.py` translates in the same generator run (`Gen/SortFns.lean`: `Gen.Sort.sortOf`, exact key, exact `MessageType.__lt__`,
    `TypeError` of the comparison); it is applied to the REFERENCES with the values read from the heap, and the sorted list of references is
    stored into the view's cell.
  * nested dicts (`open_messages[channel][note]`), `d.setdefault(k, dict())`, `d[k]` (`KeyError`: `HErr.index`), `d.get(k, [])`,
    `d[k1][k2] = v`, `for k in d.keys()`; `continue`; `xs.pop(-1)` as a statement; `x in xs` on message references (IDENTITY: the
    translator checks that `Message` defines no `__eq__`) and `xs.remove(x)` directly under `if x in xs:` (`List.erase`: the first
    occurrence).
  * aliasing of a list stored in a dict: a local that receives `<dict expr>.get(<key>, [])` MAY be the list object stored under that key.
    Value semantics are kept by a syntactic flow rule: every mutation of such a local (`append`, `pop`) must be followed IMMEDIATELY by the
    store-back `<the same dict expr>[<the same key>] = <the local>`; anything else is refused.
  * the two properties `Sequence.abs` / `Sequence.rel` (the regeneration of a stale view) are re-translated with the translated conversions in
    place of the links: `sequenceAbs3` / `sequenceRel3`.
  * block scoping: a local first assigned inside a branch / loop body is a `let mut` of that block (a later read outside the block is an
    unknown name: refused).
Everything else is refused (`Untranslatable`).
"""
import ast
import contextlib
import os
import sys

sys.path.insert(0, os.path.dirname(os.path.abspath(__file__)))
import py2lean_heap as H                                   # noqa: E402
import py2lean_heap2 as H2                                 # noqa: E402
import py2lean_sort as S                                   # noqa: E402
from py2lean_heap import Untranslatable, camel, check_decorators, defaults_of   # noqa: E402

UTIL = "scoda/misc/util.py"
UTIL_CLS = "util"                 # pseudo-class of the module-level functions
FREE_FUNCS = {"binary_insort"}

# loop bounds: (qualified function, condition text) -> Lean expression over the locals AT LOOP ENTRY
WHILE_FUEL3 = {
    # every round halves the distance between the two sides (mid = (lo + hi) // 2, then hi = mid or lo = mid + 1)
    ("util.binary_insort", "lo < hi"): "(Int.toNat (hi_ - lo_) + 1)",
}
# dict locals: (qualified function, name) -> (key type, value type)
DICTS3 = {
    ("RelativeSequence.normalise_relative", "open_messages"): ("Int", ("Int", "List Msg")),
}
PARAM3 = {("RelativeSequence", "padding_length"): "Int", (UTIL_CLS, "collection"): "LRef", (UTIL_CLS, "message"): "Msg"}
UNLINK3 = [("RelativeSequence", "to_absolute_sequence"), ("AbsoluteSequence", "to_relative_sequence"),
           ("RelativeSequence", "normalise_relative"), ("RelativeSequence", "pad")]
NEW_ROOTS = [("AbsoluteSequence", "to_relative_sequence"), ("RelativeSequence", "to_absolute_sequence"),
             ("RelativeSequence", "pad"), ("RelativeSequence", "normalise_relative"),
             ("Sequence", "abs"), ("Sequence", "rel")]
# functions of Gen/HeapFns.lean that call a link translated here: re-translated with the translated callee, under a new name
RETRANSLATE = {("Sequence", "abs"): ("sequenceAbs", "sequenceAbs3"), ("Sequence", "rel"): ("sequenceRel", "sequenceRel3")}


@contextlib.contextmanager
def patched_tables():
    saved = (dict(H.PARAM), dict(H.LINKS), dict(H2.WHILE_FUEL), dict(H2.DICTS), dict(H.CLASSES))
    try:
        H.PARAM.update(PARAM3)
        for k in UNLINK3:
            H.LINKS.pop(k, None)
        H2.WHILE_FUEL.update(WHILE_FUEL3)
        H.CLASSES[UTIL_CLS] = (UTIL, None, None)
        yield
    finally:
        for tbl, old in zip((H.PARAM, H.LINKS, H2.WHILE_FUEL, H2.DICTS, H.CLASSES), saved):
            tbl.clear()
            tbl.update(old)


def lean_ty(t):
    if t == "LRef":
        return "Nat"
    if t.startswith("Dict "):
        k, v = H2.DICT_OF[t]
        return f"List (({lean_ty(k)}) × {lean_ty(v)})"
    if t.startswith("List "):
        return f"List ({lean_ty(t[5:])})"
    return H2.lean_ty(t)


def norm(src):
    return " ".join(src.split())


class FnTranslator3(H2.FnTranslator2):
    def __init__(self, reg, cls, fn):
        super().__init__(reg, cls, fn)
        if cls == UTIL_CLS:
            self.is_static = True
            self.qual = f"util.{fn.name}"
            self.lean_name = camel(fn.name)
        self.nullable = set()
        self.alias_lists = {}          # local -> (dict expression text, key text): may be the list object stored there
        self.compute_nullable()

    # ---------------------------------------------------------------- None-able integers
    def compute_nullable(self):
        """locals that may hold `None` where an integer is expected: assigned `None`, a message field, or another such local"""
        assigns = []
        for node in ast.walk(self.fn):
            if isinstance(node, ast.Assign) and len(node.targets) == 1 and isinstance(node.targets[0], ast.Name):
                assigns.append((node.targets[0].id, node.value))
        changed = True
        while changed:
            changed = False
            for name, v in assigns:
                if name in self.nullable:
                    continue
                if (isinstance(v, ast.Constant) and v.value is None) or (isinstance(v, ast.Attribute) and v.attr in H.MSG_FIELDS
                                                                          and H.MSG_FIELDS[v.attr][1] == "Int") \
                        or (isinstance(v, ast.Name) and v.id in self.nullable):
                    self.nullable.add(name)
                    changed = True

    def may_be_none(self, n):
        if isinstance(n, ast.Name):
            return n.id in self.nullable
        if isinstance(n, ast.Attribute) and isinstance(n.value, ast.Name) and self.types.get(n.value.id) == "Msg":
            return True
        if isinstance(n, ast.Attribute) and isinstance(n.value, ast.Subscript):
            return True
        return False

    def guard(self, n, ind):
        if self.may_be_none(n):
            v, _ = self.expr(n, ind)
            self.emit(ind, f"HeapLib3.needInt {v}", effect=False)

    # ---------------------------------------------------------------- expressions
    def is_len_call(self, n):
        return isinstance(n, ast.Call) and isinstance(n.func, ast.Name) and n.func.id == "len" and len(n.args) == 1 and not n.keywords

    def is_int(self, n):
        if isinstance(n, ast.Call) and isinstance(n.func, ast.Name) and n.func.id == "int" and len(n.args) == 1 and not n.keywords:
            return self.is_int(n.args[0])
        if self.is_len_call(n):
            a = n.args[0]
            return isinstance(a, ast.Name) and (self.types.get(a.id) == "LRef" or self.types.get(a.id, "").startswith("List "))
        if isinstance(n, ast.BinOp) and isinstance(n.op, ast.FloorDiv):
            return self.is_int(n.left) and isinstance(n.right, ast.Constant) and isinstance(n.right.value, int) \
                and not isinstance(n.right.value, bool) and n.right.value > 0
        if isinstance(n, ast.Attribute) and isinstance(n.value, ast.Subscript):
            return n.attr in H.MSG_FIELDS and H.MSG_FIELDS[n.attr][1] == "Int"
        return super().is_int(n)

    def list_text(self, n, ind):
        """(text of the list of references, element type) of a list-valued expression or a list reference"""
        v, t = self.expr(n, ind)
        if t == "LRef":
            return f"({self.cur(ind)}.lst {v})", "Msg"
        if t.startswith("List "):
            return v, t[5:]
        raise Untranslatable(f"{self.qual}: {ast.unparse(n)} is a {t}, not a list")

    def expr(self, n, ind):
        # len(<list of references>) compared with a constant: the base translator's Nat form
        if isinstance(n, ast.Compare) and len(n.ops) == 1 and self.is_len_call(n.left) and isinstance(n.comparators[0], ast.Constant):
            return H.FnTranslator.expr(self, n, ind)
        if isinstance(n, ast.Call) and isinstance(n.func, ast.Name) and n.func.id == "int" and self.is_int(n):
            return self.expr(n.args[0], ind)
        if self.is_len_call(n) and self.is_int(n):
            xs, _ = self.list_text(n.args[0], ind)
            return f"(Int.ofNat {xs}.length)", "Int"
        if isinstance(n, ast.BinOp) and self.is_int(n):
            self.guard(n.left, ind)
            self.guard(n.right, ind)
            if isinstance(n.op, ast.FloorDiv):
                a, _ = self.expr(n.left, ind)
                return f"({a} / {n.right.value})", "Int"
            return super().expr(n, ind)
        if isinstance(n, ast.Compare) and len(n.ops) == 1 and self.is_int(n.left) and self.is_int(n.comparators[0]) \
                and isinstance(n.ops[0], (ast.Lt, ast.LtE, ast.Gt, ast.GtE)):
            self.guard(n.left, ind)
            self.guard(n.comparators[0], ind)
            return super().expr(n, ind)
        # x in xs  on message references: identity
        if isinstance(n, ast.Compare) and len(n.ops) == 1 and isinstance(n.ops[0], ast.In):
            x, xt = self.expr(n.left, ind)
            xs, et = self.list_text(n.comparators[0], ind)
            if xt != "Msg" or et != "Msg":
                raise Untranslatable(f"{self.qual}: `{ast.unparse(n)}`: `in` on a {xt} / list of {et}")
            if "__eq__" in self.reg.methods["Message"]:
                raise Untranslatable(f"{self.qual}: `{ast.unparse(n)}`: Message defines __eq__ (`in` is not identity)")
            return f"(decide ({x} ∈ {xs}))", "Bool"
        # subscripts: xs[i] for an integer local i; d[k] on a dict
        if isinstance(n, ast.Subscript):
            if isinstance(n.value, ast.Name) and self.types.get(n.value.id, "").startswith("Dict ") or \
                    (isinstance(n.value, ast.Subscript) and self.dict_type_of(n.value) is not None):
                d, dt = self.expr(n.value, ind)
                kt, vt = H2.DICT_OF[dt]
                k, kty = self.expr(n.slice, ind)
                if kty != kt:
                    raise Untranslatable(f"{self.qual}: `{ast.unparse(n)}`: key of type {kty}")
                r = self.new()
                self.emit(ind, f"let {r} ← HeapLib3.dictGet {d} {k}", effect=False)
                return r, vt
            if isinstance(n.value, ast.Name) and (self.types.get(n.value.id) == "LRef" or self.types.get(n.value.id, "").startswith("List ")) \
                    and self.is_int(n.slice) and not isinstance(n.slice, ast.Constant):
                xs, et = self.list_text(n.value, ind)
                i, _ = self.expr(n.slice, ind)
                r = self.new()
                self.emit(ind, f"let {r} ← HeapLib3.pyIndex {xs} {i}", effect=False)
                return r, et
        if isinstance(n, ast.Attribute) and isinstance(n.value, ast.Subscript):
            v, t = self.expr(n.value, ind)
            if t in H.REFS:
                return self.field(v, t, n.attr, ind)
        # <dict expr>.get(k, []) / <dict>.keys()
        if isinstance(n, ast.Call) and isinstance(n.func, ast.Attribute) and n.func.attr in ("get", "keys") \
                and self.dict_type_of(n.func.value) is not None:
            d, dt = self.expr(n.func.value, ind)
            kt, vt = H2.DICT_OF[dt]
            if n.func.attr == "keys":
                if n.args or n.keywords:
                    raise Untranslatable(f"{self.qual}: {ast.unparse(n)}")
                return f"(HeapLib3.dictKeys {d})", f"List {kt}"
            if len(n.args) != 2 or n.keywords or not (isinstance(n.args[1], ast.List) and not n.args[1].elts) or not vt.startswith("List "):
                raise Untranslatable(f"{self.qual}: {ast.unparse(n)} (only d.get(key, []) on a dict of lists)")
            k, kty = self.expr(n.args[0], ind)
            if kty != kt:
                raise Untranslatable(f"{self.qual}: `{ast.unparse(n)}`: key of type {kty}")
            return f"(HeapLib3.dictGetD {d} {k} [])", vt
        return super().expr(n, ind)

    def dict_type_of(self, n):
        """the dict type of a dict-valued expression `name` / `name[k]`, or None"""
        if isinstance(n, ast.Name):
            t = self.types.get(n.id, "")
            return t if t.startswith("Dict ") else None
        if isinstance(n, ast.Subscript):
            t = self.dict_type_of(n.value)
            if t is not None:
                vt = H2.DICT_OF[t][1]
                return vt if vt.startswith("Dict ") else None
        return None

    # ---------------------------------------------------------------- calls
    def call(self, n, ind):
        f = n.func
        if isinstance(f, ast.Name) and f.id in FREE_FUNCS:
            self.reg.check_util_import(self.cls, f.id)
            name, sig, ret = self.reg.get(UTIL_CLS, f.id)
            fn = self.reg.methods[UTIL_CLS][f.id]
            params = fn.args.args
            if n.keywords or len(n.args) != len(params):
                raise Untranslatable(f"{self.qual}: arguments of {ast.unparse(n)}")
            out = []
            for p, a in zip(params, n.args):
                want = H.param_type(UTIL_CLS, fn, p, None)
                if want == "LRef":
                    if not (isinstance(a, ast.Attribute) and a.attr == "_messages"):
                        raise Untranslatable(f"{self.qual}: {ast.unparse(n)}: the list argument must be `<view>._messages`")
                    v, t = self.expr(a.value, ind)
                    if t not in ("View", "AbsView", "RelView"):
                        raise Untranslatable(f"{self.qual}: {ast.unparse(n)}: `_messages` of a {t}")
                    out.append(v)
                else:
                    v, t = self.expr(a, ind)
                    out.append(self.coerce(v, t, want, ind, ast.unparse(n)))
            text = " ".join([name, "g", self.tag_of(n)] + out)
            if ret == "Unit":
                self.emit(ind, text)
                return "()", "Unit"
            r = self.new()
            self.emit(ind, f"let {r} ← {text}")
            return r, ret
        return super().call(n, ind)

    def list_mutation(self, n, ind):
        f = n.func
        tgt = f.value
        # <list reference>.insert(i, x)
        if isinstance(tgt, ast.Name) and self.types.get(tgt.id) == "LRef":
            if f.attr == "insert" and len(n.args) == 2 and not n.keywords:
                i, it = self.expr(n.args[0], ind)
                a, t = self.expr(n.args[1], ind)
                a = self.coerce(a, t, "Msg", ind, ast.unparse(n))
                i = self.coerce(i, it, "Int", ind, ast.unparse(n))
                c = self.lname(tgt.id)
                self.emit(ind, f"HM.modify (fun h => h.setLst {c} (HM.pyInsert {a} {i} (h.lst {c})))")
                return "()", "Unit"
            raise Untranslatable(f"{self.qual}: {ast.unparse(n)} on a list reference")
        # a local that may alias a list stored in a dict
        if isinstance(tgt, ast.Name) and tgt.id in self.alias_lists and f.attr == "append" and len(n.args) == 1:
            a, t = self.expr(n.args[0], ind)
            v = self.lname(tgt.id)
            lt = self.types[tgt.id]
            self.emit(ind, f"{v} := {v} ++ [{self.coerce(a, t, lt[5:], ind, ast.unparse(n))}]", effect=False)
            return "()", "Unit"
        return super().list_mutation(n, ind)

    # ---------------------------------------------------------------- statements
    def assign_local(self, name, v, t, ind, fresh):
        if t == "Dict ?":
            key = (self.qual, name)
            if key not in DICTS3:
                return super().assign_local(name, v, t, ind, fresh)
            if name in self.types:
                raise Untranslatable(f"{self.qual}: {name} is assigned a dict twice")
            kt, vt = DICTS3[key]
            dt = f"Dict {self.qual}.{name}"
            if isinstance(vt, tuple):
                inner = dt + "[]"
                H2.DICT_OF[inner] = vt
                vt = inner
            H2.DICT_OF[dt] = (kt, vt)
            self.types[name] = dt
            self.emit(ind, f"let mut {self.lname(name)} : {lean_ty(dt)} := []", effect=False)
            return
        if t == "None" and self.types.get(name) == "Int":
            self.emit(ind, f"{self.lname(name)} := pyNone", effect=False)
            return
        if t.startswith("List ") and name not in self.types and t != "List ?":
            self.types[name] = t
            if fresh:
                self.fresh_lists.add(name)
            self.emit(ind, f"let mut {self.lname(name)} : {lean_ty(t)} := {v}", effect=False)
            return
        super().assign_local(name, v, t, ind, fresh)

    def scoped(self, f):
        before = set(self.types)
        f()
        for nm in set(self.types) - before:
            del self.types[nm]
            self.fresh_lists.discard(nm)
            self.alias_lists.pop(nm, None)

    def if_stmt(self, s, ind):
        # `if x in xs: xs.remove(x)`
        if not s.orelse and len(s.body) == 1 and isinstance(s.test, ast.Compare) and isinstance(s.test.ops[0], ast.In) \
                and isinstance(s.body[0], ast.Expr) and isinstance(s.body[0].value, ast.Call) \
                and isinstance(s.body[0].value.func, ast.Attribute) and s.body[0].value.func.attr == "remove":
            c = s.body[0].value
            if len(c.args) != 1 or c.keywords or ast.unparse(c.args[0]) != ast.unparse(s.test.left) \
                    or ast.unparse(c.func.value) != ast.unparse(s.test.comparators[0]) or not isinstance(c.func.value, ast.Name) \
                    or c.func.value.id not in self.fresh_lists:
                raise Untranslatable(f"{self.qual}: `{ast.unparse(s.body[0])}` under `if {ast.unparse(s.test)}`")
            cond, _ = self.expr(s.test, ind)
            x, _ = self.expr(s.test.left, ind)
            xs = self.lname(c.func.value.id)
            self.emit(ind, f"if {cond} then", effect=False)
            self.comment(ind + "  ", ast.unparse(s.body[0]))
            self.emit(ind + "  ", f"{xs} := {xs}.erase {x}", effect=False)
            return
        # the two branches are separate scopes
        cond_txt = ast.unparse(s.test)
        only_raise = len(s.body) == 1 and isinstance(s.body[0], ast.Raise) and not s.orelse
        c, t = self.expr(s.test, ind)
        if t == "Val" or (only_raise and (self.qual, cond_txt) in H.VALUE_RAISES):
            raise Untranslatable(f"{self.qual}: value-level condition `{cond_txt}`")
        if t != "Bool":
            raise Untranslatable(f"{self.qual}: condition `{cond_txt}` is a {t}")
        self.emit(ind, f"if {c} then", effect=False)
        self.heap = None
        self.scoped(lambda: self.stmts(s.body, ind + "  "))
        self.heap = None
        if s.orelse:
            self.emit(ind, "else", effect=False)
            self.scoped(lambda: self.stmts(s.orelse, ind + "  "))
            self.heap = None

    def for_stmt(self, s, ind):
        # a loop over an attribute list must not mutate a `_messages` list (Python would iterate over the list as it changes)
        if isinstance(s.iter, ast.Attribute):
            for node in ast.walk(ast.Module(body=s.body, type_ignores=[])):
                if isinstance(node, ast.Call) and isinstance(node.func, ast.Attribute) and isinstance(node.func.value, ast.Attribute) \
                        and node.func.value.attr == s.iter.attr and ast.unparse(node.func.value.value) == ast.unparse(s.iter.value) \
                        and node.func.attr in ("append", "extend", "insert", "pop", "remove", "clear", "sort", "reverse"):
                    raise Untranslatable(f"{self.qual}: the loop over {ast.unparse(s.iter)} mutates that list (`{ast.unparse(node)[:60]}`)")
                if isinstance(node, (ast.Assign, ast.AugAssign)):
                    for t in (node.targets if isinstance(node, ast.Assign) else [node.target]):
                        if isinstance(t, ast.Attribute) and ast.unparse(t) == ast.unparse(s.iter):
                            raise Untranslatable(f"{self.qual}: the loop over {ast.unparse(s.iter)} re-binds that list")
        self.scoped(lambda: H2.FnTranslator2.for_stmt(self, s, ind))

    def for_items(self, s, ind):
        self.scoped(lambda: H2.FnTranslator2.for_items(self, s, ind))

    def while_stmt(self, s, ind):
        # the loop condition may need guards: they are emitted inside the loop, before the test
        cond_txt = ast.unparse(s.test)
        if s.orelse:
            raise Untranslatable(f"{self.qual}: while … else")
        if (self.qual, cond_txt) not in H2.WHILE_FUEL:
            raise Untranslatable(f"{self.qual}: the loop `while {cond_txt}` has no bound in WHILE_FUEL")
        self.scoped(lambda: H2.FnTranslator2.while_stmt(self, s, ind))

    def stmts(self, body, ind):
        i = 0
        while i < len(body):
            s = body[i]
            src = ast.unparse(s).split("\n")[0]
            nxt = body[i + 1] if i + 1 < len(body) else None
            # mutation of a local that may alias a dict entry: the store-back must follow immediately
            mutated = self.alias_mutation(s)
            if mutated is not None:
                dtxt, ktxt = self.alias_lists[mutated]
                want = f"{dtxt}[{ktxt}] = {mutated}"
                if nxt is None or norm(ast.unparse(nxt)) != norm(want):
                    raise Untranslatable(f"{self.qual}: `{src}` mutates a list that may be stored in {dtxt}; it must be followed by `{want}`")
            if isinstance(s, ast.Continue):
                self.comment(ind, src)
                if not self.loops or self.loops[-1][0] != "for":
                    raise Untranslatable(f"{self.qual}: continue outside a for loop")
                self.emit(ind, "continue", effect=False)
            elif isinstance(s, ast.Expr) and isinstance(s.value, ast.Call) and isinstance(s.value.func, ast.Attribute) \
                    and s.value.func.attr == "setdefault" and self.dict_type_of(s.value.func.value) is not None \
                    and isinstance(s.value.func.value, ast.Name):
                self.comment(ind, src)
                c = s.value
                dt = self.types[c.func.value.id]
                kt, vt = H2.DICT_OF[dt]
                if len(c.args) != 2 or c.keywords or ast.unparse(c.args[1]) != "dict()" or not vt.startswith("Dict "):
                    raise Untranslatable(f"{self.qual}: {src} (only d.setdefault(key, dict()) as a statement)")
                k, kty = self.expr(c.args[0], ind)
                if kty != kt:
                    raise Untranslatable(f"{self.qual}: {src}: key of type {kty}")
                d = self.lname(c.func.value.id)
                self.emit(ind, f"{d} := HeapLib3.dictSetDefault {d} {k} []", effect=False)
            elif isinstance(s, ast.Expr) and isinstance(s.value, ast.Call) and isinstance(s.value.func, ast.Attribute) \
                    and s.value.func.attr == "pop" and isinstance(s.value.func.value, ast.Name) \
                    and self.types.get(s.value.func.value.id, "").startswith("List "):
                self.comment(ind, src)
                c = s.value
                nm = c.func.value.id
                if nm not in self.fresh_lists and nm not in self.alias_lists:
                    raise Untranslatable(f"{self.qual}: {src} mutates a list that this function does not own")
                if c.keywords or len(c.args) > 1 or (c.args and ast.unparse(c.args[0]) != "-1"):
                    raise Untranslatable(f"{self.qual}: {src} (only pop(-1) / pop() as a statement)")
                v = self.lname(nm)
                r = self.new()
                self.emit(ind, f"let {r} ← HeapLib3.dropLastM {v}", effect=False)
                self.emit(ind, f"{v} := {r}", effect=False)
            elif isinstance(s, ast.Assign) and len(s.targets) == 1 and isinstance(s.targets[0], ast.Subscript) \
                    and isinstance(s.targets[0].value, ast.Subscript):
                self.comment(ind, src)
                self.nested_dict_store(s, ind, src)
            elif isinstance(s, ast.Assign) and len(s.targets) == 1 and isinstance(s.targets[0], ast.Name) \
                    and self.is_dict_get(s.value):
                self.comment(ind, src)
                v, t = self.expr(s.value, ind)
                name = s.targets[0].id
                if name in self.types and self.types[name] != t:
                    raise Untranslatable(f"{self.qual}: {src}: {name} is a {self.types[name]}")
                if name in self.types:
                    self.emit(ind, f"{self.lname(name)} := {v}", effect=False)
                else:
                    self.types[name] = t
                    self.emit(ind, f"let mut {self.lname(name)} : {lean_ty(t)} := {v}", effect=False)
                self.fresh_lists.discard(name)
                self.alias_lists[name] = (ast.unparse(s.value.func.value), ast.unparse(s.value.args[0]))
            elif isinstance(s, ast.Expr) and isinstance(s.value, ast.Call) and isinstance(s.value.func, ast.Attribute) \
                    and s.value.func.attr == "sort" and isinstance(s.value.func.value, ast.Attribute) \
                    and s.value.func.value.attr == "_messages":
                self.comment(ind, src)
                self.sort_stmt(s, ind)
            else:
                super().stmts([s], ind)
            i += 1

    def alias_mutation(self, s):
        if isinstance(s, ast.Expr) and isinstance(s.value, ast.Call) and isinstance(s.value.func, ast.Attribute) \
                and isinstance(s.value.func.value, ast.Name) and s.value.func.value.id in self.alias_lists \
                and s.value.func.attr in ("append", "pop", "extend", "insert", "remove", "clear", "sort", "reverse"):
            return s.value.func.value.id
        return None

    def is_dict_get(self, v):
        return isinstance(v, ast.Call) and isinstance(v.func, ast.Attribute) and v.func.attr == "get" \
            and self.dict_type_of(v.func.value) is not None

    def nested_dict_store(self, s, ind, src):
        """`d[k1][k2] = v`"""
        tgt = s.targets[0]
        outer = tgt.value
        if not (isinstance(outer.value, ast.Name) and self.types.get(outer.value.id, "").startswith("Dict ")):
            raise Untranslatable(f"{self.qual}: {src}")
        dt = self.types[outer.value.id]
        kt1, vt1 = H2.DICT_OF[dt]
        if not vt1.startswith("Dict "):
            raise Untranslatable(f"{self.qual}: {src}: {outer.value.id} is not a dict of dicts")
        kt2, vt2 = H2.DICT_OF[vt1]
        d = self.lname(outer.value.id)
        k1, k1t = self.expr(outer.slice, ind)
        k2, k2t = self.expr(tgt.slice, ind)
        v, vt = self.expr(s.value, ind)
        if k1t != kt1 or k2t != kt2 or not H.sub(vt, vt2):
            raise Untranslatable(f"{self.qual}: {src}: [{k1t}][{k2t}] = {vt} on a dict {kt1} -> ({kt2} -> {vt2})")
        r = self.new()
        self.emit(ind, f"let {r} ← HeapLib3.dictGet {d} {k1}", effect=False)
        self.emit(ind, f"{d} := HeapLib2.dictSet {d} {k1} (HeapLib2.dictSet {r} {k2} {v})", effect=False)

    def sort_stmt(self, s, ind):
        """`self._messages.sort(key=…)`: exactly the call tools/py2lean_sort.py translates (Gen/SortFns.lean)"""
        c = s.value
        info = S.translate_sort()
        if self.qual != "AbsoluteSequence.sort" or norm(ast.unparse(s)) != info["call_src"] or info["reverse"]:
            raise Untranslatable(f"{self.qual}: `{ast.unparse(s)[:80]}` is not the sort call translated by tools/py2lean_sort.py")
        tgt = c.func.value
        if not (isinstance(tgt, ast.Attribute) and tgt.attr == "_messages"):
            raise Untranslatable(f"{self.qual}: sort of {ast.unparse(tgt)}")
        obj, ot = self.expr(tgt.value, ind)
        if ot not in ("View", "AbsView", "RelView"):
            raise Untranslatable(f"{self.qual}: sort of the list of a {ot}")
        h = self.cur(ind)
        r = self.new()
        self.emit(ind, f"let {r} ← HeapLib3.liftSort (Gen.Sort.sortOf (fun i => {h}.msg i) ({h}.lst {obj}))", effect=False)
        self.emit(ind, f"HM.modify (fun h => h.setLst {obj} {r})")

    # ---------------------------------------------------------------- whole function
    def translate(self):
        fn = self.fn
        args = fn.args.args[(0 if self.is_static else 1):]
        if fn.args.vararg or fn.args.kwarg or fn.args.kwonlyargs:
            raise Untranslatable(f"{self.qual}: * / ** parameters")
        defaults = [None] * (len(args) - len(fn.args.defaults)) + list(fn.args.defaults)
        params = []
        for a, d in zip(args, defaults):
            t = H.param_type(self.cls, fn, a, d)
            self.types[a.arg] = t
            self.sig.append((a.arg, t))
            if t != "Val":
                params.append(f"({self.lname(a.arg)} : {lean_ty(t)})")
        # `x = None` followed by an integer assignment: an Int local that starts as pyNone
        self.none_init = {}
        for node in ast.walk(fn):
            if isinstance(node, ast.Assign) and len(node.targets) == 1 and isinstance(node.targets[0], ast.Name) \
                    and isinstance(node.value, ast.Constant) and node.value.value is None:
                self.none_init[node.targets[0].id] = None
        for nm in self.none_init:
            ok = False
            for node in ast.walk(fn):
                if isinstance(node, ast.Assign) and isinstance(node.targets[0], ast.Name) and node.targets[0].id == nm \
                        and not (isinstance(node.value, ast.Constant) and node.value.value is None):
                    v = node.value
                    if isinstance(v, ast.Attribute) and v.attr in H.MSG_FIELDS and H.MSG_FIELDS[v.attr][1] == "Int":
                        ok = True
                    else:
                        raise Untranslatable(f"{self.qual}: cannot type the optional local {nm} (`{ast.unparse(node)}`)")
            if not ok:
                raise Untranslatable(f"{self.qual}: cannot type the optional local {nm}")
            self.types[nm] = "Int"
            self.lines.append(f"  let mut {self.lname(nm)} : Int := pyNone")
        self.none_init = {}
        body = [s for s in fn.body if not (isinstance(s, ast.Expr) and isinstance(s.value, ast.Constant))]
        if self.is_generator:
            raise Untranslatable(f"{self.qual}: generator")
        self.stmts(body, "  ")
        if not isinstance(body[-1], ast.Return):
            if self.ret_type not in (None, "Unit"):
                raise Untranslatable(f"{self.qual}: falls off the end of a value-returning function")
            self.ret_type = "Unit"
            if not self.lines or self.lines[-1].strip().startswith("--") or isinstance(body[-1], (ast.If, ast.For, ast.While)) \
                    or self.lines[-1].strip().startswith("if "):
                self.lines.append("  pure ()")
        recv = [] if self.is_static else ["(self_ : Nat)"]
        head = f"def {self.lean_name} (g : GOrc) (tag : Nat) {' '.join(recv + params)} : HM {H.paren(lean_ty(self.ret_type))} := do"
        doc = f"/-- translation of `{self.qual}` ({H.CLASSES[self.cls][0].split('/')[-1]}:{fn.lineno}) -/"
        return "\n".join([doc, head.replace("  :", " :")] + self.lines) + "\n"


class Registry3(H.Registry):
    def __init__(self):
        super_classes = [c for c in H.CLASSES if c != UTIL_CLS]
        self.methods = {c: H.parse_class(c) for c in super_classes}
        self.done, self.order, self.in_progress, self.defaults, self.links_used = {}, [], set(), [], []
        tree = ast.parse(open(os.path.join(H.REPO, UTIL)).read())
        self.methods[UTIL_CLS] = {n.name: n for n in tree.body if isinstance(n, ast.FunctionDef)}

    def check_util_import(self, cls, name):
        """the module of class `cls` imports `name` from scoda.misc.util (and defines nothing else of that name)"""
        path = H.CLASSES[cls][0]
        tree = ast.parse(open(os.path.join(H.REPO, path)).read())
        found = False
        for node in tree.body:
            if isinstance(node, ast.ImportFrom) and node.module == "scoda.misc.util" and any(a.name == name and a.asname is None for a in node.names):
                found = True
            elif isinstance(node, (ast.FunctionDef, ast.ClassDef)) and node.name == name:
                raise Untranslatable(f"{path} defines its own {name}")
            elif isinstance(node, (ast.Import, ast.ImportFrom)) and any((a.asname or a.name) == name for a in node.names) \
                    and not (isinstance(node, ast.ImportFrom) and node.module == "scoda.misc.util"):
                raise Untranslatable(f"{path} imports another {name}")
        if not found:
            raise Untranslatable(f"{path} does not import {name} from scoda.misc.util")

    def resolve(self, cls, meth):
        if cls == UTIL_CLS:
            return UTIL_CLS if meth in self.methods[UTIL_CLS] else None
        return super().resolve(cls, meth)

    def get(self, cls, meth):
        key = (cls, meth)
        if key in self.done:
            return self.done[key]
        if key in self.in_progress:
            raise Untranslatable(f"recursive call cycle through {cls}.{meth}")
        self.in_progress.add(key)
        fn = self.methods[cls][meth]
        check_decorators(fn, f"{cls}.{meth}")
        self.defaults += defaults_of(cls, fn)
        tr = FnTranslator3(self, cls, fn)
        text = tr.translate()
        self.in_progress.discard(key)
        self.done[key] = (tr.lean_name, tr.sig, tr.ret_type)
        self.order.append((key, text))
        return self.done[key]


def translate_new(roots):
    base = H.Registry()
    base.need_view_class = False
    for cls, meth in H.ROOTS:
        base.get(cls, meth)
    with patched_tables():
        reg = Registry3()
        reg.need_view_class = False
        for k, v in base.done.items():
            if k not in UNLINK3 and k not in RETRANSLATE:
                reg.done[k] = v
        for cls, meth in roots:
            reg.get(cls, meth)
    return reg


HEADER = [
    "/- GENERATED by tools/py2lean_heap3.py from scoda/sequences/*.py and scoda/misc/util.py — do not edit.",
    "   The four view-level methods that were links of Model/HeapLib.lean (`to_absolute_sequence`, `to_relative_sequence`, `normalise_relative`, `pad`)",
    "   and their callees, translated statement by statement with respect to OBJECT IDENTITY and value, over the cell heap of Model/HeapOps.lean",
    "   (conventions: docstrings of tools/py2lean_heap.py, py2lean_heap2.py, py2lean_heap3.py; support: Model/HeapLib.lean, HeapLib2.lean, HeapLib3.lean).",
    "   `AbsoluteSequence.sort` is the call translated by tools/py2lean_sort.py (Gen/SortFns.lean).  Callees that Gen/HeapFns.lean already has are taken from there. -/",
    "import SCoda.Gen.HeapFns",
    "import SCoda.Gen.SortFns",
    "import SCoda.Model.HeapLib3",
    "set_option linter.unusedVariables false",
    "namespace SCoda.Gen.HeapFns3",
    "open SCoda SCoda.HeapOps SCoda.HeapLib SCoda.Gen.HeapFns",
    "",
]


def gen_heap_fns3():
    reg = translate_new(NEW_ROOTS)
    body = "\n".join(text for _, text in reg.order)
    for old, new in RETRANSLATE.values():
        body = body.replace(f"def {old} (", f"def {new} (")
    names = "def translated : List String := [" + ", ".join(f'"{c}.{m}"' for (c, m), _ in reg.order) + "]\n"
    names += "\n/-- the loop bounds, as given to the translator -/\n"
    names += "def whileFuel : List (String × String × String) := [" + ", ".join(
        f'("{q}", "{c}", "{f}")' for (q, c), f in WHILE_FUEL3.items()) + "]\n"
    return "\n".join(HEADER) + "\n" + body + "\n" + names + "\nend SCoda.Gen.HeapFns3\n"


if __name__ == "__main__":
    print(gen_heap_fns3())
