"""Identity translator: the derivation routes of C16 (copy at every level, split, bar splitting) translated statement by
statement WITH RESPECT TO OBJECT IDENTITY into `lean/SCoda/Gen/HeapFns.lean` (namespace `SCoda.Gen.HeapFns`), over the
cell heap of `lean/SCoda/Model/HeapOps.lean`.  `Props/HeapTie.lean` proves the generated functions equal to the `HeapOps`
steps the C16c theorems are about.

What a generated function is
  One Lean `do` block in the monad `HeapLib.HM` (heap state + exceptions, the heap survives an exception) per Python
  function: `def <name> (g : GOrc) (tag : Nat) (self_ : Nat) <params> : HM <result>`.  Every mutable Python object is a
  cell of the heap: `Message` (msg), a view object TOGETHER WITH its `_messages` list (lst), `Sequence` (seq), `Bar`,
  `Track` (with its `bars` list), `Composition` (with its `tracks` list).  A reference is the cell number (`Nat`); an
  `Optional` reference is `Option Nat`; a Python list of references that is a local or an argument is a `List Nat` VALUE.

Statement by statement
  * `Cls(args)` / `self.__class__(args)`: a blank cell is allocated (`object.__new__`), then the translation of
    `Cls.__init__` runs on it.  `self.__class__` is the class the method is translated for; in `AbstractSequence` it is
    one of the two view classes, whose constructors must have the same translation (checked in Lean by `rfl`).
  * `X.attr = e`: a store into the cell of `X`; `X.attr`: a read of the current heap.
  * `self._messages = []` + `.extend(xs)` / `.append(x)` / `.insert(i, x)`: stores into the view's cell.
  * `@property` reads (`self.abs`, `seq.rel`) are calls of the translated property bodies.
  * list comprehensions: `HM.mapM` (element expression with effects, e.g. `msg.copy()`), `List.map`, `List.filter` with an
    exactly translated value predicate (`msg.message_type ==/!= MessageType.X`); `for` loops are Lean `for` loops;
    generator methods (`messages_rel`) are run to their end by the consumer and return the list of yielded references,
    `try/finally` is `HM.tryFinally`.
  * calls of translated methods are calls of the generated functions; view-level methods outside the routes are LINKS
    (`HeapLib`: the identity behaviour `HeapOps` assigns them, values from the oracle).

Value level (abstracted exactly as `HeapOps` abstracts it)
  * field values of `Message` are translated exactly (they are what `msgCopy` copies); scalars of `Bar` / `Track` too.
  * any other arithmetic (`capacity = int(…)`, `duration = sum(…)`) is OPAQUE: only the heap effects of the calls inside it
    are emitted.  An `if` over an opaque condition must be listed in DECISIONS (its decision then comes from the oracle,
    keyed as `HeapOps` keys it); an `if <opaque>: raise …` must be listed in VALUE_RAISES and is dropped (`HeapOps`: "raised
    for value reasons: not modelled, the call has performed a prefix of the writes").  Both tables are keyed by the source
    text of the condition, so an edited condition is refused.
  * tags name oracle queries.  `HeapOps` derives the tags of nested calls with `mix`; TAGS / TAGSTEPS reproduce those names
    for the call sites concerned (keyed by source text; a site not listed passes `tag` on).  A wrong entry breaks the
    equality proof, not soundness.

Value-level scalars of `Bar`
  The constructor parameter `default_channel` is VALUE LEVEL (it stands behind the tag, like every scalar argument).  Its only
  use is `channel=default_channel` of the TIME_SIGNATURE `Message(...)` that `Bar.__init__` inserts: a `Message(...)` call with a
  value-level argument takes the VALUE of the new message from the oracle (`ORACLE_MESSAGES`, keyed by the source text of the
  call: `g.orc.tsMsg numerator denominator`) — exactly the abstraction of `HeapOps.barFinish`.  The allocation and what happens
  to the reference are translated as before.  `Bar.copy` (second repair of D37) computes that argument from the bar's own
  messages: `next((msg for msg in self.sequence.rel._messages if …), None)` is the first reference of the filtered list
  (`List.head?`, an `Option`); the READ of `self.sequence.rel` is a call of the translated property and may regenerate a stale
  relative view of the ORIGINAL (a heap effect, kept); `time_signature.channel if time_signature is not None else 0` is a
  conditional expression whose guarded branch only reads a field of the guarded object: value level, no effect.
  (Limit of that abstraction, unchanged: `tsMsg` is keyed by numerator and denominator only, so one oracle describes
  histories in which bars of equal signature have equal channel of the signature message.)
  A source that STORES such a scalar in an attribute the cells do not have (source commit f9ef398: `self.default_channel = …`) is
  refused: `UNMODELLED_SCALARS` is empty.

Aliasing of raw Python lists
  A list VALUE is sound only while the list object has one owner.  The translator enforces: `_messages` is assigned only
  a fresh list (`[]`, a comprehension, `copy.copy(…)`); `.append` / `.extend` on a local requires a local that was initialised
  fresh; a parameter list is never mutated.  `Track.bars` / `Composition.tracks` take over the caller's list object (the
  translated callers pass a fresh comprehension; `HeapOps.mkTrk` abstracts other callers the same way).

Anything outside the subset raises `Untranslatable`.
"""
import ast
import os
import sys

sys.path.insert(0, os.path.dirname(os.path.abspath(__file__)))
from py2lean_wrap import Untranslatable, camel, check_decorators, defaults_of   # noqa: E402  (shared machinery)

REPO = os.environ.get("SCODA_REPO", "/repo")

# ------------------------------------------------------------------------------------------------ classes and cells

MSG_FIELDS = {"message_type": ("ty", "MType"), "channel": ("ch", "Int"), "time": ("time", "Int"), "note": ("note", "Int"),
              "velocity": ("vel", "Int"), "control": ("ctl", "Int"), "program": ("prog", "Int"),
              "numerator": ("num", "Int"), "denominator": ("den", "Int"), "key": ("key", "Int")}

# class -> (file, cell type of `self`, base class)
CLASSES = {
    "Message": ("scoda/elements/message.py", "Msg", None),
    "AbstractSequence": ("scoda/sequences/abstract_sequence.py", "View", "ABC"),
    "AbsoluteSequence": ("scoda/sequences/absolute_sequence.py", "AbsView", "AbstractSequence"),
    "RelativeSequence": ("scoda/sequences/relative_sequence.py", "RelView", "AbstractSequence"),
    "Sequence": ("scoda/sequences/sequence.py", "Seq", None),
    "Bar": ("scoda/elements/bar.py", "Bar", None),
    "Track": ("scoda/elements/track.py", "Trk", None),
    "Composition": ("scoda/elements/composition.py", "Cmp", None),
}
CLASS_OF = {"Msg": "Message", "View": "AbstractSequence", "AbsView": "AbsoluteSequence", "RelView": "RelativeSequence",
            "Seq": "Sequence", "Bar": "Bar", "Trk": "Track", "Cmp": "Composition"}
REFS = set(CLASS_OF)
# cell type -> (Heap field, setter, allocator of a blank cell)
CELL = {"Msg": ("msg", "setMsg", "newMessage"), "View": ("lst", "setLst", "newView"), "AbsView": ("lst", "setLst", "newView"),
        "RelView": ("lst", "setLst", "newView"), "Seq": ("seq", "setSeq", "newSequence"), "Bar": ("bar", "setBar", "newBarObj"),
        "Trk": ("trk", "setTrk", "newTrack"), "Cmp": ("cmp", "setCmp", "newComposition")}
# cell type -> python attribute -> (Lean field | None = the cell content itself, type)
FIELDS = {
    "Msg": MSG_FIELDS,
    "View": {"_messages": (None, "List Msg")},
    "Seq": {"_abs": ("abs", "Opt AbsView"), "_rel": ("rel", "Opt RelView"), "_abs_stale": ("absStale", "Bool"),
            "_rel_stale": ("relStale", "Bool")},
    "Bar": {"sequence": ("seq", "Seq"), "time_signature_numerator": ("num", "Int"), "time_signature_denominator": ("den", "Int"),
            "key_signature": ("key", "Int")},
    "Trk": {"bars": ("bars", "List Bar"), "name": ("name", "Int"), "program": ("program", "Int")},
    "Cmp": {"tracks": (None, "List Trk")},
}
FIELDS["AbsView"] = FIELDS["RelView"] = FIELDS["View"]
# scalar attributes that the cells of HeapOps do not model (see "Scalars outside the identity state" in the module docstring):
# cell type -> attribute names.  A store is accepted only if the stored expression is a scalar (Int / None / value level);
# a read is a value-level result.
UNMODELLED_SCALARS = {}
# `Message(...)` calls with a value-level argument: the VALUE of the new message comes from the oracle, as in HeapOps
# (qualified function, source text of the call) -> Lean template over the exactly translated keyword arguments
ORACLE_MESSAGES = {
    ("Bar.__init__", "Message(message_type=MessageType.TIME_SIGNATURE, channel=default_channel, "
                     "numerator=self.time_signature_numerator, denominator=self.time_signature_denominator)"):
        "g.orc.tsMsg {numerator} {denominator}",
}
# list attributes that take over the caller's list object (see the module docstring)
BY_VALUE_LISTS = {("Trk", "bars"), ("Cmp", "tracks")}

# parameter types: (class, method, parameter) or annotation text
ANNOT = {"int": "Int", "bool": "Bool", "Message": "Msg", "Sequence": "Seq", "AbsoluteSequence": "AbsView",
         "RelativeSequence": "RelView", "MessageType": "MType", "Key": "Int", "str": "Int", "list[Message]": "List Msg",
         "list[Sequence]": "List Seq", "list[RelativeSequence]": "List RelView", "[Bar]": "List Bar", "[Track]": "List Trk",
         "list[int]": "Val"}
PARAM = {("AbstractSequence", "messages"): "List Msg", ("AbsoluteSequence", "messages"): "List Msg",
         ("RelativeSequence", "messages"): "List Msg", ("Bar", "key"): "Int", ("Bar", "default_channel"): "Val",
         ("RelativeSequence", "index"): "Opt Int", ("Sequence", "index"): "Opt Int", ("Sequence", "msg"): "Msg",
         ("Sequence", "padding_length"): "Val", ("Sequence", "capacities"): "Val", ("Sequence", "note_values"): "Val",
         ("Sequence", "standard_length"): "Val", ("Sequence", "do_not_extend"): "Val"}

# functions translated on demand, and their Lean names
LEAN_NAME = {}

# view-level methods that are links of Model/HeapLib.lean: (class, method) -> (Lean link, takes a tag, result type)
LINKS = {
    ("RelativeSequence", "to_absolute_sequence"): ("relToAbsoluteSequence", False, "AbsView"),
    ("AbsoluteSequence", "to_relative_sequence"): ("absToRelativeSequence", False, "RelView"),
    ("RelativeSequence", "normalise_relative"): ("relNormaliseRelative", True, "Unit"),
    ("RelativeSequence", "pad"): ("relPad", True, "Unit"),
    ("AbsoluteSequence", "quantise_note_lengths"): ("absQuantiseNoteLengths", True, "Unit"),
    ("RelativeSequence", "split"): ("relSplit", True, "List RelView"),
}

# oracle tags of call sites, as HeapOps names them (qualified function, source text of the call) -> tag expression
TAGS = {
    ("Bar.__init__", "self.sequence.pad(capacity)"): "(mix tag 1)",
    ("Track.copy", "self.__class__([bar.copy() for bar in self.bars], self.name)"): "(mix tag 4)",
}
# comprehensions whose elements get successive tags: (qualified function, source text) -> step
TAGSTEPS = {
    ("Track.copy", "[bar.copy() for bar in self.bars]"): 3,
    ("Composition.copy", "[track.copy() for track in self.tracks]"): 5,
}
# value-level `if` conditions decided by the oracle: (qualified function, condition text) -> Lean template ({h} = current heap)
DECISIONS = {
    ("Bar.__init__", "duration < capacity"): "g.barPadDec (mix tag 1) (optVals {h} ({h}.seq ({h}.bar self_).seq).rel)",
}
# `if <value-level condition>: raise …` that HeapOps does not model
VALUE_RAISES = {
    ("Bar.__init__", "duration > capacity"), ("Bar.__init__", "len(time_signatures) > 1"),
    ("Bar.__init__", "not all((msg.numerator == self.time_signature_numerator and msg.denominator == self.time_signature_denominator for msg in time_signatures))"),
    ("Track.__init__", "not all((msg.program == program_changes[0].program for msg in program_changes))"),
}
RAISES = {"SequenceException('Sequence references stale.')": "HErr.stale",
          "SequenceException('Invalid sequence initialisation.')": "HErr.seqError"}
PURE_BUILTINS = {"int", "sum", "len", "all", "any", "float", "min", "max"}


def lean_ty(t):
    if t in REFS:
        return "Nat"
    if t.startswith("Opt "):
        return f"Option ({lean_ty(t[4:])})"
    if t.startswith("List "):
        return f"List ({lean_ty(t[5:])})"
    if t in ("Int", "Bool", "MType", "Unit"):
        return t
    if t == "List ?":
        return "List Nat"
    raise Untranslatable(f"no Lean type for {t}")


def sub(t, want):
    """t may be used where `want` is expected"""
    if t == want:
        return True
    if want == "View" and t in ("AbsView", "RelView"):
        return True
    if t.startswith("List ") and want.startswith("List "):
        return sub(t[5:], want[5:])
    return False


def parse_class(cls):
    path, _, base = CLASSES[cls]
    tree = ast.parse(open(os.path.join(REPO, path)).read())
    for node in tree.body:
        if isinstance(node, ast.ClassDef) and node.name == cls:
            bases = [ast.unparse(b) for b in node.bases]
            if bases != ([base] if base else []):
                raise Untranslatable(f"class {cls} has bases {bases} (expected {[base] if base else []})")
            return {n.name: n for n in node.body if isinstance(n, ast.FunctionDef)}
    raise Untranslatable(f"class {cls} not found in {path}")


class Registry:
    def __init__(self):
        self.methods = {c: parse_class(c) for c in CLASSES}
        self.done = {}            # (cls, meth) -> (lean name, sig, ret type)
        self.order = []
        self.in_progress = set()
        self.defaults = []
        self.links_used = []

    def resolve(self, cls, meth):
        """the class that defines `meth` for objects of class `cls` (walking up the bases)"""
        c = cls
        while c in CLASSES:
            if meth in self.methods[c]:
                return c
            c = CLASSES[c][2]
        return None

    def get(self, cls, meth):
        key = (cls, meth)
        if key in self.done:
            return self.done[key]
        if key in self.in_progress:
            raise Untranslatable(f"recursive call cycle through {cls}.{meth}")
        self.in_progress.add(key)
        fn = self.methods[cls][meth]
        check_decorators(fn, f"{cls}.{meth}")
        self.defaults += defaults_of(cls, fn)
        tr = FnTranslator(self, cls, fn)
        text = tr.translate()
        self.in_progress.discard(key)
        self.done[key] = (tr.lean_name, tr.sig, tr.ret_type)
        self.order.append((key, text))
        return self.done[key]


def lean_fn_name(cls, meth):
    m = {"__init__": "init", "__eq__": "eqDunder"}.get(meth, meth)
    return camel(cls[0].lower() + cls[1:] + "_" + m)


class FnTranslator:
    def __init__(self, reg, cls, fn):
        self.reg, self.cls, self.fn = reg, cls, fn
        self.qual = f"{cls}.{fn.name}"
        self.lean_name = lean_fn_name(cls, fn.name)
        self.lines = []
        self.types = {}        # python name -> type
        self.fresh_lists = set()
        self.tmp = 0
        self.heap = None       # name of the `HM.get` binding that is still current
        self.ret_type = None
        self.is_static = any(ast.unparse(d) == "staticmethod" for d in fn.decorator_list)
        self.is_generator = any(isinstance(n, (ast.Yield, ast.YieldFrom)) for n in ast.walk(fn))
        self.self_ty = CLASSES[cls][1]
        self.sig = []

    # ---------------------------------------------------------------- helpers
    def new(self, base="t"):
        self.tmp += 1
        return f"{base}{self.tmp}"

    def emit(self, ind, text, effect=True):
        self.lines.append(ind + text)
        if effect:
            self.heap = None

    def comment(self, ind, text):
        self.lines.append(f"{ind}-- {text}")

    def cur(self, ind):
        """a binding of the current heap"""
        if self.heap is None:
            self.heap = self.new("h")
            self.lines.append(f"{ind}let {self.heap} ← HM.get")
        return self.heap

    def lname(self, py):
        return "self_" if py == "self" else camel(py) + "_"

    def tag_of(self, node):
        return TAGS.get((self.qual, ast.unparse(node)), "tag")

    def coerce(self, v, t, want, ind, what=""):
        if want is None or sub(t, want):
            return v
        if want.startswith("Opt "):
            if t == "None":
                return "none"
            if sub(t, want[4:]):
                return f"(some {v})"
        if t.startswith("Opt ") and sub(t[4:], want):
            r = self.new()
            self.emit(ind, f"let {r} ← HM.deref {v}", effect=False)
            return r
        if want == "Int" and t == "None":
            return "pyNone"
        if t.startswith("List Opt ") and want.startswith("List ") and sub(t[9:], want[5:]):
            r = self.new()
            self.emit(ind, f"let {r} ← HM.mapM HM.deref {v}", effect=False)     # an element that is None fails when it is used
            return r
        raise Untranslatable(f"{self.qual}: {what}: a {t} where a {want} is expected")

    # ---------------------------------------------------------------- expressions
    def field(self, obj, obj_t, attr, ind):
        if attr in UNMODELLED_SCALARS.get(obj_t, ()):
            return None, "Val"
        if obj_t not in FIELDS or attr not in FIELDS[obj_t]:
            raise Untranslatable(f"{self.qual}: attribute {attr} of a {obj_t}")
        lf, ft = FIELDS[obj_t][attr]
        h = self.cur(ind)
        acc = f"{h}.{CELL[obj_t][0]} {obj}"
        return (f"({acc})" if lf is None else f"({acc}).{lf}"), ft

    def expr(self, n, ind):
        """(lean text | None for an opaque value, type); effects are emitted before"""
        if isinstance(n, ast.Constant):
            if n.value is None:
                return "none", "None"
            if isinstance(n.value, bool):
                return ("true" if n.value else "false"), "Bool"
            if isinstance(n.value, int):
                return (f"({n.value})" if n.value < 0 else str(n.value)), "Int"
            return None, "Val"
        if isinstance(n, ast.Name):
            if n.id == "self" and not self.is_static:
                return "self_", self.self_ty
            if n.id in self.types:
                t = self.types[n.id]
                return (None if t == "Val" else self.lname(n.id)), t
            if n.id == "PPQN":
                return None, "Val"
            raise Untranslatable(f"{self.qual}: unknown name {n.id}")
        if isinstance(n, ast.Attribute):
            if isinstance(n.value, ast.Name) and n.value.id == "MessageType":
                return f"MType.{camel(n.attr.lower())}", "MType"
            v, t = self.expr(n.value, ind)
            if t.startswith("Opt "):
                v = self.coerce(v, t, t[4:], ind, ast.unparse(n))
                t = t[4:]
            if t in REFS:
                cls = CLASS_OF[t]
                owner = self.reg.resolve(cls, n.attr)
                if owner is not None:                      # a property
                    fn = self.reg.methods[owner][n.attr]
                    if not any(ast.unparse(d) == "property" for d in fn.decorator_list):
                        raise Untranslatable(f"{self.qual}: method {n.attr} used as a value")
                    return self.call_translated(owner, n.attr, v, [], n, ind)
                return self.field(v, t, n.attr, ind)
            if t == "Val":
                return None, "Val"
            raise Untranslatable(f"{self.qual}: attribute {ast.unparse(n)} of a {t}")
        if isinstance(n, ast.UnaryOp) and isinstance(n.op, ast.Not):
            v, t = self.expr(n.operand, ind)
            if t == "Bool":
                return f"(!{v})", "Bool"
            if t == "Val":
                return None, "Val"
            raise Untranslatable(f"{self.qual}: not of a {t}")
        if isinstance(n, ast.BoolOp):
            vs = [self.expr(x, ind) for x in n.values]
            if all(t == "Bool" for _, t in vs):
                return "(" + (" && " if isinstance(n.op, ast.And) else " || ").join(v for v, _ in vs) + ")", "Bool"
            if all(t in ("Bool", "Val") for _, t in vs):
                return None, "Val"
            raise Untranslatable(f"{self.qual}: boolean operator over {[t for _, t in vs]}")
        if isinstance(n, ast.Compare) and len(n.ops) == 1:
            op, right = n.ops[0], n.comparators[0]
            if isinstance(op, (ast.Is, ast.IsNot)) and isinstance(right, ast.Constant) and right.value is None:
                v, t = self.expr(n.left, ind)
                if t == "Int":
                    return (f"({v} == pyNone)" if isinstance(op, ast.Is) else f"({v} != pyNone)"), "Bool"
                if not t.startswith("Opt "):
                    raise Untranslatable(f"{self.qual}: `{ast.unparse(n)}` on a {t}")
                return (f"{v}.isNone" if isinstance(op, ast.Is) else f"{v}.isSome"), "Bool"
            # len(<list of references>) compared with a constant: identity level
            if isinstance(n.left, ast.Call) and isinstance(n.left.func, ast.Name) and n.left.func.id == "len" \
                    and isinstance(right, ast.Constant) and isinstance(right.value, int):
                v, t = self.expr(n.left.args[0], ind)
                if t.startswith("List "):
                    sym = {ast.Gt: ">", ast.GtE: "≥", ast.Lt: "<", ast.LtE: "≤", ast.Eq: "==", ast.NotEq: "!="}.get(type(op))
                    if sym is None:
                        raise Untranslatable(f"{self.qual}: comparison {ast.unparse(n)}")
                    return f"(decide ({v}.length {sym} {right.value}))" if sym not in ("==", "!=") else f"({v}.length {sym} {right.value})", "Bool"
            lv, lt = self.expr(n.left, ind)
            rv, rt = self.expr(right, ind)
            if isinstance(op, (ast.Eq, ast.NotEq)) and lt == rt == "MType":
                return f"({lv} {'==' if isinstance(op, ast.Eq) else '!='} {rv})", "Bool"
            if lt in ("Val", "Int", "MType", "Bool") and rt in ("Val", "Int", "MType", "Bool", "None"):
                return None, "Val"
            raise Untranslatable(f"{self.qual}: comparison {ast.unparse(n)} ({lt} / {rt})")
        if isinstance(n, ast.BinOp):
            for x in (n.left, n.right):
                _, t = self.expr(x, ind)
                if t not in ("Val", "Int"):
                    raise Untranslatable(f"{self.qual}: arithmetic on a {t}")
            return None, "Val"
        if isinstance(n, ast.IfExp):
            # `<a> if <x> is not None else <b>` (or `is None`, branches swapped) on a local Optional reference: inside the guarded branch
            # `x` is the object; the branches must be value level and free of effects (only reads of the current heap)
            narrowed, guarded = None, None
            tst = n.test
            if isinstance(tst, ast.Compare) and len(tst.ops) == 1 and isinstance(tst.ops[0], (ast.Is, ast.IsNot)) \
                    and isinstance(tst.comparators[0], ast.Constant) and tst.comparators[0].value is None \
                    and isinstance(tst.left, ast.Name) and self.types.get(tst.left.id, "").startswith("Opt "):
                narrowed = tst.left.id
                guarded = n.body if isinstance(tst.ops[0], ast.IsNot) else n.orelse
            outer_lines, outer_heap = self.lines, self.heap
            self.lines = []
            try:
                for x in (n.test, n.body, n.orelse):
                    saved = self.types.get(narrowed)
                    if narrowed is not None and x is guarded:
                        self.types[narrowed] = saved[4:]
                    try:
                        _, t = self.expr(x, ind)
                    finally:
                        if narrowed is not None:
                            self.types[narrowed] = saved
                    if t not in ("Val", "Int", "Bool", "None"):
                        raise Untranslatable(f"{self.qual}: conditional expression over a {t}")
                inner = self.lines
            finally:
                self.lines, self.heap = outer_lines, outer_heap
            if not all("← HM.get" in ln or ln.strip().startswith("--") for ln in inner):
                raise Untranslatable(f"{self.qual}: conditional expression with effects: {ast.unparse(n)}")
            return None, "Val"
        if isinstance(n, ast.Subscript):
            v, t = self.expr(n.value, ind)
            if t.startswith("List ") and isinstance(n.slice, ast.Constant) and isinstance(n.slice.value, int) and n.slice.value >= 0:
                r = self.new()
                self.emit(ind, f"let {r} ← HM.index {v} {n.slice.value}", effect=False)
                return r, t[5:]
            if t == "Val":
                return None, "Val"
            raise Untranslatable(f"{self.qual}: subscript {ast.unparse(n)}")
        if isinstance(n, ast.List) and not n.elts:
            return "[]", "List ?"
        if isinstance(n, (ast.ListComp, ast.GeneratorExp)):
            return self.comprehension(n, ind)
        if isinstance(n, ast.Call):
            return self.call(n, ind)
        raise Untranslatable(f"{self.qual}: expression {ast.unparse(n)}")

    def predicate(self, cond, var, var_t, h):
        """an exactly translated value predicate on the loop variable, or None"""
        if isinstance(cond, ast.Compare) and len(cond.ops) == 1 and isinstance(cond.ops[0], (ast.Eq, ast.NotEq)) \
                and isinstance(cond.left, ast.Attribute) and isinstance(cond.left.value, ast.Name) and cond.left.value.id == var \
                and var_t == "Msg" and cond.left.attr == "message_type" \
                and isinstance(cond.comparators[0], ast.Attribute) and ast.unparse(cond.comparators[0].value) == "MessageType":
            sym = "==" if isinstance(cond.ops[0], ast.Eq) else "!="
            return f"(fun {self.lname(var)} => ({h}.msg {self.lname(var)}).ty {sym} MType.{camel(cond.comparators[0].attr.lower())})"
        return None

    def comprehension(self, n, ind):
        if len(n.generators) != 1 or not isinstance(n.generators[0].target, ast.Name) or len(n.generators[0].ifs) > 1:
            raise Untranslatable(f"{self.qual}: comprehension {ast.unparse(n)}")
        g = n.generators[0]
        it, it_t = self.expr(g.iter, ind)
        var = g.target.id
        if it_t == "Val":
            return None, "Val"
        if not it_t.startswith("List "):
            raise Untranslatable(f"{self.qual}: comprehension over a {it_t}")
        el_t = it_t[5:]
        saved = self.types.get(var)
        self.types[var] = el_t
        try:
            if g.ifs:
                p = self.predicate(g.ifs[0], var, el_t, self.cur(ind))
                if p is None:
                    self.opaque(g.ifs[0], ind)
                    self.opaque(n.elt, ind)
                    return None, "Val"
                r = self.new()
                self.emit(ind, f"let {r} := {it}.filter {p}", effect=False)
                it = r
            if isinstance(n.elt, ast.Name) and n.elt.id == var:
                return it, it_t
            # element expression: translated in a nested block
            step = TAGSTEPS.get((self.qual, ast.unparse(n)))
            outer_lines, outer_heap = self.lines, self.heap
            self.lines, self.heap = [], None
            v, t = self.expr(n.elt, ind + "    ")
            inner, self.lines, self.heap = self.lines, outer_lines, outer_heap
            if v is None and all(any(k in ln for k in ("← HM.get", "← HM.index", "← HM.deref")) or ln.strip().startswith("--") for ln in inner):
                inner = []                                  # a value-level element: its reads are not needed
            elif all("← HM.get" in ln or ln.strip().startswith("--") for ln in inner):
                # only reads of the current heap: the element expression is pure, the reads are hoisted
                self.lines += [ind + ln.strip() for ln in inner]
                inner = []
            if v is None:
                if inner:
                    raise Untranslatable(f"{self.qual}: opaque comprehension element with effects: {ast.unparse(n.elt)}")
                return None, "Val"
            r = self.new()
            if not inner:
                self.emit(ind, f"let {r} := {it}.map (fun {self.lname(var)} => {v})", effect=False)
            else:
                head = f"HM.mapTag (fun tag {self.lname(var)} => do" if step is not None else f"HM.mapM (fun {self.lname(var)} => do"
                tail = f") {step} tag {it}" if step is not None else f") {it}"
                self.emit(ind, f"let {r} ← {head}")
                self.lines += inner
                self.emit(ind + "    ", f"pure {v}{tail}")
            return r, f"List {t}"
        finally:
            if saved is None:
                self.types.pop(var, None)
            else:
                self.types[var] = saved

    def opaque(self, n, ind):
        """evaluate a value-level expression for its heap effects only"""
        v, t = self.expr(n, ind)
        return t

    def bind_args(self, owner, meth, call_args, call_kws, what, ind):
        """argument texts for the parameters of the translated / linked callee"""
        fn = self.reg.methods[owner][meth]
        is_static = any(ast.unparse(d) == "staticmethod" for d in fn.decorator_list)
        params = fn.args.args[(0 if is_static else 1):]
        defaults = [None] * (len(params) - len(fn.args.defaults)) + list(fn.args.defaults)
        given = {}
        for i, a in enumerate(call_args):
            if i >= len(params):
                raise Untranslatable(f"{self.qual}: too many arguments in {what}")
            given[params[i].arg] = a
        for kw in call_kws:
            if kw.arg not in [p.arg for p in params] or kw.arg in given:
                raise Untranslatable(f"{self.qual}: keyword {kw.arg} in {what}")
            given[kw.arg] = kw.value
        out = []
        for p, d in zip(params, defaults):
            node = given.get(p.arg, d)
            if node is None:
                raise Untranslatable(f"{self.qual}: missing argument {p.arg} in {what}")
            want = param_type(owner, fn, p, d)
            v, t = self.expr(node, ind)
            if want == "Val":
                continue                                    # value-level parameter: stands behind the tag
            if t == "List ?":
                t = want if not want.startswith("Opt ") else want[4:]
            if want.startswith("List ") and isinstance(node, ast.Name) and not want.startswith("Opt "):
                pass
            out.append(self.coerce(v, t, want, ind, f"argument {p.arg} of {what}"))
        return out

    def call_translated(self, owner, meth, recv, args, node, ind, kws=(), recv_t=None):
        name, sig, ret = self.reg.get(owner, meth)
        if ret == "View" and recv_t in ("AbsView", "RelView"):
            ret = recv_t                                    # `self.__class__(…)`: an object of the receiver's class
        a = self.bind_args(owner, meth, args, kws, ast.unparse(node), ind)
        tag = self.tag_of(node)
        recv_txt = [] if recv is None else [recv]
        text = " ".join([name, "g", tag] + recv_txt + a)
        if ret == "Unit":
            self.emit(ind, text)
            return "()", "Unit"
        r = self.new()
        self.emit(ind, f"let {r} ← {text}")
        return r, ret

    def construct(self, cls, args, kws, node, ind):
        """`Cls(args)`: a blank cell, then `Cls.__init__` on it"""
        t = CLASSES[cls][1]
        owner = self.reg.resolve(cls, "__init__")
        if owner is None:
            raise Untranslatable(f"{self.qual}: {cls} has no __init__")
        if cls == "Message" and (self.qual, ast.unparse(node)) in ORACLE_MESSAGES:
            # a value-level argument: the value of the new message is the oracle's; the allocation is translated
            self.reg.get(owner, "__init__")
            if args:
                raise Untranslatable(f"{self.qual}: positional arguments in {ast.unparse(node)}")
            vals = {}
            for kw in kws:
                v, ty = self.expr(kw.value, ind)
                if ty not in ("Int", "Val", "MType", "None"):
                    raise Untranslatable(f"{self.qual}: a {ty} as argument {kw.arg} of {ast.unparse(node)}")
                vals[kw.arg] = v
            tmpl = ORACLE_MESSAGES[(self.qual, ast.unparse(node))]
            try:
                val = tmpl.format(**{k: v for k, v in vals.items() if v is not None})
            except KeyError as e:
                raise Untranslatable(f"{self.qual}: the oracle entry of {ast.unparse(node)} needs the argument {e} exactly")
            r = self.new()
            self.emit(ind, f"let {r} ← HM.alloc (fun h => h.newMsg ({val}))")
            return r, t
        name, sig, ret = self.reg.get(owner, "__init__")
        a = self.bind_args(owner, "__init__", args, kws, ast.unparse(node), ind)     # arguments are evaluated before the allocation
        r = self.new()
        self.emit(ind, f"let {r} ← {CELL[t][2]}")
        self.emit(ind, " ".join([name, "g", self.tag_of(node), r] + a))
        return r, t

    def call(self, n, ind):
        f = n.func
        if isinstance(f, ast.Name):
            if f.id in CLASSES:
                return self.construct(f.id, n.args, n.keywords, n, ind)
            if f.id == "Key":
                for a in n.args:
                    self.opaque(a, ind)
                return None, "Val"
            if f.id == "next":
                # next(<generator expression>, None): the first yielded reference, or None.  (Without a default the call raises
                # StopIteration: refused.)  The generator's filter is an exactly translated value predicate without effects.
                if len(n.args) != 2 or n.keywords or not (isinstance(n.args[1], ast.Constant) and n.args[1].value is None) \
                        or not isinstance(n.args[0], ast.GeneratorExp):
                    raise Untranslatable(f"{self.qual}: {ast.unparse(n)} (only next(<generator expression>, None))")
                v, t = self.expr(n.args[0], ind)
                if v is None or not t.startswith("List ") or t[5:] not in REFS:
                    raise Untranslatable(f"{self.qual}: next over a {t}")
                return f"{v}.head?", f"Opt {t[5:]}"
            if f.id in PURE_BUILTINS:
                for a in n.args:
                    t = self.opaque(a, ind)
                return None, "Val"
            raise Untranslatable(f"{self.qual}: call of {f.id}")
        if isinstance(f, ast.Attribute):
            # super().__init__(…)
            if isinstance(f.value, ast.Call) and ast.unparse(f.value) == "super()" and f.attr == "__init__":
                base = CLASSES[self.cls][2]
                if base in (None, "ABC"):
                    if n.args or n.keywords:
                        raise Untranslatable(f"{self.qual}: arguments to object.__init__")
                    self.comment(ind, "(object.__init__: nothing)")
                    return "()", "Unit"
                return self.call_translated(base, "__init__", "self_", n.args, n, ind, n.keywords)
            # self.__class__(…)
            if f.attr == "__class__" and isinstance(f.value, ast.Name) and f.value.id == "self":
                if self.cls == "AbstractSequence":
                    return self.construct_view_class(n, ind)
                return self.construct(self.cls, n.args, n.keywords, n, ind)
            # static methods: Bar.to_sequence(…), Sequence.sequences_split_bars(…)
            if isinstance(f.value, ast.Name) and f.value.id in CLASSES and f.value.id not in self.types:
                owner = self.reg.resolve(f.value.id, f.attr)
                if owner is None:
                    raise Untranslatable(f"{self.qual}: {ast.unparse(f)} not found")
                return self.call_translated(owner, f.attr, None, n.args, n, ind, n.keywords)
            # copy.copy(<list>)
            if ast.unparse(f) == "copy.copy" and len(n.args) == 1:
                v, t = self.expr(n.args[0], ind)
                if t.startswith("List "):
                    return v, t                              # a new list object with the same references
                raise Untranslatable(f"{self.qual}: copy.copy of a {t}")
            # local list / attribute list mutation
            if f.attr in ("append", "extend", "insert"):
                return self.list_mutation(n, ind)
            recv, rt = self.expr(f.value, ind)
            if rt.startswith("Opt "):
                recv = self.coerce(recv, rt, rt[4:], ind, ast.unparse(f.value))
                rt = rt[4:]
            if rt == "Val":
                for a in n.args:
                    self.opaque(a, ind)
                return None, "Val"
            if rt not in REFS:
                raise Untranslatable(f"{self.qual}: method {f.attr} of a {rt}")
            cls = CLASS_OF[rt]
            owner = self.reg.resolve(cls, f.attr)
            if owner is None:
                raise Untranslatable(f"{self.qual}: {cls}.{f.attr} not found")
            if (owner, f.attr) in LINKS:
                link, tagged, ret = LINKS[(owner, f.attr)]
                for a in list(n.args) + [k.value for k in n.keywords]:
                    if self.opaque(a, ind) not in ("Val", "Int", "Bool", "None"):
                        raise Untranslatable(f"{self.qual}: object-valued argument of the linked {owner}.{f.attr}")
                check_decorators(self.reg.methods[owner][f.attr], f"{owner}.{f.attr}")
                if (owner, f.attr) not in self.reg.links_used:
                    self.reg.links_used.append((owner, f.attr))
                text = " ".join([link, "g.orc"] + ([self.tag_of(n)] if tagged else []) + [recv])
                if ret == "Unit":
                    self.emit(ind, text)
                    return "()", "Unit"
                r = self.new()
                self.emit(ind, f"let {r} ← {text}")
                return r, ret
            if owner == "AbstractSequence" and rt == "View" and False:
                pass
            return self.call_translated(owner, f.attr, recv, n.args, n, ind, n.keywords, recv_t=rt)
        raise Untranslatable(f"{self.qual}: call {ast.unparse(n)}")

    def construct_view_class(self, n, ind):
        """`self.__class__(…)` in AbstractSequence: AbsoluteSequence or RelativeSequence; both constructors are translated and
        the generated file checks by `rfl` that they are the same function"""
        self.reg.get("AbsoluteSequence", "__init__")
        name, sig, ret = self.reg.get("RelativeSequence", "__init__")
        a = self.bind_args("RelativeSequence", "__init__", n.args, n.keywords, ast.unparse(n), ind)
        r = self.new()
        self.emit(ind, f"let {r} ← newView")
        self.emit(ind, " ".join(["viewClassInit", "g", self.tag_of(n), r] + a))
        self.reg.need_view_class = True
        return r, "View"

    def list_mutation(self, n, ind):
        f = n.func
        tgt = f.value
        # local list
        if isinstance(tgt, ast.Name) and tgt.id in self.types and self.types[tgt.id].startswith("List "):
            if tgt.id not in self.fresh_lists:
                raise Untranslatable(f"{self.qual}: {ast.unparse(n)} mutates a list that this function does not own (a parameter or an alias)")
            lt = self.types[tgt.id]
            v = self.lname(tgt.id)
            if f.attr == "append" and len(n.args) == 1:
                a, t = self.expr(n.args[0], ind)
                if lt == "List ?":
                    lt = self.types[tgt.id] = f"List {t}"
                    self.patch_decl(tgt.id, lt)
                self.emit(ind, f"{v} := {v} ++ [{self.coerce(a, t, lt[5:], ind, ast.unparse(n))}]", effect=False)
                return "()", "Unit"
            raise Untranslatable(f"{self.qual}: {ast.unparse(n)}")
        # <view>._messages.append / extend / insert
        if isinstance(tgt, ast.Attribute):
            obj, ot = self.expr(tgt.value, ind)
            if ot in FIELDS and tgt.attr in FIELDS[ot] and FIELDS[ot][tgt.attr][0] is None:
                fld, setter, _ = CELL[ot]
                el = FIELDS[ot][tgt.attr][1][5:]
                if f.attr == "append" and len(n.args) == 1:
                    a, t = self.expr(n.args[0], ind)
                    a = self.coerce(a, t, el, ind, ast.unparse(n))
                    self.emit(ind, f"HM.modify (fun h => h.{setter} {obj} (h.{fld} {obj} ++ [{a}]))")
                    return "()", "Unit"
                if f.attr == "extend" and len(n.args) == 1:
                    a, t = self.expr(n.args[0], ind)
                    a = self.coerce(a, t, f"List {el}", ind, ast.unparse(n))
                    self.emit(ind, f"HM.modify (fun h => h.{setter} {obj} (h.{fld} {obj} ++ {a}))")
                    return "()", "Unit"
                if f.attr == "insert" and len(n.args) == 2:
                    i, it = self.expr(n.args[0], ind)
                    a, t = self.expr(n.args[1], ind)
                    a = self.coerce(a, t, el, ind, ast.unparse(n))
                    i = self.coerce(i, it, "Int", ind, ast.unparse(n))
                    self.emit(ind, f"HM.modify (fun h => h.{setter} {obj} (HM.pyInsert {a} {i} (h.{fld} {obj})))")
                    return "()", "Unit"
        raise Untranslatable(f"{self.qual}: {ast.unparse(n)}")

    def patch_decl(self, name, lt):
        v = self.lname(name)
        for i, ln in enumerate(self.lines):
            if ln.strip().startswith(f"let mut {v} : List ? :="):
                self.lines[i] = ln.replace("List ?", lean_ty(lt))

    # ---------------------------------------------------------------- statements
    def assign_local(self, name, v, t, ind, fresh):
        lv = self.lname(name)
        if t == "Val":
            if self.types.get(name, "Val") != "Val":
                raise Untranslatable(f"{self.qual}: {name} receives a value-level result but is a {self.types[name]}")
            self.types[name] = "Val"
            self.comment(ind, f"({name}: value level)")
            return
        if t == "Unit":
            raise Untranslatable(f"{self.qual}: {name} receives no value")
        known = self.types.get(name)
        if fresh:
            self.fresh_lists.add(name)
        else:
            self.fresh_lists.discard(name)
        if known is None:
            if t == "None":
                raise Untranslatable(f"{self.qual}: `{name} = None` without a later typed assignment")
            self.types[name] = t
            ty = "List ?" if t == "List ?" else lean_ty(t)
            self.emit(ind, f"let mut {lv} : {ty} := {v}", effect=False)
        else:
            if known == "List ?" and t.startswith("List ") and t != "List ?":
                self.types[name] = known = t
                self.patch_decl(name, t)
            self.emit(ind, f"{lv} := {self.coerce(v, t, known, ind, f'assignment to {name}')}", effect=False)

    def is_fresh_list(self, node):
        return (isinstance(node, ast.List) and not node.elts) or isinstance(node, ast.ListComp) \
            or (isinstance(node, ast.Call) and ast.unparse(node.func) == "copy.copy") \
            or (isinstance(node, ast.Name) and node.id in self.fresh_lists)

    def store(self, tgt, value, ind, src):
        obj, ot = self.expr(tgt.value, ind)
        if ot.startswith("Opt "):
            obj = self.coerce(obj, ot, ot[4:], ind, src)
            ot = ot[4:]
        if tgt.attr in UNMODELLED_SCALARS.get(ot, ()):
            v, t = self.expr(value, ind)
            if t not in ("Int", "Val", "None"):
                raise Untranslatable(f"{self.qual}: `{src}` stores a {t} into the scalar attribute {tgt.attr} (not part of the identity state)")
            self.comment(ind, f"({tgt.attr}: a scalar attribute outside the identity state; the stored value is a scalar)")
            return
        if ot not in FIELDS or tgt.attr not in FIELDS[ot]:
            raise Untranslatable(f"{self.qual}: store into {ast.unparse(tgt)} (a {ot})")
        lf, ft = FIELDS[ot][tgt.attr]
        v, t = self.expr(value, ind)
        if ft.startswith("List "):
            if t == "List ?":
                t = ft
            if not self.is_fresh_list(value) and (ot if ot in ("Trk", "Cmp") else "View", tgt.attr) not in BY_VALUE_LISTS:
                raise Untranslatable(f"{self.qual}: `{src}` makes {tgt.attr} share the list object of {ast.unparse(value)}")
        if t == "Val":
            raise Untranslatable(f"{self.qual}: `{src}` stores a value-level result (no oracle entry)")
        v = self.coerce(v, t, ft, ind, src)
        fld, setter, _ = CELL[ot]
        if lf is None:
            self.emit(ind, f"HM.modify (fun h => h.{setter} {obj} {v})")
        else:
            self.emit(ind, f"HM.modify (fun h => h.{setter} {obj} {{ h.{fld} {obj} with {lf} := {v} }})")

    def stmts(self, body, ind):
        for s in body:
            src = ast.unparse(s).split("\n")[0]
            if isinstance(s, ast.Expr) and isinstance(s.value, ast.Constant) and isinstance(s.value.value, str):
                continue
            if isinstance(s, (ast.Import, ast.ImportFrom)):
                self.comment(ind, src)
                continue
            self.comment(ind, src)
            if isinstance(s, ast.Expr) and isinstance(s.value, ast.Call):
                self.expr(s.value, ind)
            elif isinstance(s, ast.Expr) and isinstance(s.value, ast.Yield):
                v, t = self.expr(s.value.value, ind)
                if t != "Msg":
                    raise Untranslatable(f"{self.qual}: yield of a {t}")
                self.emit(ind, f"yielded_ := yielded_ ++ [{v}]", effect=False)
            elif isinstance(s, (ast.Assign, ast.AnnAssign)):
                tgts = s.targets if isinstance(s, ast.Assign) else [s.target]
                if len(tgts) != 1 or s.value is None:
                    raise Untranslatable(f"{self.qual}: {src}")
                tgt = tgts[0]
                if isinstance(tgt, ast.Attribute):
                    self.store(tgt, s.value, ind, src)
                elif isinstance(tgt, ast.Name):
                    if isinstance(s.value, ast.Constant) and s.value.value is None and tgt.id in self.none_init:
                        self.emit(ind, f"{self.lname(tgt.id)} := none", effect=False)
                        continue
                    fresh = self.is_fresh_list(s.value)
                    v, t = self.expr(s.value, ind)
                    if t.startswith("List ") and not fresh and not (isinstance(s.value, ast.Call)):
                        raise Untranslatable(f"{self.qual}: `{src}` gives the list object of {ast.unparse(s.value)} a second name")
                    if t.startswith("List ") and isinstance(s.value, ast.Call):
                        fresh = True                       # a list returned by a call is handed over to the caller
                    self.assign_local(tgt.id, v, t, ind, fresh)
                else:
                    raise Untranslatable(f"{self.qual}: assignment target {ast.unparse(tgt)}")
            elif isinstance(s, ast.If):
                self.if_stmt(s, ind)
            elif isinstance(s, ast.Raise):
                txt = ast.unparse(s.exc)
                if txt not in RAISES:
                    raise Untranslatable(f"{self.qual}: raise {txt}")
                self.emit(ind, f"HM.fail {RAISES[txt]}")
            elif isinstance(s, ast.Return):
                if s.value is None:
                    v, t = "()", "Unit"
                else:
                    v, t = self.expr(s.value, ind)
                    if t == "Val":
                        raise Untranslatable(f"{self.qual}: returns a value-level result")
                if self.ret_type is not None and self.ret_type != t:
                    if sub(t, self.ret_type):
                        pass
                    else:
                        raise Untranslatable(f"{self.qual}: return types differ ({self.ret_type} / {t})")
                else:
                    self.ret_type = t
                self.emit(ind, f"return {v}", effect=False)
            elif isinstance(s, ast.For):
                self.for_stmt(s, ind)
            elif isinstance(s, ast.Pass):
                self.emit(ind, "pure ()", effect=False)
            elif isinstance(s, ast.Try):
                self.try_stmt(s, ind)
            else:
                raise Untranslatable(f"{self.qual}: statement {type(s).__name__}: {src}")

    def if_stmt(self, s, ind):
        cond_txt = ast.unparse(s.test)
        only_raise = len(s.body) == 1 and isinstance(s.body[0], ast.Raise) and not s.orelse
        c, t = self.expr(s.test, ind)
        if only_raise and (self.qual, cond_txt) in VALUE_RAISES:
            self.comment(ind, f"(value-level exception {ast.unparse(s.body[0].exc)}: not modelled, as in HeapOps)")
            return
        if t == "Val":
            if (self.qual, cond_txt) not in DECISIONS:
                raise Untranslatable(f"{self.qual}: value-level condition `{cond_txt}` has no oracle entry")
            c = DECISIONS[(self.qual, cond_txt)].replace("{h}", self.cur(ind))
        elif t != "Bool":
            raise Untranslatable(f"{self.qual}: condition `{cond_txt}` is a {t}")
        self.emit(ind, f"if {c} then", effect=False)
        self.heap = None
        self.stmts(s.body, ind + "  ")
        self.heap = None
        if s.orelse:
            self.emit(ind, "else", effect=False)
            self.stmts(s.orelse, ind + "  ")
            self.heap = None

    def for_stmt(self, s, ind):
        if s.orelse or not isinstance(s.target, ast.Name):
            raise Untranslatable(f"{self.qual}: for loop {ast.unparse(s).splitlines()[0]}")
        it, t = self.expr(s.iter, ind)
        if not t.startswith("List ") or it is None:
            raise Untranslatable(f"{self.qual}: for loop over a {t}")
        self.types[s.target.id] = t[5:]
        self.emit(ind, f"for {self.lname(s.target.id)} in {it} do", effect=False)
        self.heap = None
        self.stmts(s.body, ind + "  ")
        self.heap = None

    def try_stmt(self, s, ind):
        if s.handlers or s.orelse or not s.finalbody or not self.is_generator:
            raise Untranslatable(f"{self.qual}: try statement outside the generator pattern")
        self.emit(ind, "let yielded_ ← HM.tryFinally (do", effect=False)
        self.emit(ind + "    ", "let mut yielded_ : List Nat := []", effect=False)
        self.heap = None
        self.stmts(s.body, ind + "    ")
        self.emit(ind + "    ", "return yielded_)", effect=False)
        self.emit(ind + "  ", "(do", effect=False)
        self.heap = None
        self.stmts(s.finalbody, ind + "    ")
        self.emit(ind + "    ", "pure ())")
        self.generator_done = True

    # ---------------------------------------------------------------- whole function
    def translate(self):
        fn = self.fn
        args = fn.args.args[(0 if self.is_static else 1):]
        if fn.args.vararg or fn.args.kwarg or fn.args.kwonlyargs:
            raise Untranslatable(f"{self.qual}: * / ** parameters")
        defaults = [None] * (len(args) - len(fn.args.defaults)) + list(fn.args.defaults)
        params = []
        for a, d in zip(args, defaults):
            t = param_type(self.cls, fn, a, d)
            self.types[a.arg] = t
            self.sig.append((a.arg, t))
            if t != "Val":
                params.append(f"({self.lname(a.arg)} : {lean_ty(t)})")
        # `x = None` followed by a typed assignment: an Optional local
        self.none_init = {}
        for node in ast.walk(fn):
            if isinstance(node, ast.Assign) and len(node.targets) == 1 and isinstance(node.targets[0], ast.Name) \
                    and isinstance(node.value, ast.Constant) and node.value.value is None:
                self.none_init[node.targets[0].id] = None
        for nm in self.none_init:
            t = self.infer_optional(nm)
            self.types[nm] = f"Opt {t}"
            self.lines.append(f"  let mut {self.lname(nm)} : {lean_ty('Opt ' + t)} := none")
        body = [s for s in fn.body if not (isinstance(s, ast.Expr) and isinstance(s.value, ast.Constant))]
        if self.is_generator and not (len(body) == 1 and isinstance(body[0], ast.Try)):
            raise Untranslatable(f"{self.qual}: generator outside the try / for / yield / finally pattern")
        self.stmts(body, "  ")
        if self.is_generator:
            self.ret_type = "List Msg"
            self.lines.append("  return yielded_")
        elif not isinstance(body[-1], ast.Return):
            if self.ret_type not in (None, "Unit"):
                raise Untranslatable(f"{self.qual}: falls off the end of a value-returning function")
            self.ret_type = "Unit"
            if not self.lines or self.lines[-1].strip().startswith("--") or isinstance(body[-1], (ast.If, ast.For)):
                self.lines.append("  pure ()")
        recv = [] if self.is_static else ["(self_ : Nat)"]
        head = f"def {self.lean_name} (g : GOrc) (tag : Nat) {' '.join(recv + params)} : HM {paren(lean_ty(self.ret_type))} := do"
        doc = f"/-- translation of `{self.qual}` ({CLASSES[self.cls][0].split('/')[-1]}:{fn.lineno}) -/"
        return "\n".join([doc, head.replace("  :", " :")] + self.lines) + "\n"

    def infer_optional(self, nm):
        # the type of the first non-None assignment, found by a dry run of its right-hand side's shape
        for node in ast.walk(self.fn):
            if isinstance(node, ast.Assign) and isinstance(node.targets[0], ast.Name) and node.targets[0].id == nm \
                    and not (isinstance(node.value, ast.Constant) and node.value.value is None):
                v = node.value
                if isinstance(v, ast.Call) and isinstance(v.func, ast.Attribute) and v.func.attr == "copy":
                    base = ast.unparse(v.func.value)
                    if base.endswith(".abs") or base.endswith("._abs"):
                        return "AbsView"
                    if base.endswith(".rel") or base.endswith("._rel"):
                        return "RelView"
        raise Untranslatable(f"{self.qual}: cannot type the optional local {nm}")


def paren(t):
    return f"({t})" if " " in t else t


def param_type(cls, fn, a, default):
    ann = ast.unparse(a.annotation) if a.annotation is not None else None
    t = PARAM.get((cls, a.arg)) or ANNOT.get(ann)
    if t is None:
        raise Untranslatable(f"{cls}.{fn.name}: parameter {a.arg}: unknown type ({ann})")
    if default is not None and isinstance(default, ast.Constant) and default.value is None and t not in ("Int", "Val", "MType") \
            and not t.startswith("Opt "):
        t = f"Opt {t}"
    return t


# routes of C16: (class, method) roots; callees are translated on demand
ROOTS = [
    ("Message", "copy"), ("AbstractSequence", "copy"), ("Sequence", "copy"),
    ("Sequence", "split"),
    ("Bar", "copy"), ("Track", "copy"), ("Composition", "copy"),
]

PRELUDE = '''
/-- `self.__class__` of a view object is `AbsoluteSequence` or `RelativeSequence`; both constructors have the same translation -/
def viewClassInit := absoluteSequenceInit
example : @absoluteSequenceInit = @relativeSequenceInit := rfl
'''


def gen_heap_fns():
    reg = Registry()
    reg.need_view_class = False
    for cls, meth in ROOTS:
        reg.get(cls, meth)
    out = []
    emitted_prelude = False
    for (cls, meth), text in reg.order:
        if "viewClassInit" in text and not emitted_prelude:
            out.append(PRELUDE)
            emitted_prelude = True
        out.append(text)
    head = [
        "/- GENERATED by tools/py2lean_heap.py from scoda/elements/*.py and scoda/sequences/*.py — do not edit.",
        "   Statement-by-statement translation, with respect to OBJECT IDENTITY, of the derivation routes of C16 over the cell heap of",
        "   Model/HeapOps.lean (conventions: docstring of the translator; support library and link table: Model/HeapLib.lean).",
        "   Links (view-level methods, identity behaviour as in HeapOps, values from the oracle): "
        + ", ".join(f"{c}.{m}" for c, m in reg.links_used) + ". -/",
        "import SCoda.Model.HeapLib",
        "set_option linter.unusedVariables false",
        "namespace SCoda.Gen.HeapFns",
        "open SCoda SCoda.HeapOps SCoda.HeapLib",
        "",
    ]
    names = "def translated : List String := [" + ", ".join(f'"{c}.{m}"' for (c, m), _ in reg.order) + "]\n"
    names += "\n/-- every default argument of the translated functions, as written in the source -/\n"
    names += "def defaults : List String := [" + ", ".join('"' + d.replace('"', "'") + '"' for d in reg.defaults) + "]\n"
    return "\n".join(head) + "\n" + "\n".join(out) + "\n" + names + "\nend SCoda.Gen.HeapFns\n"


if __name__ == "__main__":
    print(gen_heap_fns())
