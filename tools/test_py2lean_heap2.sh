#!/bin/bash
# Mutation self-test of the identity tie of RelativeSequence.split (tools/py2lean_heap2.py + lean/SCoda/Props/HeapTie2.lean).
#
# For each small IDENTITY-CHANGING edit of a scratch COPY of the S-Coda source: regenerate lean/SCoda/Gen/HeapFns2.lean from the copy, check
# that the generated text changed (or that generation failed loudly: the edit was refused), and check that `lake build SCoda.Props.HeapTie2`
# FAILS.  On the unedited source it must PASS (checked first and last; the last run also restores the generated file).
# /repo and /verif are never written; scratch copies live under $SCRATCH (default <framework>/../src/mut_heap2) and are removed.
#
#   usage: [ORIG=<source root, default /repo>] tools/test_py2lean_heap2.sh      (works on the copy of the framework it lives in)
#
# Value-only edits (e.g. a different carry time) are NOT expected to break this tie: it is about identities; values are tied by
# Props/RelTie2.lean (tools/test_py2lean_rel2.sh).
set -u
HERE="$(cd "$(dirname "$0")/.." && pwd)"
SCRATCH="${SCRATCH:-$HERE/../src/mut_heap2}"
PY=/venv/bin/python
ORIG="${ORIG:-/repo}"
fail=0

regen_and_build() {   # $1 = repo root to translate; prints PASS / FAIL(gen) / FAIL(build)
  if ! ( cd "$HERE" && SCODA_REPO="$1" $PY tools/py2lean_heap2.py > "$SCRATCH/HeapFns2.new" 2> "$SCRATCH/gen.err" ); then echo "FAIL(gen)"; return; fi
  cp "$SCRATCH/HeapFns2.new" "$HERE/lean/SCoda/Gen/HeapFns2.lean"
  if ( cd "$HERE/lean" && lake build SCoda.Props.HeapTie2 > "$SCRATCH/last.log" 2>&1 ); then echo "PASS"; else echo "FAIL(build)"; fi
}

report() {   # $1 = name, $2 = description, $3 = root
  local name="$1" desc="$2" root="$3"
  cp "$HERE/lean/SCoda/Gen/HeapFns2.lean" "$SCRATCH/HeapFns2.before"
  local res; res=$(regen_and_build "$root")
  local changed="generated text changed"
  cmp -s "$SCRATCH/HeapFns2.before" "$HERE/lean/SCoda/Gen/HeapFns2.lean" && changed="GENERATED TEXT UNCHANGED"
  local why=""
  if [ "$res" = "FAIL(build)" ]; then why=$(grep -m1 -o 'error: [^ ]*\(HeapTie2\|HeapTie2L\|HeapFns2\).lean:[0-9]*' "$SCRATCH/last.log" | sed 's/error: //'); fi
  if [ "$res" = "FAIL(gen)" ]; then why="refused: $(tail -1 "$SCRATCH/gen.err" | cut -c1-200)"; changed="generation refused"; fi
  echo "$name: $desc"
  echo "    -> $changed; HeapTie2 build: $res  $why"
  if [ "$res" = "PASS" ] || [ "$changed" = "GENERATED TEXT UNCHANGED" ]; then echo "    !! MUTANT SURVIVED"; fail=1; fi
  rm -rf "$root"
}

mutant() {   # $1 = name, $2 = file below scoda/, $3 = python regex, $4 = replacement, $5 = description
  local name="$1" file="$2" pat="$3" rep="$4" desc="$5"
  local root="$SCRATCH/$name"
  rm -rf "$root"; mkdir -p "$root"; cp -r "$ORIG/scoda" "$root/scoda"
  if ! $PY - "$root/scoda/$file" "$pat" "$rep" <<'PYEOF'
import re, sys
path, pat, rep = sys.argv[1:4]
src = open(path).read()
new, n = re.subn(pat, rep, src, count=1, flags=re.S)
if n != 1 or new == src:
    sys.exit(1)
open(path, "w").write(new)
PYEOF
  then echo "$name: the edit did not apply (source changed?)"; fail=1; return; fi
  report "$name" "$desc" "$root"
}

patched() {   # $1 = name, $2 = patch file, $3 = description
  local name="$1" pf="$2" desc="$3"
  local root="$SCRATCH/$name"
  rm -rf "$root"; mkdir -p "$root"; cp -r "$ORIG/scoda" "$root/scoda"
  if ! patch -s -p1 -d "$root" < "$pf" > /dev/null 2>&1; then echo "$name: the patch did not apply (source changed?)"; fail=1; return; fi
  report "$name" "$desc" "$root"
}

mkdir -p "$SCRATCH"
echo "== original source ($ORIG)"
t0=$(date +%s); r=$(regen_and_build "$ORIG"); t1=$(date +%s)
echo "original: HeapTie2 build: $r ($((t1 - t0)) s)"
[ "$r" = "PASS" ] || { echo "!! the unedited source does not pass"; fail=1; }

R=sequences/relative_sequence.py
echo "== RelativeSequence.split"
patched a1_seeded_C16_agent7 "$HERE/seeded/C16_agent7/patch.diff" \
  "the seeded change C16_agent7: the popped wait is shortened in place and re-used for the remainder (msg.time -= remaining_capacity; queue.append(msg))"
mutant a2_no_copy_of_list $R \
  'working_memory = copy\.copy\(self\._messages\)' 'working_memory = self._messages' \
  "working_memory is the receiver's own list: pop(0) consumes the receiver (must be refused: a second name for an attribute list)"
mutant a3_pop_receiver $R \
  'msg = working_memory\.pop\(0\)' 'msg = self._messages.pop(0)' \
  "messages are popped from the receiver's list itself"
mutant a4_write_popped $R \
  '(elif msg\.message_type == MessageType\.NOTE_OFF:\n\s+)current_sequence\.add_message\(msg\)' '\1msg.velocity = 0\n                    current_sequence.add_message(msg)' \
  "a note-off handed to a piece gets velocity 0: a write of the receiver's message object"
mutant a5_write_open $R \
  '(for key, value in open_messages\.items\(\):\n)' '\1                            value.velocity = 1\n' \
  "the sounding note-on (the receiver's object) is re-written when it is carried over"
mutant a6_receiver_is_piece $R \
  'current_sequence = RelativeSequence\(\)\n(\s+)open_messages' 'current_sequence = self\n\1open_messages' \
  "the first piece is the receiver itself (messages are appended to the receiver's list)"
mutant a7_receiver_returned $R \
  '(# Add current sequence if it is not empty\n\s+if len\(current_sequence\._messages\) > 0:\n\s+)split_sequences\.append\(current_sequence\)' '\1split_sequences.append(self)' \
  "the receiver itself is returned as the last piece"
mutant a8_extend_receiver $R \
  'current_sequence\._messages\.extend\(\[msg for msg in working_memory\]\)' 'self._messages.extend([msg for msg in working_memory])' \
  "the remainder is appended to the receiver instead of the last piece"
mutant a9_loop_condition $R \
  'while remaining_capacity >= 0:' 'while remaining_capacity > 0:' \
  "the loop condition changes (must be refused: the loop bound is keyed by the condition text)"
mutant a10_unguarded_pop $R \
  'if len\(working_memory\) == 0:\n(\s+)if len\(current_sequence\._messages\) > 0:' 'if len(working_memory) == 1:\n\1if len(current_sequence._messages) > 0:' \
  "the guard before pop(0) tests the wrong length: pop(0) of an empty list (IndexError) is possible (relativeSequenceSplit_ok fails)"
echo "== Sequence.split on top of it"
mutant a11_split_shared sequences/sequence.py \
  'Sequence\(relative_sequence=seq\.copy\(\)\) for seq in relative_sequences' 'Sequence(relative_sequence=seq) for seq in relative_sequences' \
  "Sequence.split wraps the pieces themselves (the repair of D13 reverted)"

echo "== original source again (restores the generated file)"
r=$(regen_and_build "$ORIG")
echo "original: HeapTie2 build: $r"
[ "$r" = "PASS" ] || { echo "!! the unedited source does not pass"; fail=1; }
rm -rf "$SCRATCH"
[ $fail = 0 ] && echo "SELF-TEST OK: every edit changed the generated text (or was refused) and broke the build; the original passes" || echo "SELF-TEST FAILED"
exit $fail
