#!/venv/bin/python
"""py2lean_tok: statement-by-statement AST translation of `MultiTrackLargeVocabularyNotelikeTokeniser`
(/repo/scoda/tokenisation/notelike_tokenisation.py) into Lean 4 `do` blocks over `Except PyErr`.

    gen_tok_fns() -> str      text of lean/SCoda/Gen/TokFns.lean   (namespace SCoda.Gen.Tok)

The result is tied to the hand models of lean/SCoda/Model/Token.lean / Render.lean by THEOREMS
(lean/SCoda/Props/TokTie.lean), so a semantic edit of the Python changes the generated text and the theorems stop
building (tools/test_py2lean_tok.sh).  The translator knows Python constructs, not functions; anything outside the subset
raises `Untranslatable` (gen_lean.py then writes a file that does not compile).

CONVENTIONS  (support library: lean/SCoda/Model/TokLib.lean, TokLib2.lean)
  object     the tokeniser object is the structure `TokObj`, one field per attribute stored by `__init__` (table FIELDS, checked
             against the stores of `__init__`).  A method that stores into `self` returns the new object (and its value).
             In `__init__` the attributes are locals (`self.ppqn` ↦ `selfPpqn`) until the first method call on `self`, where the
             object is built; `if x is None: x = e` narrows `x : Option T` to `T` (a new `let mut`).
  strings    Python `str` ↦ Lean `String`; f-strings ↦ `++` chains (left-nested), `{v:02}` / `{v:03}` ↦ `zpad 2 v` / `zpad 3 v`
             (Model/Render.lean), `TokenisationPrefixes.X.value` ↦ `prefixOf "X"` (reads the generated enum table; X must exist),
             `s[:-k]` ↦ `strDropRight s k`, `s.split(sep)` ↦ `pySplit`, `int(s)` ↦ `pyIntOfStr` (ValueError).
  dicts      insertion-ordered association lists: `d[k] = v` ↦ `pyDictSet` (keeps the position of an existing key), `d[k]` ↦
             `pyDictGet` (KeyError), `d.get(k, dflt)` ↦ `pyDictGetD`, `d.items()` ↦ the list, `{v: k for …}` ↦ `pyDictOfList`.
             A dict display with string keys and values of different types (the result of `get_info`) ↦ a tuple in key order;
             the keys are emitted as `<fn>Keys`.
  lists      `l.append(x)` ↦ `l ++ [x]`, `l[i]` ↦ `pyItem` (negative indices, IndexError), `l.pop(i)` ↦ `pyPop` (hoisted in front of
             the statement: allowed only when the statement has no other effectful part), `x in l` ↦ `l.contains x`,
             `l.index(x)` ↦ `pyIndexOf` (value equality; strings are values), `sorted(l, key=λ)` ↦ `pySortedBy` (all keys first),
             comprehensions ↦ `map` / `mapME`, `any(…)` ↦ `List.any`, `next(x for x in l if c)` ↦ `pyNextM` (lazy),
             `itertools.product(*ls)` ↦ `pyProduct`, `range` ↦ `pyRange`, `enumerate` ↦ `pyEnumerate`, `reversed` ↦ `List.reverse`.
             `l.sort()` on ints ↦ `pySortInt`; `sorted(x)` without key on ints ↦ `pySortedInt` (= `pySortInt`; Model/TokLib2.lean).
  sets       `set(l)` on a list of ints ↦ `pySetInt l` (the distinct elements, each once) of type `Set Int`.  A Python set has no specified
             iteration order, so this type has NO Lean type: it cannot be stored in a variable, iterated, indexed, passed to `list()` or
             `len()` (all `Untranslatable`); its only consumer is `sorted(…)` without a key, whose result does not depend on the order
             (Lemmas/TokLib2L.lean `pySortedInt_perm`).  So `sorted(set(l))` ↦ `pySortedInt (pySetInt l)`.
             `math.nan` in a list of ints ↦ `none` in a `List (Option Int)`.
  tuples     a 2-tuple ↦ a pair, `t[0]` / `t[1]` ↦ `.1` / `.2`; tuple targets of `for` / comprehensions ↦ projections.
  numbers    ints ↦ `Int`.  Floats ↦ exact rationals `Rat` (not IEEE doubles): `a / b` ↦ `pyTrueDiv` (ZeroDivisionError),
             `int(x)` ↦ `ratTrunc`, `float(x)` ↦ `x`, `x.is_integer()` ↦ `ratIsInteger`.  `a % <positive literal>` ↦ Lean `%`.
             A local whose type changes (`scaled = int(scaled)`) is re-declared (shadowing) at that assignment.
  closures   a nested function becomes a top-level definition `<outer><Inner>`; the variables it reads from the enclosing scope are
             passed at every call with their current values, its `nonlocal` variables are passed and returned.
  while      `while a > b` ↦ `for _ in List.replicate fuel ()` with `fuel = |a - b| + 1` measured at loop entry, the loop test as
             first statement, and `raiseIf <test> .fuel` afterwards (the tie theorems prove it never fires).
  if         `if c: raise E` (nothing else) ↦ the single statement `raiseIf c E`.  An `if` whose branches only assign locals with
             effect-free right-hand sides ↦ ONE assignment `(v₁, …, vₖ) := if c then (let …; (v₁, …, vₖ)) else …` of the variables
             that live on after it (same meaning; it keeps the `do` block free of join points, so the proofs stay small).
             The same with effectful right-hand sides (calls that may raise) and no loop / `break` / `continue` / `raise` inside ↦ ONE
             bind `let r ← (if c then (do …; pure (v₁, …, vₖ)) else pure (v₁, …, vₖ))` followed by `vᵢ := r.i`.
             Every other `if` ↦ `if … then … else …` of the `do` notation.
  loops      a loop whose body has more than NAMED_LOOP_THRESHOLD statements is emitted as `forIn xs (v₁, …, vₖ) (<fn>Loop<n> …)` with
             the body as a separate definition over the tuple of the outer variables it assigns (`continue` / `break` return
             `ForInStep.yield / .done`); this is what Lean's `for` elaborates to, with a name for the body.
  for        `for v in e` ↦ `for v in e do` (`break`, `continue` as in Lean).  A loop that calls a state-changing method on its loop
             variable (`sequence.add_absolute_message(…)`, `sequence_bar.set_channel(i)`) REBUILDS the iterated list variable.
             `l[i].method(…)` for such a method ↦ `pyModifyAt`.  Objects are values: this is sound because the `Sequence` objects
             these loops change live in a list local / parameter and are reached through nothing else in the translated code
             (a state-changing method on anything but a local, a rebuilt loop variable or `<list local>[i]` is refused).
  dropped    `LOGGER.*(…)` calls (logging is not modelled), exception messages, type annotations, docstrings.
  not returned  `tokenise` changes the channel of the caller's `Sequence` objects (`set_channel(i)`); the parameter is not returned.
  LINKS      callees mapped to existing Lean functions (assumptions, listed in the generated header): table LINKS below.
"""
import ast
import os

from py2lean import Untranslatable, LEAN_KEYWORDS

REPO = os.environ.get("SCODA_REPO", "/repo")
SRC = "scoda/tokenisation/notelike_tokenisation.py"
CLS = "MultiTrackLargeVocabularyNotelikeTokeniser"

# ----------------------------------------------------------------------------------------------- types
INT, BOOL, STR, RAT, MSG, MTYPE, SEQ, OBJ, NONE, NAN, UNK, UNIT = \
    "Int", "Bool", "Str", "Rat", "Msg", "MType", "Seq", "Obj", "None", "Nan", "Unk", "Unit"


def TL(t):
    return ("List", t)


def TO(t):
    return ("Opt", t)


def TS(t):
    """a Python `set`: no Lean type (cannot be stored in a variable, iterated, indexed); only `sorted(…)` consumes it"""
    return ("Set", t)


def TT(a, b):
    return ("Tup", a, b)


def TD(k, v):
    return ("Dict", k, v)


def is_list(t):
    return isinstance(t, tuple) and t[0] == "List"


def is_opt(t):
    return isinstance(t, tuple) and t[0] == "Opt"


def is_tup(t):
    return isinstance(t, tuple) and t[0] == "Tup"


def is_dict(t):
    return isinstance(t, tuple) and t[0] == "Dict"


def is_rec(t):
    return isinstance(t, tuple) and t[0] == "Rec"


def has_unk(t):
    if t == UNK:
        return True
    return isinstance(t, tuple) and any(has_unk(x) for x in t[1:] if not isinstance(x, str) or x == UNK)


def lean_ty(t):
    atoms = {INT: "Int", BOOL: "Bool", STR: "String", RAT: "Rat", MSG: "Msg", MTYPE: "MType", SEQ: "LSeq", OBJ: "TokObj",
             UNIT: "Unit"}
    if t in atoms:
        return atoms[t]
    if t == UNK:
        return "_"           # only in a pass that is repeated (element type learnt from a later append)
    if is_list(t):
        return f"List {paren_ty(t[1])}"
    if is_opt(t):
        return f"Option {paren_ty(t[1])}"
    if is_tup(t):
        return f"{paren_ty(t[1])} × {paren_ty(t[2])}"
    if is_dict(t):
        return f"List ({lean_ty(t[1])} × {lean_ty(t[2])})"
    if is_rec(t):
        return " × ".join(paren_ty(x) for _, x in t[1])
    raise Untranslatable(f"no Lean type for {t}")


def paren_ty(t):
    s = lean_ty(t)
    return f"({s})" if " " in s else s


def lean_default(t):
    if t == INT or t == RAT:
        return "0"
    if t == BOOL:
        return "false"
    if t == STR:
        return '""'
    if t in (MSG, MTYPE, SEQ, OBJ):
        return "default"
    if is_list(t) or is_dict(t):
        return "[]"
    if is_opt(t):
        return "none"
    if is_tup(t):
        return f"({lean_default(t[1])}, {lean_default(t[2])})"
    raise Untranslatable(f"no default for {t}")


def join_ty(a, b):
    """least type both can be stored in (only for list element types)"""
    if a == b or b == UNK:
        return a
    if a == UNK:
        return b
    if {a, b} == {INT, NAN} or (a == TO(INT) and b in (INT, NAN)) or (b == TO(INT) and a in (INT, NAN)):
        return TO(INT)
    if is_list(a) and is_list(b):
        return TL(join_ty(a[1], b[1]))
    raise Untranslatable(f"cannot join element types {a} and {b}")


def camel(name):
    parts = name.strip("_").split("_")
    s = parts[0].lower() + "".join(p.capitalize() for p in parts[1:])
    return s + "_" if s in LEAN_KEYWORDS else s


# ----------------------------------------------------------------------------------------------- tables

# attributes of the tokeniser object: python name -> (Lean field, type).  Checked against the stores of `__init__`.
FIELDS = {
    "dictionary": ("dictionary", TD(STR, INT)), "inverse_dictionary": ("inverseDictionary", TD(INT, STR)),
    "_dictionary_size": ("dictionarySize_", INT),
    "ppqn": ("ppqn", INT), "step_sizes": ("stepSizes", TL(INT)), "note_values": ("noteValues", TL(INT)),
    "num_tracks": ("numTracks", INT), "pitch_range": ("pitchRange", TT(INT, INT)),
    "time_signature_range": ("timeSignatureRange", TT(INT, INT)),
    "flag_running_values": ("flagRunningValues", BOOL), "flag_fuse_track": ("flagFuseTrack", BOOL),
    "flag_fuse_value": ("flagFuseValue", BOOL), "flag_fuse_velocity": ("flagFuseVelocity", BOOL),
    "flag_simplify_time_signature": ("flagSimplifyTimeSignature", BOOL),
    "velocity_bins": ("velocityBins", TL(INT)),
    "cur_time": ("curTime", TO(INT)), "cur_rest_buffer": ("curRestBuffer", TO(INT)),
}

# parameter types that the annotation does not determine: (function, parameter) -> type
PARAM_TYPES = {
    ("tokenise", "state_dict"): TO(TD(STR, INT)),
    ("__init__", "ppqn"): TO(INT), ("__init__", "step_sizes"): TO(TL(INT)), ("__init__", "note_values"): TO(TL(INT)),
    ("__init__", "pitch_range"): TT(INT, INT), ("__init__", "time_signature_range"): TT(INT, INT),
}
ANNOT = {"int": INT, "bool": BOOL, "str": STR, "list[Sequence]": TL(SEQ), "List[str]": TL(STR), "List[int]": TL(INT),
         "list[int]": TL(INT), "Tuple[int, int]": TT(INT, INT)}
# parameters whose final state is not returned although the function changes them (documented above)
NO_WRITEBACK = {("tokenise", "sequences_bar")}

MSG_FIELD = {"message_type": ("ty", MTYPE), "channel": ("ch", INT), "time": ("time", INT), "note": ("note", INT),
             "velocity": ("vel", INT), "control": ("ctl", INT), "program": ("prog", INT), "numerator": ("num", INT),
             "denominator": ("den", INT), "key": ("key", INT)}
MTYPES = {"INTERNAL": "internal", "SEQUENCE_CONTROL": "sequenceControl", "KEY_SIGNATURE": "keySignature",
          "TIME_SIGNATURE": "timeSignature", "CONTROL_CHANGE": "controlChange", "PROGRAM_CHANGE": "programChange",
          "NOTE_OFF": "noteOff", "NOTE_ON": "noteOn", "WAIT": "wait"}
SETTINGS = {"PPQN": "SCoda.Gen.ppqn", "DEFAULT_TIME_SIGNATURE_NUMERATOR": "SCoda.Gen.defaultTimeSignatureNumerator",
            "DEFAULT_TIME_SIGNATURE_DENOMINATOR": "SCoda.Gen.defaultTimeSignatureDenominator"}
EXCEPTIONS = {"TokenisationException": "tokenisationException", "NotImplementedError": "notImplementedError"}

# LINK TABLE: callees that are not translated but mapped to an existing Lean function (assumptions of the tie).
LINKS = {
    "Sequence()": ("LSeq.new", "a new Sequence has two empty views"),
    "Sequence.set_channel": ("LSeq.setChannel", "RelativeSequence.set_channel = `setChannel` (Props/ViewTie.setChannel_eq) on the relative view"),
    "Sequence.merge": ("LSeq.merge", "AbsoluteSequence.merge = `mergeAbs` on the absolute views, then Sequence.normalise = `normalise`"),
    "Sequence.get_interleaved_message_pairings": ("LSeq.interleaved", "Model/Pairing.lean `interleaved` with the defaults standard_length=PPQN, impute_notes=True (checked in the AST)"),
    "Sequence.add_absolute_message": ("LSeq.addAbs", "AbsoluteSequence.add_message = binary_insort = `insort` (Props/ViewTie.binaryInsort_eq)"),
    "bin_velocity": ("binIndex", "np.digitize(v, bins, right=True) = number of bins below v (non-decreasing bins)"),
    "get_velocity_bins": ("linkVelocityBinsFn", "Model/TokLib3.lean: the TRANSLATED `Gen.Util.getVelocityBins none (some n)` (tools/py2lean_util.py, from util.py on every run) read as ints; every n, n = 0 raises ZeroDivisionError; equal to the table `linkVelocityBins` on 1..64 (`TokLib3.linkVelocityBinsFn_table`)"),
    "get_default_step_sizes(lower_bound_shift=1)": ("SCoda.Gen.defaultStepSizesShift1", "evaluated by tools/gen_lean.py"),
    "get_default_note_values()": ("SCoda.Gen.defaultNoteValues", "evaluated by tools/gen_lean.py"),
    "CircleOfFifths.get_position": ("linkCof", "Gen.getPosition, itself generated from music_theory.py"),
    "list.sort": ("pySortInt", "list.sort() on ints is a stable sort; `pySortInt` is the stable insertion sort"),
    "set(list of ints)": ("pySetInt", "the distinct elements, each once (Model/TokLib2.lean); a set's iteration order is unspecified: consumed by `sorted` only"),
    "sorted(ints)": ("pySortedInt", "sorted(s) without key on ints = `pySortInt` (ascending insertion sort; the result does not depend on the order of s)"),
    "int(str)": ("pyIntOfStr", "Model/Render.lean `pyInt?` (decimal digits with optional sign)"),
    "str.split": ("pySplit", "`String.splitOn` = Python `str.split(sep)` for a non-empty separator"),
    "Message(…)": ("a `Msg` literal", "missing fields are None (`pyNone`), a missing channel is 0 (Message.__init__, checked by tools/py2lean.py)"),
}
# methods of Sequence that change the object
SEQ_MUTATORS = {"set_channel": "Sequence.set_channel", "merge": "Sequence.merge", "add_absolute_message": "Sequence.add_absolute_message"}

_AST = {}


def module_ast(rel):
    if rel not in _AST:
        _AST[rel] = ast.parse(open(os.path.join(REPO, rel)).read())
    return _AST[rel]


def class_node():
    for c in module_ast(SRC).body:
        if isinstance(c, ast.ClassDef) and c.name == CLS:
            return c
    raise Untranslatable(f"class {CLS} not found")


def prefix_names():
    tree = module_ast("scoda/enumerations/tokenisation_prefixes.py")
    for c in tree.body:
        if isinstance(c, ast.ClassDef) and c.name == "TokenisationPrefixes":
            return [s.targets[0].id for s in c.body if isinstance(s, ast.Assign)]
    raise Untranslatable("TokenisationPrefixes not found")


def check_links():
    """facts about linked callees that the link relies on, read off their ASTs"""
    tree = module_ast("scoda/sequences/sequence.py")
    cls = [c for c in tree.body if isinstance(c, ast.ClassDef) and c.name == "Sequence"][0]
    fns = {f.name: f for f in cls.body if isinstance(f, ast.FunctionDef)}
    f = fns["get_interleaved_message_pairings"]
    names = [a.arg for a in f.args.args]
    defaults = [ast.unparse(d) for d in f.args.defaults]
    if names != ["self", "message_types", "standard_length", "impute_notes"] or defaults != ["None", "PPQN", "True"]:
        raise Untranslatable(f"Sequence.get_interleaved_message_pairings signature changed: {names} {defaults}")
    for name, want in (("set_channel", ["self.rel.set_channel(channel)", "self.invalidate_abs()"]),
                       ("merge", ["self.abs.merge([seq.abs for seq in sequences])", "self.invalidate_rel()", "self.normalise()"]),
                       ("add_absolute_message", ["self.abs.add_message(msg)", "self.invalidate_rel()"])):
        body = [" ".join(ast.unparse(s).split()) for s in fns[name].body
                if not (isinstance(s, ast.Expr) and isinstance(s.value, ast.Constant))]
        if body != want:
            raise Untranslatable(f"Sequence.{name} changed: {body}")
    init = fns["__init__"]
    if [ast.unparse(d) for d in init.args.defaults] != ["None"] * len(init.args.defaults):
        raise Untranslatable("Sequence.__init__: a default is not None")
    util = module_ast("scoda/misc/util.py")
    bv = [f for f in util.body if isinstance(f, ast.FunctionDef) and f.name == "bin_velocity"][0]
    last = " ".join(ast.unparse(bv.body[-1]).split())
    if last != "return np.digitize(velocity, bins, right=True).item(-1)":
        raise Untranslatable(f"bin_velocity changed: {last}")
    # imports of the tokeniser module: the names used by the links must come from where we think they come from
    imports = {}
    for st in module_ast(SRC).body:
        if isinstance(st, ast.ImportFrom):
            for a in st.names:
                imports[a.asname or a.name] = st.module
    want = {"Sequence": "scoda.sequences.sequence", "Message": "scoda.elements.message", "bin_velocity": "scoda.misc.util",
            "get_velocity_bins": "scoda.misc.util", "get_default_step_sizes": "scoda.misc.util",
            "get_default_note_values": "scoda.misc.util", "CircleOfFifths": "scoda.misc.music_theory",
            "MessageType": "scoda.enumerations.message_type",
            "TokenisationPrefixes": "scoda.enumerations.tokenisation_prefixes",
            "TokenisationException": "scoda.exceptions.tokenisation_exception",
            "PPQN": "scoda.settings.settings", "DEFAULT_TIME_SIGNATURE_NUMERATOR": "scoda.settings.settings",
            "DEFAULT_TIME_SIGNATURE_DENOMINATOR": "scoda.settings.settings"}
    for k, v in want.items():
        if imports.get(k) != v:
            raise Untranslatable(f"import of {k} changed: {imports.get(k)}")


# ----------------------------------------------------------------------------------------------- code tree

class E:
    """a translated expression: Lean text, type, whether the text contains a monadic `(← …)`"""

    def __init__(self, text, ty, mon=False):
        self.text, self.ty, self.mon = text, ty, mon


class Var:
    def __init__(self, ty, vid, lean, py):
        self.ty, self.vid, self.lean, self.py = ty, vid, lean, py
        self.is_param = False


class Block:
    def __init__(self, path, py=None):
        self.path = path
        self.items = []
        self.py = py or []       # the Python statements of the block (for the definite-assignment analysis)


class AssignItem:
    def __init__(self, vid, lean, text, ty, seq, force=False):
        self.vid, self.lean, self.text, self.ty, self.seq, self.force = vid, lean, text, ty, seq, force
        self.declares = force


class Sig:
    def __init__(self, lean, params, mutates_self, static, ret, outs, qual):
        # params: [(python name, type)], outs: the mutated parameters that are returned (python names, types)
        self.lean, self.params, self.mutates_self, self.static, self.ret, self.outs, self.qual = \
            lean, params, mutates_self, static, ret, outs, qual


def q(s):
    return '"' + s.replace("\\", "\\\\").replace('"', '\\"') + '"'


def reads_of(node):
    return {n.id for n in ast.walk(node) if isinstance(n, ast.Name) and isinstance(n.ctx, ast.Load)}


def definitely_assigned(stmts, name, assigned=False):
    """(ok, assigned_after): ok = no statement of `stmts` can read `name` before it has been assigned (in this run of the block)"""
    for s in stmts:
        if isinstance(s, ast.Assign) and len(s.targets) == 1 and isinstance(s.targets[0], ast.Name) and s.targets[0].id == name:
            if not assigned and name in reads_of(s.value):
                return False, assigned
            assigned = True
            continue
        if isinstance(s, ast.If):
            if not assigned and name in reads_of(s.test):
                return False, assigned
            ok1, a1 = definitely_assigned(s.body, name, assigned)
            ok2, a2 = definitely_assigned(s.orelse, name, assigned)
            if not (ok1 and ok2):
                return False, assigned
            assigned = assigned or (a1 and a2)
            continue
        if isinstance(s, (ast.For, ast.While)):
            head = s.iter if isinstance(s, ast.For) else s.test
            if not assigned and name in reads_of(head):
                return False, assigned
            ok1, _ = definitely_assigned(s.body, name, assigned)
            if not ok1:
                return False, assigned
            continue
        if not assigned and name in reads_of(s):
            return False, assigned
        for n in ast.walk(s):
            if isinstance(n, ast.Name) and isinstance(n.ctx, ast.Store) and n.id == name:
                assigned = True
    return True, assigned


class Registry:
    def __init__(self):
        self.cls = class_node()
        self.methods = {f.name: f for f in self.cls.body if isinstance(f, ast.FunctionDef)}
        self.done = {}        # python name -> (Sig, text)
        self.order = []
        self.in_progress = set()
        self.links_used = []
        self.defaults = []    # the defaulted parameters as written in the source: "method(param=default)"
        self.extra_defs = []
        self.class_attrs = {}
        self.prefixes = prefix_names()

    def get(self, name):
        if name in self.done:
            return self.done[name][0]
        if name not in self.methods:
            return None
        if name in self.in_progress:
            raise Untranslatable(f"recursive call cycle through {name}")
        self.in_progress.add(name)
        tr = FnTranslator(self, self.methods[name], name)
        text = tr.translate()
        self.in_progress.discard(name)
        self.done[name] = (tr.sig, text)
        self.order.append(name)
        return tr.sig

    def link(self, key):
        if key not in LINKS:
            raise Untranslatable(f"no link for {key}")
        if key not in self.links_used:
            self.links_used.append(key)
        return LINKS[key][0]


class FnTranslator:
    def __init__(self, reg, node, name, outer=None):
        self.reg, self.fn, self.name, self.outer = reg, node, name, outer
        self.qual = (outer.qual + "." + name) if outer else f"{CLS}.{name}"
        decos = [ast.unparse(d) for d in node.decorator_list]
        self.static = "staticmethod" in decos
        self.is_property = "property" in decos
        self.is_init = name == "__init__" and outer is None
        self.vars = {}           # python name -> Var (current incarnation)
        self.incarnations = {}
        self.all_vars = {}       # vid -> Var
        self.refs = {}           # vid -> [(seq, path)]
        self.bound = [{}]        # comprehension / lambda / loop-target bindings: python name -> E
        self.params = []         # [(python name, type)]
        self.seq = 0
        self.vid = 0
        self.tmp = 0
        self.path = ()
        self.blocks = 0
        self.pre = None          # hoisted statements of the current statement (None: hoisting not allowed here)
        self.effects = 0         # number of hoisted effects in the current statement
        self.loop_kind = []
        self.rebuild = []        # (python loop variable, out list, lean loop variable)
        self.iterating = []
        self.mutates_self = False
        self.mutated_params = []
        self.materialised = not self.is_init
        self.ret = None
        self.nested = {}         # nested function name -> (Sig-like dict)
        self.nonlocals = []
        self.lean_types = {}     # Lean name -> Lean type text, for every name a named loop body may capture
        self.loop_defs = []      # named loop bodies (text), in dependency order
        self.loop_ret = [None]   # while rendering a named loop body: how `continue` / `break` leave it
        self.loops = 0
        self.list_hints = {}     # python name -> element type learnt in an earlier pass
        self.hints_changed = False
        self.sig = None

    # ---- bookkeeping
    def fail(self, msg):
        raise Untranslatable(f"{self.qual}: {msg}")

    def fresh(self, base):
        self.tmp += 1
        return f"{base}{self.tmp}_"

    def new_block(self, py=None):
        self.blocks += 1
        return Block(self.path + (self.blocks,), py)

    def lean_name(self, name):
        if name.startswith("self."):
            return "self" + camel(name[5:])[:1].upper() + camel(name[5:])[1:]
        return camel(name)

    def new_var(self, name, ty, scoped=False):
        """a new incarnation of the Python variable `name`; Lean cannot shadow a mutable variable, so a later incarnation in
        the same scope (narrowing, type change) gets a numbered name"""
        self.vid += 1
        k = self.incarnations.get(name, 0)
        if not scoped:
            self.incarnations[name] = k + 1
        v = Var(ty, self.vid, self.lean_name(name) + (f"{k}_" if k else ""), name)
        self.vars[name] = v
        self.all_vars[v.vid] = v
        return v

    def ref(self, name):
        v = self.vars[name]
        self.seq += 1
        self.refs.setdefault(v.vid, []).append((self.seq, self.path))
        return self.seq

    def lookup_bound(self, name):
        for d in reversed(self.bound):
            if name in d:
                return d[name]
        return None

    def use_link(self, key):
        return self.reg.link(key)

    # ---- expressions
    def pure(self, e, what):
        if e.mon:
            self.fail(f"effectful sub-expression where a pure one is needed ({what}): {e.text[:60]}")
        return e.text

    def as_m(self, e):
        """the expression as a term of type `Except PyErr τ` (used for lambda bodies and guarded operands)"""
        if not e.mon:
            return f"pure {e.text}"
        if e.text.startswith("(← ") and e.text.endswith(")") and "(←" not in e.text[3:-1]:
            return e.text[3:-1]
        return f"(do pure {e.text})"

    def num(self, e, want):
        if e.ty == want:
            return e.text
        if e.ty == INT and want == RAT:
            return f"(({e.text} : Int) : Rat)"
        self.fail(f"a {e.ty} used as {want}: {e.text[:40]}")

    def coerce(self, e, want, what="value"):
        """text of `e` stored into a place of type `want`"""
        t = e.ty
        if t == want:
            return e.text
        if is_opt(want):
            if t == NONE or t == NAN:
                return "none"
            if t == want[1]:
                return f"(some {e.text})"
        if t == INT and want == RAT:
            return self.num(e, RAT)
        if has_unk(t) and (is_list(want) or is_dict(want)) and e.text in ("[]",):
            return "[]"
        self.fail(f"cannot use a {t} as {want} ({what})")

    def expr(self, n):
        if isinstance(n, ast.Constant):
            v = n.value
            if v is None:
                return E("none", NONE)
            if isinstance(v, bool):
                return E("true" if v else "false", BOOL)
            if isinstance(v, int):
                return E(f"({v})" if v < 0 else str(v), INT)
            if isinstance(v, str):
                return E(q(v), STR)
            self.fail(f"constant {v!r}")
        if isinstance(n, ast.Name):
            b = self.lookup_bound(n.id)
            if b is not None:
                return b
            if n.id in self.vars:
                self.ref(n.id)
                v = self.vars[n.id]
                return E(v.lean, v.ty)
            if n.id in SETTINGS:
                return E(SETTINGS[n.id], INT)
            if self.capture(n.id):
                self.ref(n.id)
                v = self.vars[n.id]
                return E(v.lean, v.ty)
            self.fail(f"name {n.id!r}")
        if isinstance(n, ast.Attribute):
            return self.attribute(n)
        if isinstance(n, ast.Subscript):
            return self.subscript(n)
        if isinstance(n, ast.UnaryOp) and isinstance(n.op, ast.USub):
            a = self.expr(n.operand)
            if a.ty not in (INT, RAT):
                self.fail(f"- of a {a.ty}")
            return E(f"(-{a.text})", a.ty, a.mon)
        if isinstance(n, ast.UnaryOp) and isinstance(n.op, ast.Not):
            a = self.cond(n.operand)
            return E(f"(!{a.text})", BOOL, a.mon)
        if isinstance(n, ast.BinOp):
            return self.binop(n)
        if isinstance(n, (ast.Compare, ast.BoolOp)):
            return self.cond(n)
        if isinstance(n, ast.IfExp):
            c = self.cond(n.test)
            a, b = self.expr(n.body), self.expr(n.orelse)
            if a.ty != b.ty:
                self.fail(f"conditional expression of types {a.ty} / {b.ty}")
            if a.mon or b.mon:
                return E(f"(← (if {c.text} then {self.as_m(a)} else {self.as_m(b)}))", a.ty, True)
            return E(f"(if {c.text} then {a.text} else {b.text})", a.ty, c.mon)
        if isinstance(n, ast.JoinedStr):
            return self.fstring(n)
        if isinstance(n, ast.List):
            if not n.elts:
                return E("[]", TL(UNK))
            es = [self.expr(x) for x in n.elts]
            ty = es[0].ty
            for e in es[1:]:
                ty = join_ty(ty, e.ty)
            return E("[" + ", ".join(self.coerce(e, ty) for e in es) + "]", TL(ty), any(e.mon for e in es))
        if isinstance(n, ast.ListComp):
            return self.comprehension(n.elt, n.generators)
        if isinstance(n, ast.DictComp):
            return self.dict_comp(n)
        if isinstance(n, ast.Dict):
            return self.dict_display(n)
        if isinstance(n, ast.Call):
            return self.call(n)
        self.fail(f"expression {type(n).__name__}: {ast.unparse(n)[:60]}")

    def attribute(self, n):
        v = n.value
        if isinstance(v, ast.Name) and v.id == "math" and n.attr == "nan":
            return E("none", NAN)
        if isinstance(v, ast.Name) and v.id == "MessageType":
            if n.attr not in MTYPES:
                self.fail(f"MessageType.{n.attr}")
            return E("MType." + MTYPES[n.attr], MTYPE)
        if n.attr == "value" and isinstance(v, ast.Attribute) and isinstance(v.value, ast.Name) \
                and v.value.id == "TokenisationPrefixes":
            if v.attr not in self.reg.prefixes:
                self.fail(f"TokenisationPrefixes.{v.attr} does not exist")
            return E(f"(prefixOf {q(v.attr)})", STR)
        if isinstance(v, ast.Name) and v.id == "self" and not self.static:
            return self.self_attr(n.attr)
        b = self.expr(v)
        if b.ty == MSG:
            if n.attr not in MSG_FIELD:
                self.fail(f"Message has no field {n.attr}")
            f, ty = MSG_FIELD[n.attr]
            return E(f"{b.text}.{f}", ty, b.mon)
        self.fail(f"attribute .{n.attr} of a {b.ty}")

    def self_attr(self, attr):
        root = self
        while root.outer is not None:
            root = root.outer
        if attr in FIELDS:
            if not root.materialised:
                key = "self." + attr
                if key not in self.vars:
                    self.fail(f"self.{attr} read before it is stored")
                self.ref(key)
                return E(self.vars[key].lean, self.vars[key].ty)
            self.ref("self")
            return E(f"self_.{FIELDS[attr][0]}", FIELDS[attr][1])
        if attr in self.reg.class_attrs:
            return E(self.reg.class_attrs[attr][0], self.reg.class_attrs[attr][1])
        if attr in self.reg.methods:
            sig = self.reg.get(attr)
            m = self.reg.methods[attr]
            if "property" in [ast.unparse(d) for d in m.decorator_list]:
                if sig.mutates_self:
                    self.fail(f"property {attr} changes self")
                self.ref("self")
                return E(f"(← {sig.lean} self_)", sig.ret, True)
        self.fail(f"attribute self.{attr}")

    def subscript(self, n):
        if isinstance(n.slice, ast.Slice):
            s = n.slice
            if s.lower is None and s.step is None and isinstance(s.upper, ast.UnaryOp) and isinstance(s.upper.op, ast.USub) \
                    and isinstance(s.upper.operand, ast.Constant) and isinstance(s.upper.operand.value, int):
                a = self.expr(n.value)
                if a.ty == STR:
                    return E(f"(strDropRight {a.text} {s.upper.operand.value})", STR, a.mon)
            self.fail(f"slice {ast.unparse(n)}")
        a = self.expr(n.value)
        if is_tup(a.ty):
            if isinstance(n.slice, ast.Constant) and n.slice.value in (0, 1):
                return E(f"{a.text}.{n.slice.value + 1}", a.ty[1 + n.slice.value], a.mon)
            self.fail(f"tuple index {ast.unparse(n.slice)}")
        i = self.expr(n.slice)
        if is_list(a.ty):
            if i.ty != INT:
                self.fail(f"list index of type {i.ty}")
            return E(f"(← pyItem {a.text} {i.text})", a.ty[1], True)
        if is_dict(a.ty):
            if i.ty != a.ty[1]:
                self.fail(f"dict key of type {i.ty}")
            return E(f"(← pyDictGet {a.text} {i.text})", a.ty[2], True)
        self.fail(f"subscript of a {a.ty}")

    def binop(self, n):
        a, b = self.expr(n.left), self.expr(n.right)
        mon = a.mon or b.mon
        if isinstance(n.op, ast.Add) and a.ty == STR and b.ty == STR:
            return E(f"({a.text} ++ {b.text})", STR, mon)
        if isinstance(n.op, ast.Add) and is_list(a.ty) and is_list(b.ty):
            return E(f"({a.text} ++ {b.text})", TL(join_ty(a.ty[1], b.ty[1])), mon)
        if a.ty not in (INT, RAT) or b.ty not in (INT, RAT):
            self.fail(f"operator {type(n.op).__name__} on {a.ty} / {b.ty}")
        if isinstance(n.op, ast.Div):
            if a.ty == INT and b.ty == INT:
                return E(f"(← pyTrueDiv {a.text} {b.text})", RAT, True)
            self.fail("true division with a float operand")
        if isinstance(n.op, ast.Mod):
            if a.ty != INT or b.ty != INT:
                self.fail("% on floats")
            if isinstance(n.right, ast.Constant) and isinstance(n.right.value, int) and n.right.value > 0:
                return E(f"({a.text} % {b.text})", INT, mon)      # positive literal divisor: Python's % = Lean's Euclidean %
            return E(f"(← pyMod {a.text} {b.text})", INT, True)
        sym = {ast.Add: "+", ast.Sub: "-", ast.Mult: "*"}.get(type(n.op))
        if sym is None:
            self.fail(f"operator {type(n.op).__name__}")
        ty = RAT if RAT in (a.ty, b.ty) else INT
        return E(f"({self.num(a, ty)} {sym} {self.num(b, ty)})", ty, mon)

    def fstring(self, n):
        parts, mon = [], False
        for v in n.values:
            if isinstance(v, ast.Constant):
                parts.append(q(v.value))
                continue
            if not isinstance(v, ast.FormattedValue) or v.conversion != -1:
                self.fail(f"f-string part {ast.unparse(v)}")
            e = self.expr(v.value)
            mon = mon or e.mon
            if v.format_spec is None:
                if e.ty == STR:
                    parts.append(e.text)
                elif e.ty == INT:
                    parts.append(f"(toString {e.text})")
                else:
                    self.fail(f"f-string value of type {e.ty}")
                continue
            spec = v.format_spec
            if not (isinstance(spec, ast.JoinedStr) and len(spec.values) == 1 and isinstance(spec.values[0], ast.Constant)):
                self.fail(f"format spec {ast.unparse(spec)}")
            s = spec.values[0].value
            if len(s) == 2 and s[0] == "0" and s[1] in "123456789" and e.ty == INT:
                parts.append(f"zpad {s[1]} {e.text}")
            else:
                self.fail(f"format spec {s!r} on a {e.ty}")
        if not parts:
            return E('""', STR)
        return E("(" + " ++ ".join(parts) + ")", STR, mon)

    def cmp1(self, op, a, b):
        if isinstance(op, (ast.Is, ast.IsNot)):
            if b.ty == NONE and is_opt(a.ty):
                return E(f"{a.text}.isSome" if isinstance(op, ast.IsNot) else f"{a.text}.isNone", BOOL, a.mon)
            self.fail(f"`is` on {a.ty} / {b.ty}")
        mon = a.mon or b.mon
        if isinstance(op, (ast.In, ast.NotIn)):
            if not (is_list(b.ty) and b.ty[1] == a.ty):
                self.fail(f"`in` on {a.ty} / {b.ty}")
            t = f"({b.text}.contains {a.text})"
            return E(f"(!{t})" if isinstance(op, ast.NotIn) else t, BOOL, mon)
        if isinstance(op, (ast.Eq, ast.NotEq)):
            sym = "==" if isinstance(op, ast.Eq) else "!="
            if a.ty == b.ty and a.ty in (INT, STR, MTYPE, BOOL, RAT):
                return E(f"({a.text} {sym} {b.text})", BOOL, mon)
            self.fail(f"== on {a.ty} / {b.ty}")
        sym = {ast.Lt: "<", ast.LtE: "≤", ast.Gt: ">", ast.GtE: "≥"}.get(type(op))
        if sym is None:
            self.fail(f"comparison {type(op).__name__}")
        if a.ty not in (INT, RAT) or b.ty not in (INT, RAT):
            self.fail(f"order comparison on {a.ty} / {b.ty}")
        ty = RAT if RAT in (a.ty, b.ty) else INT
        return E(f"(decide ({self.num(a, ty)} {sym} {self.num(b, ty)}))", BOOL, mon)

    def cond(self, n):
        if isinstance(n, ast.BoolOp):
            is_and = isinstance(n.op, ast.And)
            res = self.cond(n.values[0])
            for v in n.values[1:]:
                nxt = self.cond(v)
                if nxt.mon:
                    # a later operand is only evaluated when the earlier ones do not decide
                    if is_and:
                        res = E(f"(← (if {res.text} then {self.as_m(nxt)} else pure false))", BOOL, True)
                    else:
                        res = E(f"(← (if {res.text} then pure true else {self.as_m(nxt)}))", BOOL, True)
                else:
                    res = E(f"({res.text} {'&&' if is_and else '||'} {nxt.text})", BOOL, res.mon)
            return res
        if isinstance(n, ast.UnaryOp) and isinstance(n.op, ast.Not):
            a = self.cond(n.operand)
            return E(f"(!{a.text})", BOOL, a.mon)
        if isinstance(n, ast.Compare):
            operands = [self.expr(n.left)] + [self.expr(c) for c in n.comparators]
            for mid in operands[1:-1]:
                if mid.mon:
                    self.fail("chained comparison with an effectful middle operand")
            parts = [self.cmp1(op, operands[i], operands[i + 1]) for i, op in enumerate(n.ops)]
            if len(parts) == 1:
                return parts[0]
            for p in parts[1:]:
                if p.mon:
                    self.fail("chained comparison with an effectful later operand")
            return E("(" + " && ".join(p.text for p in parts) + ")", BOOL, parts[0].mon)
        e = self.expr(n)
        if e.ty != BOOL:
            self.fail(f"truth value of a {e.ty}: {ast.unparse(n)[:50]}")
        return e

    # ---- comprehensions and lambdas
    def bind_target(self, target, ety, base):
        """bindings for a loop / comprehension target over elements of type `ety`; `base` is the Lean variable of the element"""
        if isinstance(target, ast.Name):
            return {target.id: E(base, ety)}
        if isinstance(target, ast.Tuple) and len(target.elts) == 2 and all(isinstance(x, ast.Name) for x in target.elts) \
                and is_tup(ety):
            return {target.elts[0].id: E(f"{base}.1", ety[1]), target.elts[1].id: E(f"{base}.2", ety[2])}
        self.fail(f"target {ast.unparse(target)} over elements of type {ety}")

    def elem_var(self, target):
        if isinstance(target, ast.Name):
            return camel(target.id) if target.id != "_" else "_"
        return self.fresh("p")

    def comprehension(self, elt, gens):
        if len(gens) != 1 or gens[0].is_async:
            self.fail("comprehension with several generators")
        g = gens[0]
        it = self.expr(g.iter)
        if is_dict(it.ty):
            self.fail("iteration over a dict (use .items())")
        if not is_list(it.ty):
            self.fail(f"comprehension over a {it.ty}")
        v = self.elem_var(g.target)
        self.bound.append(self.bind_target(g.target, it.ty[1], v))
        try:
            text = it.text
            for c in g.ifs:
                ce = self.cond(c)
                text = f"({text}.filter (fun {v} => {self.pure(ce, 'comprehension filter')}))"
            e = self.expr(elt)
        finally:
            self.bound.pop()
        if not e.mon and e.text == v:
            return E(text, it.ty, it.mon)         # identity comprehension: a copy of the list
        if e.mon:
            return E(f"(← mapME (fun {v} => {self.as_m(e)}) {text})", TL(e.ty), True)
        return E(f"({text}.map (fun {v} => {e.text}))", TL(e.ty), it.mon)

    def dict_comp(self, n):
        if len(n.generators) != 1:
            self.fail("dict comprehension with several generators")
        g = n.generators[0]
        it = self.expr(g.iter)
        if not is_list(it.ty) or g.ifs:
            self.fail(f"dict comprehension over a {it.ty}")
        v = self.elem_var(g.target)
        self.bound.append(self.bind_target(g.target, it.ty[1], v))
        try:
            k, val = self.expr(n.key), self.expr(n.value)
        finally:
            self.bound.pop()
        kt, vt = self.pure(k, "dict key"), self.pure(val, "dict value")
        return E(f"(pyDictOfList ({it.text}.map (fun {v} => ({kt}, {vt}))))", TD(k.ty, val.ty), it.mon)

    def dict_display(self, n):
        if not n.keys:
            return E("[]", TD(UNK, UNK))
        if not all(isinstance(k, ast.Constant) and isinstance(k.value, str) for k in n.keys):
            self.fail("dict display with non-literal keys")
        vals = [self.expr(v) for v in n.values]
        keys = [k.value for k in n.keys]
        d = (f"/-- keys of the dict returned by `{self.qual}`, in order -/\n"
             f"def {camel(self.name)}Keys : List String := [" + ", ".join(q(k) for k in keys) + "]\n")
        if d not in self.reg.extra_defs:
            self.reg.extra_defs.append(d)
        return E("(" + ", ".join(v.text for v in vals) + ")", ("Rec", tuple(zip(keys, (v.ty for v in vals)))),
                 any(v.mon for v in vals))

    def lambda_m(self, lam, ety):
        """a Python lambda over elements of type `ety` as a Lean function into `Except PyErr τ`"""
        if len(lam.args.args) != 1 or lam.args.defaults or lam.args.vararg or lam.args.kwarg:
            self.fail("lambda parameters")
        name = lam.args.args[0].arg
        v = camel(name)
        self.bound.append({name: E(v, ety)})
        try:
            body = self.expr(lam.body)
        finally:
            self.bound.pop()
        return f"(fun {v} => {self.as_m(body)})", body.ty

    # ---- calls
    def kwargs(self, n, names):
        """positional + keyword arguments by parameter name"""
        out = {}
        if len(n.args) > len(names):
            self.fail(f"too many arguments: {ast.unparse(n)[:60]}")
        for name, a in zip(names, n.args):
            out[name] = a
        for kw in n.keywords:
            if kw.arg not in names or kw.arg in out:
                self.fail(f"argument {kw.arg} of {ast.unparse(n.func)}")
            out[kw.arg] = kw.value
        return out

    def call(self, n):
        f = n.func
        if isinstance(f, ast.Name):
            return self.call_name(n, f.id)
        if isinstance(f, ast.Attribute):
            return self.call_attr(n, f)
        self.fail(f"call {ast.unparse(n)[:60]}")

    def one_arg(self, n):
        if len(n.args) != 1 or n.keywords:
            self.fail(f"arguments of {ast.unparse(n)[:60]}")
        return n.args[0]

    def call_name(self, n, name):
        if name == "int":
            a = self.expr(self.one_arg(n))
            if a.ty == INT:
                return a
            if a.ty == RAT:
                return E(f"(ratTrunc {a.text})", INT, a.mon)
            if a.ty == STR:
                self.use_link("int(str)")
                return E(f"(← pyIntOfStr {a.text})", INT, True)
            self.fail(f"int() of a {a.ty}")
        if name == "float":
            a = self.expr(self.one_arg(n))
            if a.ty == RAT:
                return a
            if a.ty == INT:
                return E(self.num(a, RAT), RAT, a.mon)
            self.fail(f"float() of a {a.ty}")
        if name == "len":
            a = self.expr(self.one_arg(n))
            if not (is_list(a.ty) or is_dict(a.ty)):
                self.fail(f"len() of a {a.ty}")
            return E(f"({a.text}.length : Int)", INT, a.mon)
        if name == "range":
            if n.keywords or len(n.args) not in (1, 2):
                self.fail("range arguments")
            es = [self.expr(a) for a in n.args]
            if any(e.ty != INT for e in es):
                self.fail("range of non-ints")
            lo = "0" if len(es) == 1 else es[0].text
            return E(f"(pyRange {lo} {es[-1].text})", TL(INT), any(e.mon for e in es))
        if name == "enumerate":
            a = self.expr(self.one_arg(n))
            if not is_list(a.ty):
                self.fail(f"enumerate of a {a.ty}")
            return E(f"(pyEnumerate {a.text})", TL(TT(INT, a.ty[1])), a.mon)
        if name == "reversed":
            a = self.expr(self.one_arg(n))
            if not is_list(a.ty):
                self.fail(f"reversed of a {a.ty}")
            return E(f"({a.text}.reverse)", a.ty, a.mon)
        if name == "list":
            a = self.expr(self.one_arg(n))
            if not is_list(a.ty):
                self.fail(f"list() of a {a.ty}")
            return a
        if name == "min":
            if len(n.args) != 2 or n.keywords:
                self.fail("min arguments")
            a, b = self.expr(n.args[0]), self.expr(n.args[1])
            if a.ty != INT or b.ty != INT:
                self.fail("min of non-ints")
            return E(f"(min {a.text} {b.text})", INT, a.mon or b.mon)
        if name == "dict" and not n.args and not n.keywords:
            return E("[]", TD(UNK, UNK))
        if name == "any":
            g = self.one_arg(n)
            if not isinstance(g, ast.GeneratorExp) or len(g.generators) != 1 or g.generators[0].ifs:
                self.fail("any() of something else than a simple generator")
            gen = g.generators[0]
            it = self.expr(gen.iter)
            if not is_list(it.ty):
                self.fail(f"any() over a {it.ty}")
            v = self.elem_var(gen.target)
            self.bound.append(self.bind_target(gen.target, it.ty[1], v))
            try:
                c = self.cond(g.elt)
            finally:
                self.bound.pop()
            return E(f"({it.text}.any (fun {v} => {self.pure(c, 'any')}))", BOOL, it.mon)
        if name == "next":
            g = self.one_arg(n)
            if not isinstance(g, ast.GeneratorExp) or len(g.generators) != 1 or len(g.generators[0].ifs) != 1:
                self.fail("next() of something else than `x for x in l if c`")
            gen = g.generators[0]
            if not (isinstance(gen.target, ast.Name) and isinstance(g.elt, ast.Name) and g.elt.id == gen.target.id):
                self.fail("next() of a generator that transforms its elements")
            it = self.expr(gen.iter)
            if not is_list(it.ty):
                self.fail(f"next() over a {it.ty}")
            v = camel(gen.target.id)
            self.bound.append({gen.target.id: E(v, it.ty[1])})
            try:
                c = self.cond(gen.ifs[0])
            finally:
                self.bound.pop()
            return E(f"(← pyNextM (fun {v} => {self.as_m(c)}) {it.text})", it.ty[1], True)
        if name == "set":
            # `set(l)` on a list of ints: a value of type `Set Int`.  The iteration order of a Python set is unspecified, so the type
            # has no Lean type for a variable (`lean_ty` fails) and is accepted by one consumer only: `sorted(…)` without a key.
            a = self.expr(self.one_arg(n))
            if a.ty != TL(INT):
                self.fail(f"set() of a {a.ty}")
            return E(f"({self.use_link('set(list of ints)')} {a.text})", TS(INT), a.mon)
        if name == "sorted" and len(n.args) == 1 and not n.keywords:
            # `sorted(s)` without key / reverse, on a set or a list of ints
            a = self.expr(n.args[0])
            if a.ty not in (TS(INT), TL(INT)):
                self.fail(f"sorted (no key) of a {a.ty}")
            return E(f"({self.use_link('sorted(ints)')} {a.text})", TL(INT), a.mon)
        if name == "sorted":
            kw = self.kwargs(n, ["iterable", "key"])
            if set(kw) != {"iterable", "key"} or not isinstance(kw["key"], ast.Lambda):
                self.fail("sorted without a key lambda")
            it = self.expr(kw["iterable"])
            if not is_list(it.ty):
                self.fail(f"sorted of a {it.ty}")
            fn, kty = self.lambda_m(kw["key"], it.ty[1])
            if kty != INT:
                self.fail(f"sort key of type {kty}")
            return E(f"(← pySortedBy {it.text} {fn})", it.ty, True)
        if name == "Sequence" and not n.args and not n.keywords:
            return E(self.use_link("Sequence()"), SEQ)
        if name == "Message":
            return self.message_ctor(n)
        if name == "bin_velocity":
            kw = self.kwargs(n, ["velocity", "bins"])
            if set(kw) != {"velocity", "bins"}:
                self.fail("bin_velocity without explicit bins")
            v, b = self.expr(kw["velocity"]), self.expr(kw["bins"])
            if v.ty != INT or b.ty != TL(INT):
                self.fail("bin_velocity argument types")
            return E(f"(Int.ofNat ({self.use_link('bin_velocity')} {b.text} {v.text}))", INT, v.mon or b.mon)
        if name == "get_velocity_bins":
            kw = self.kwargs(n, ["velocity_max", "velocity_bins"])
            if set(kw) != {"velocity_bins"}:
                self.fail("get_velocity_bins: only velocity_bins=… is linked")
            a = self.expr(kw["velocity_bins"])
            if a.ty != INT:
                self.fail("get_velocity_bins argument type")
            return E(f"(← {self.use_link('get_velocity_bins')} {a.text})", TL(INT), True)
        if name in ("get_default_step_sizes", "get_default_note_values"):
            key = ast.unparse(n).replace(" ", "")
            key = key.replace(",", ", ")
            return E(self.use_link(key), TL(INT))
        root = self
        while root is not None:
            if name in root.nested:
                self.fail(f"value of the nested function {name} (only call statements are supported)")
            root = root.outer
        self.fail(f"call of {name}")

    def message_ctor(self, n):
        if n.args:
            self.fail("positional arguments of Message(…)")
        self.use_link("Message(…)")
        fields, mon = {"ch": "0"}, False
        for kw in n.keywords:
            if kw.arg not in MSG_FIELD:
                self.fail(f"Message({kw.arg}=…)")
            e = self.expr(kw.value)
            f, fty = MSG_FIELD[kw.arg]
            if e.ty != fty:
                self.fail(f"Message({kw.arg}=<{e.ty}>)")
            fields[f] = e.text
            mon = mon or e.mon
        if "ty" not in fields:
            self.fail("Message(…) without message_type")
        order = [MSG_FIELD[k][0] for k in MSG_FIELD]
        return E("{ " + ", ".join(f"{f} := {fields[f]}" for f in order if f in fields) + " : Msg }", MSG, mon)

    def call_attr(self, n, f):
        v = f.value
        # module-level / static callees
        if isinstance(v, ast.Name) and v.id == "itertools" and f.attr == "product":
            if len(n.args) == 1 and isinstance(n.args[0], ast.Starred) and not n.keywords:
                a = self.expr(n.args[0].value)
                if is_list(a.ty) and is_list(a.ty[1]):
                    return E(f"(pyProduct {a.text})", a.ty, a.mon)
            self.fail("itertools.product of something else than *<list of lists>")
        if isinstance(v, ast.Name) and v.id == "CircleOfFifths" and f.attr == "get_position":
            a = self.expr(self.one_arg(n))
            if a.ty != INT:
                self.fail("get_position argument type")
            return E(f"(← {self.use_link('CircleOfFifths.get_position')} {a.text})", INT, True)
        if isinstance(v, ast.Name) and v.id == "self" and not self.static:
            if f.attr not in self.reg.methods:
                self.fail(f"self.{f.attr}(…)")
            sig = self.reg.get(f.attr)
            if sig.mutates_self or sig.outs:
                self.fail(f"value of {f.attr}, which changes self or a parameter")
            args = self.call_args(sig, n)
            self.ref("self") if not sig.static else None
            head = sig.lean if sig.static else f"{sig.lean} self_"
            return E(f"(← {head}{''.join(' ' + a for a in args)})", sig.ret, True)
        # methods of values
        if f.attr == "pop":
            return self.pop_call(n, f)
        a = self.expr(v)
        if f.attr == "split" and a.ty == STR:
            s = self.expr(self.one_arg(n))
            if not (isinstance(n.args[0], ast.Constant) and isinstance(n.args[0].value, str) and n.args[0].value != ""):
                self.fail("split with a separator that is not a non-empty literal")
            return E(f"({self.use_link('str.split')} {a.text} {s.text})", TL(STR), a.mon)
        if f.attr == "get" and is_dict(a.ty):
            if len(n.args) != 2 or n.keywords:
                self.fail("dict.get without a default")
            k, d = self.expr(n.args[0]), self.expr(n.args[1])
            if k.ty != a.ty[1]:
                self.fail("dict.get key type")
            return E(f"(pyDictGetD {a.text} {k.text} {self.coerce(d, a.ty[2], 'default')})", a.ty[2], a.mon or k.mon or d.mon)
        if f.attr == "items" and is_dict(a.ty) and not n.args:
            return E(a.text, TL(TT(a.ty[1], a.ty[2])), a.mon)
        if f.attr == "index" and is_list(a.ty):
            x = self.expr(self.one_arg(n))
            if x.ty != a.ty[1] or x.ty not in (INT, STR):
                self.fail(f".index on elements of type {a.ty[1]} (only values: ints and strings)")
            return E(f"(← pyIndexOf {a.text} {x.text})", INT, True)
        if f.attr == "is_integer" and a.ty == RAT and not n.args:
            return E(f"(ratIsInteger {a.text})", BOOL, a.mon)
        if f.attr == "get_interleaved_message_pairings" and a.ty == SEQ:
            t = self.expr(self.one_arg(n))
            if t.ty != TL(MTYPE):
                self.fail("message_types argument")
            link = self.use_link("Sequence.get_interleaved_message_pairings")
            return E(f"({link} {a.text} {t.text})", TL(TT(INT, TL(MSG))), a.mon or t.mon)
        self.fail(f"call {ast.unparse(n)[:70]}")

    def pop_call(self, n, f):
        if self.pre is None:
            self.fail("pop inside a lambda, comprehension or guarded operand")
        name = f.value.id if isinstance(f.value, ast.Name) else None
        if name is None or name not in self.vars or not is_list(self.vars[name].ty) or name in self.iterating:
            self.fail(f"pop on {ast.unparse(f.value)} (only a list local that is not being iterated)")
        i = self.expr(self.one_arg(n))
        if i.ty != INT or i.mon:
            self.fail("pop index")
        var = self.vars[name]
        self.ref(name)
        t = self.fresh("t")
        self.pre.append(f"let {t} ← pyPop {var.lean} {i.text}")
        self.ref(name)
        self.pre.append(f"{var.lean} := {t}.2")
        self.effects += 1
        return E(f"{t}.1", var.ty[1])

    def call_args(self, sig, n):
        names = [p for p, _ in sig.params]
        kw = self.kwargs(n, names)
        out = []
        for p, ty in sig.params:
            if p not in kw:
                self.fail(f"missing argument {p} of {sig.qual} (defaults are not supported)")
            e = self.expr(kw[p])
            t = self.coerce(e, ty, f"argument {p}")
            out.append(t if t.startswith("(") or " " not in t else f"({t})")
        return out

    # ---- statements
    def root(self):
        r = self
        while r.outer is not None:
            r = r.outer
        return r

    def add_assign(self, blk, name, e, hint=None, what=None):
        """`name = e` for a local (or an attribute of `self` inside `__init__` before the object exists)"""
        if self.lookup_bound(name) is not None:
            self.fail(f"assignment to the loop / comprehension variable {name}")
        if name in self.vars:
            var = self.vars[name]
            try:
                text = None if (e.ty == INT and var.ty == RAT) else self.coerce(e, var.ty, f"assignment to {name}")
            except Untranslatable:
                text = None
            if text is not None:
                s = self.ref(name)
                blk.items.append(AssignItem(var.vid, var.lean, text, var.ty, s))
                if var.is_param:
                    self.reassigned.add(name)
                return
            # the type of the local changes: a new variable that shadows the old one from here on (same block only)
            first = min(self.refs.get(var.vid, [(0, None)]))
            if name in [p for p, _ in self.params] or first[1] != self.path:
                self.fail(f"{name} changes its type from {var.ty} to {e.ty} in another block than its declaration")
        ty = e.ty
        if has_unk(ty) or ty in (NONE, NAN):
            h = hint if hint is not None else (TL(self.list_hints[name]) if name in self.list_hints else None)
            if h is None:
                if is_list(ty):
                    h = TL(UNK)           # resolved by a later append (next pass)
                    self.root().unresolved.add(name)
                else:
                    self.fail(f"cannot type {name} = {e.text}")
            text = self.coerce(e, h, f"assignment to {name}") if not has_unk(h) else e.text
            ty = h
        else:
            text = e.text
        var = self.new_var(name, ty)
        var.py = name
        s = self.ref(name)
        blk.items.append(AssignItem(var.vid, var.lean, text, ty, s, force=name in self.vars and False))
        blk.items[-1].redeclare = True

    def store_self(self, blk, attr, text_of):
        """self.attr = text_of(current value text, field type)"""
        if attr not in FIELDS:
            self.fail(f"store to the unknown attribute self.{attr}")
        f, ty = FIELDS[attr]
        self.ref("self")
        self.root_mutates_self()
        blk.items.append(f"self_ := {{ self_ with {f} := {text_of(f'self_.{f}', ty)} }}")

    def root_mutates_self(self):
        if self.outer is not None:
            self.fail("a nested function stores into self")
        self.mutates_self = True

    def flush(self, blk, start):
        """put the hoisted statements of the current statement in front of what it appended since `start`"""
        if self.pre:
            if self.effects:
                tail = blk.items[start:]
                texts = " ".join(x if isinstance(x, str) else getattr(x, "text", "") for x in tail if not isinstance(x, tuple))
                if "(←" in texts or any(isinstance(x, tuple) for x in tail):
                    self.fail("a statement with a hoisted effect (pop) has another effectful part")
            blk.items[start:start] = self.pre
        self.pre, self.effects = [], 0

    def stmts(self, body, blk):
        for s in body:
            start = len(blk.items)
            self.pre, self.effects = [], 0
            self.stmt(s, blk, start)
            self.flush(blk, start)
        self.pre = None

    def branch(self, body):
        saved, saved_pre, saved_eff = self.path, self.pre, self.effects
        blk = self.new_block(body)
        self.path = blk.path
        self.stmts(body, blk)
        self.path, self.pre, self.effects = saved, saved_pre, saved_eff
        if all(isinstance(x, str) and x.startswith("--") for x in blk.items):
            blk.items.append("pure ()")
        return blk

    def header(self, blk, start):
        """the header expression of a compound statement has been translated: its hoisted parts go in front, the bodies get their own"""
        self.flush(blk, start)

    def is_self_attr(self, n):
        return isinstance(n, ast.Attribute) and isinstance(n.value, ast.Name) and n.value.id == "self" and not self.static

    def narrowing(self, s):
        """`if X is None: X = E` (no else) on an Option-typed local / attribute-local: (key, value node) or None"""
        t = s.test
        if s.orelse or len(s.body) != 1 or not isinstance(s.body[0], ast.Assign) or len(s.body[0].targets) != 1:
            return None
        if not (isinstance(t, ast.Compare) and len(t.ops) == 1 and isinstance(t.ops[0], ast.Is)
                and isinstance(t.comparators[0], ast.Constant) and t.comparators[0].value is None):
            return None
        if ast.dump(t.left) != ast.dump(s.body[0].targets[0]).replace("Store()", "Load()"):
            return None
        x = t.left
        if isinstance(x, ast.Name):
            key = x.id
        elif self.is_self_attr(x) and not self.root().materialised:
            key = "self." + x.attr
        else:
            return None
        if key not in self.vars or not is_opt(self.vars[key].ty):
            return None
        return key, s.body[0].value

    def stmt(self, s, blk, start):
        if isinstance(s, ast.Expr) and isinstance(s.value, ast.Constant) and isinstance(s.value.value, str):
            return
        if isinstance(s, ast.Pass):
            return
        if isinstance(s, ast.Nonlocal):
            if self.outer is None:
                self.fail("nonlocal outside a nested function")
            return
        if isinstance(s, ast.FunctionDef):
            self.nested_def(s)
            return
        if isinstance(s, ast.Assign):
            if len(s.targets) != 1:
                self.fail("multiple assignment targets")
            t = s.targets[0]
            e = self.expr(s.value)
            if isinstance(t, ast.Name):
                self.add_assign(blk, t.id, e)
                return
            if self.is_self_attr(t):
                if not self.root().materialised:
                    if t.attr not in FIELDS:
                        self.fail(f"store to the unknown attribute self.{t.attr}")
                    hint = FIELDS[t.attr][1] if (has_unk(e.ty) or e.ty in (NONE, NAN)) else None
                    self.add_assign(blk, "self." + t.attr, e, hint)
                    return
                self.store_self(blk, t.attr, lambda cur, ty: self.coerce(e, ty, f"self.{t.attr}"))
                return
            if isinstance(t, ast.Subscript) and not isinstance(t.slice, ast.Slice):
                k = self.expr(t.slice)
                if isinstance(t.value, ast.Name) and t.value.id in self.vars and is_dict(self.vars[t.value.id].ty):
                    var = self.vars[t.value.id]
                    if k.ty != var.ty[1]:
                        self.fail("dict key type")
                    self.ref(t.value.id)
                    sq = self.ref(t.value.id)
                    self.note_param_mutation(t.value.id)
                    blk.items.append(AssignItem(var.vid, var.lean,
                                                f"pyDictSet {var.lean} {k.text} {self.coerce(e, var.ty[2], 'dict value')}", var.ty, sq))
                    return
                if self.is_self_attr(t.value) and t.value.attr in FIELDS and is_dict(FIELDS[t.value.attr][1]) \
                        and self.root().materialised:
                    dty = FIELDS[t.value.attr][1]
                    if k.ty != dty[1]:
                        self.fail("dict key type")
                    self.store_self(blk, t.value.attr,
                                    lambda cur, ty: f"pyDictSet {cur} {k.text} {self.coerce(e, dty[2], 'dict value')}")
                    return
            self.fail(f"assignment target {ast.unparse(t)}")
        if isinstance(s, ast.AugAssign):
            sym = {ast.Add: "+", ast.Sub: "-", ast.Mult: "*"}.get(type(s.op))
            if sym is None:
                self.fail(f"augmented operator {type(s.op).__name__}")
            e = self.expr(s.value)

            def combine(cur, ty):
                if ty == STR and e.ty == STR and sym == "+":
                    return f"{cur} ++ {e.text}"
                if ty == INT and e.ty == INT:
                    return f"{cur} {sym} {e.text}"
                self.fail(f"{sym}= on {ty} / {e.ty}")
            t = s.target
            if isinstance(t, ast.Name):
                if t.id not in self.vars or self.lookup_bound(t.id) is not None:
                    self.fail(f"{t.id} {sym}= …")
                var = self.vars[t.id]
                self.ref(t.id)
                sq = self.ref(t.id)
                if var.is_param:
                    self.reassigned.add(t.id)
                blk.items.append(AssignItem(var.vid, var.lean, combine(var.lean, var.ty), var.ty, sq))
                return
            if self.is_self_attr(t):
                if not self.root().materialised:
                    key = "self." + t.attr
                    if key not in self.vars:
                        self.fail(f"self.{t.attr} {sym}= … before it is stored")
                    var = self.vars[key]
                    self.ref(key)
                    sq = self.ref(key)
                    blk.items.append(AssignItem(var.vid, var.lean, combine(var.lean, var.ty), var.ty, sq))
                    return
                self.store_self(blk, t.attr, combine)
                return
            self.fail(f"augmented target {ast.unparse(t)}")
        if isinstance(s, ast.If):
            nar = self.narrowing(s)
            if nar is not None:
                key, value = nar
                if self.path != ():
                    self.fail(f"`if {key} is None: {key} = …` below the top level of the function")
                e = self.expr(value)
                old = self.vars[key]
                inner = old.ty[1]
                dflt = self.coerce(e, inner, "default")
                if e.mon:
                    self.fail("effectful default in `if x is None: x = …`")
                self.ref(key)
                var = self.new_var(key, inner)
                var.py = key
                sq = self.ref(key)
                item = AssignItem(var.vid, var.lean, f"(match {old.lean} with | some v_ => v_ | none => {dflt})", inner, sq, force=True)
                blk.items.append(item)
                return
            c = self.cond(s.test)
            if not s.orelse and len(s.body) == 1 and isinstance(s.body[0], ast.Raise):
                # `if c: raise E` is one statement (no join point in the `do` block): raiseIf c E
                exc = s.body[0].exc
                name = exc.func.id if isinstance(exc, ast.Call) and isinstance(exc.func, ast.Name) else None
                if name not in EXCEPTIONS:
                    self.fail(f"raise {ast.unparse(exc)[:50] if exc else ''}")
                blk.items.append(f"raiseIf {c.text} PyErr.{EXCEPTIONS[name]}")
                return
            self.header(blk, start)
            then = self.branch(s.body)
            els = self.branch(s.orelse) if s.orelse else None
            blk.items.append(("if", c.text, then, els))
            return
        if isinstance(s, ast.For):
            self.for_stmt(s, blk, start)
            return
        if isinstance(s, ast.While):
            self.while_stmt(s, blk, start)
            return
        if isinstance(s, ast.Break):
            if not self.loop_kind or self.loop_kind[-1] == "rebuild":
                self.fail("break in a loop that rebuilds its list")
            blk.items.append("break")
            return
        if isinstance(s, ast.Continue):
            if not self.loop_kind or self.loop_kind[-1] == "while":
                self.fail("continue in a while loop")
            if self.loop_kind[-1] == "rebuild":
                _, out, lv = self.rebuild[-1]
                blk.items.append(f"{out} := {out} ++ [{lv}]")
            blk.items.append("continue")
            return
        if isinstance(s, ast.Return):
            if self.loop_kind:
                self.fail("return inside a loop")
            if s.value is None:
                blk.items.append(("return", None))
                self.ret_types.append(UNIT)
            else:
                e = self.expr(s.value)
                blk.items.append(("return", e))
                self.ret_types.append(e.ty)
            return
        if isinstance(s, ast.Raise):
            exc = s.exc
            name = exc.func.id if isinstance(exc, ast.Call) and isinstance(exc.func, ast.Name) else None
            if name not in EXCEPTIONS:
                self.fail(f"raise {ast.unparse(exc)[:50] if exc else ''}")
            blk.items.append(f"throw PyErr.{EXCEPTIONS[name]}")
            return
        if isinstance(s, ast.Expr) and isinstance(s.value, ast.Call):
            self.call_stmt(s.value, blk)
            return
        self.fail(f"statement {type(s).__name__}: {ast.unparse(s)[:60]}")

    def note_param_mutation(self, name):
        if name in [p for p, _ in self.params]:
            if (self.name, name) not in NO_WRITEBACK and name not in self.mutated_params and name not in self.nonlocals:
                self.mutated_params.append(name)
            if self.vars[name].is_param:
                self.reassigned.add(name)

    def set_var(self, blk, name, text, arrow=False):
        var = self.vars[name]
        if name in self.iterating:
            self.fail(f"{name} is changed while it is iterated")
        self.ref(name)
        sq = self.ref(name)
        self.note_param_mutation(name)
        if arrow:
            blk.items.append(f"{var.lean} ← {text}")
        else:
            blk.items.append(AssignItem(var.vid, var.lean, text, var.ty, sq))

    def call_stmt(self, n, blk):
        f = n.func
        if isinstance(f, ast.Attribute) and isinstance(f.value, ast.Name) and f.value.id == "LOGGER":
            # a logging call is dropped only if evaluating its arguments cannot change anything or raise anything the model would see:
            # constants and f-strings over plain names / attribute reads / subscripts / arithmetic — no assignment expression, no call,
            # no comprehension, no await / yield / lambda (audit round 4, A3: a walrus inside a dropped f-string)
            if f.attr not in ("info", "debug", "warning", "error") or n.keywords:
                raise Untranslatable(f"logging call {ast.unparse(n)[:60]}")
            for a in n.args:
                for sub in ast.walk(a):
                    if isinstance(sub, (ast.NamedExpr, ast.Call, ast.Await, ast.Yield, ast.YieldFrom, ast.Lambda, ast.ListComp, ast.SetComp,
                                        ast.DictComp, ast.GeneratorExp, ast.Starred)):
                        raise Untranslatable(f"logging argument with a possible effect ({type(sub).__name__}): {ast.unparse(a)[:60]}")
            blk.items.append("-- not modelled (logging): " + " ".join(ast.unparse(n).split())[:110])
            return
        if isinstance(f, ast.Name):
            scope = self
            while scope is not None and f.id not in scope.nested:
                scope = scope.outer
            if scope is not None:
                self.nested_call(n, scope.nested[f.id], blk)
                return
        if isinstance(f, ast.Attribute):
            v = f.value
            # methods of self
            if isinstance(v, ast.Name) and v.id == "self" and not self.static and f.attr in self.reg.methods:
                if self.outer is not None:
                    self.fail("method call on self inside a nested function")
                self.materialise(blk)
                sig = self.reg.get(f.attr)
                args = self.call_args(sig, n)
                self.ref("self")
                call = f"{sig.lean} self_" + "".join(" " + a for a in args)
                if sig.outs:
                    self.fail(f"{sig.qual} changes a parameter")
                if sig.mutates_self and sig.ret == UNIT:
                    self.mutates_self = True
                    blk.items.append(f"self_ ← {call}")
                elif sig.mutates_self:
                    self.fail(f"{sig.qual} changes self and returns a value")
                else:
                    blk.items.append(f"let _ ← {call}")
                return
            # list.append / list.sort on a local or an attribute-local
            key = v.id if isinstance(v, ast.Name) else ("self." + v.attr if self.is_self_attr(v) else None)
            if key is not None and key in self.vars and is_list(self.vars[key].ty) and self.lookup_bound(key) is None \
                    and not (self.is_self_attr(v) and self.root().materialised):
                var = self.vars[key]
                if f.attr == "append" and len(n.args) == 1 and not n.keywords:
                    e = self.expr(n.args[0])
                    ety = join_ty(var.ty[1], e.ty)
                    if ety != var.ty[1]:
                        self.list_hints[key] = ety
                        self.root().hints_changed = True
                        var.ty = TL(ety)
                    self.set_var(blk, key, f"{var.lean} ++ [{self.coerce(e, ety, 'appended element')}]")
                    return
                if f.attr == "sort" and not n.args and not n.keywords and var.ty == TL(INT):
                    self.set_var(blk, key, f"{self.use_link('list.sort')} {var.lean}")
                    return
            if self.is_self_attr(v) and self.root().materialised and v.attr in FIELDS and FIELDS[v.attr][1] == TL(INT) \
                    and f.attr == "sort" and not n.args:
                self.store_self(blk, v.attr, lambda cur, ty: f"{self.use_link('list.sort')} {cur}")
                return
            # state-changing methods of Sequence objects
            if f.attr in SEQ_MUTATORS:
                link = self.use_link(SEQ_MUTATORS[f.attr])
                args = [self.expr(a) for a in n.args]
                if n.keywords or len(args) != 1:
                    self.fail(f"arguments of {f.attr}")
                want = {"set_channel": INT, "merge": TL(SEQ), "add_absolute_message": MSG}[f.attr]
                if args[0].ty != want:
                    self.fail(f"{f.attr}(<{args[0].ty}>)")
                a = args[0].text
                if isinstance(v, ast.Name) and v.id in self.vars and self.vars[v.id].ty == SEQ and self.lookup_bound(v.id) is None:
                    self.set_var(blk, v.id, f"{link} {self.vars[v.id].lean} {a}")
                    return
                if isinstance(v, ast.Subscript) and isinstance(v.value, ast.Name) and v.value.id in self.vars \
                        and self.vars[v.value.id].ty == TL(SEQ) and not isinstance(v.slice, ast.Slice):
                    i = self.expr(v.slice)
                    if i.ty != INT or args[0].mon:
                        self.fail("index / argument of a method call on a list element")
                    lv = self.vars[v.value.id].lean
                    self.set_var(blk, v.value.id, f"pyModifyAt {lv} {i.text} (fun s_ => {link} s_ {a})", arrow=True)
                    return
                self.fail(f"{f.attr} on {ast.unparse(v)}: the object must be a local, a rebuilt loop variable or an element "
                          f"of a list local (objects are values)")
        self.fail(f"call statement {ast.unparse(n)[:70]}")

    def materialise(self, blk):
        """`__init__`: build the object from the attribute-locals at the first method call on self"""
        if self.materialised or not self.is_init:
            return
        missing = [a for a in FIELDS if "self." + a not in self.vars]
        if missing:
            self.fail(f"__init__ calls a method before it has stored {missing}")
        parts = []
        for a, (f, ty) in FIELDS.items():
            var = self.vars["self." + a]
            self.ref("self." + a)
            parts.append(f"{f} := {self.coerce(E(var.lean, var.ty), ty, 'field ' + a)}")
        v = self.new_var("self", OBJ)
        v.lean = "self_"
        v.py = "self"
        sq = self.ref("self")
        blk.items.append(AssignItem(v.vid, "self_", "{ " + ", ".join(parts) + " }", OBJ, sq, force=True))
        self.materialised = True
        self.mutates_self = True

    # ---- loops
    def calls_mutator_on(self, body, name):
        for node in body:
            for n in ast.walk(node):
                if isinstance(n, ast.Call) and isinstance(n.func, ast.Attribute) and n.func.attr in SEQ_MUTATORS \
                        and isinstance(n.func.value, ast.Name) and n.func.value.id == name:
                    return True
        return False

    def for_stmt(self, s, blk, start):
        if s.orelse:
            self.fail("for … else")
        it = self.expr(s.iter)
        self.header(blk, start)
        if not is_list(it.ty):
            self.fail(f"iteration over a {it.ty}")
        ety = it.ty[1]
        names = [s.target.id] if isinstance(s.target, ast.Name) else \
            [x.id for x in s.target.elts] if isinstance(s.target, ast.Tuple) and all(isinstance(x, ast.Name) for x in s.target.elts) else None
        if names is None:
            self.fail(f"loop target {ast.unparse(s.target)}")
        for nm in names:
            if nm in self.vars:
                # Python rebinds the local; here the loop variable is a new binding and the local is gone afterwards
                del self.vars[nm]
        lname = s.iter.id if isinstance(s.iter, ast.Name) else None
        rb = [nm for nm in names if self.calls_mutator_on(s.body, nm)]
        saved = self.path
        body = self.new_block(s.body)
        self.path = body.path
        if rb:
            src = s.iter
            if isinstance(src, ast.Call) and isinstance(src.func, ast.Name) and src.func.id == "enumerate" and len(src.args) == 1:
                src = src.args[0]
            if not (isinstance(src, ast.Name) and src.id in self.vars and self.vars[src.id].ty == TL(SEQ)) or len(rb) != 1:
                self.fail("a loop that changes the objects it iterates over must iterate a list local (or enumerate of it)")
            rv = rb[0]
            lv = self.elem_var(s.target) if not isinstance(s.target, ast.Name) else camel(rv) + "0_"
            self.lean_types[lv] = lean_ty(ety)
            binds = self.bind_target(s.target, ety, lv)
            init = binds.pop(rv)
            out = self.fresh("out")
            blk.items.append(f"-- the loop changes the objects in `{src.id}`: the list is rebuilt, every iteration emits the new state of its element")
            blk.items.append(f"let mut {out} : List LSeq := []")
            self.lean_types[out] = "List LSeq"
            self.bound.append(binds)
            var = self.new_var(rv, SEQ, scoped=True)
            sq = self.ref(rv)
            body.items.append(AssignItem(var.vid, var.lean, init.text, SEQ, sq, force=True))
            self.loop_kind.append("rebuild")
            self.rebuild.append((rv, out, var.lean))
            self.iterating.append(src.id)
            self.stmts(s.body, body)
            body.items.append(f"{out} := {out} ++ [{var.lean}]")
            self.iterating.pop()
            self.rebuild.pop()
            self.loop_kind.pop()
            self.bound.pop()
            del self.vars[rv]
            self.path = saved
            blk.items.append(("for", lv, it.text, body))
            self.set_var(blk, src.id, out)
            self.pre = []
            return
        lv = self.elem_var(s.target)
        self.lean_types[lv] = lean_ty(ety)
        self.bound.append(self.bind_target(s.target, ety, lv))
        if lname is not None:
            self.iterating.append(lname)
        self.loop_kind.append("for")
        self.stmts(s.body, body)
        self.loop_kind.pop()
        if lname is not None:
            self.iterating.pop()
        self.bound.pop()
        self.path = saved
        if not body.items:
            body.items.append("pure ()")
        blk.items.append(("for", lv, it.text, body))
        self.pre = []

    def while_stmt(self, s, blk, start):
        if s.orelse:
            self.fail("while … else")
        t = s.test
        if not (isinstance(t, ast.Compare) and len(t.ops) == 1 and isinstance(t.ops[0], (ast.Lt, ast.LtE, ast.Gt, ast.GtE))):
            self.fail(f"while test {ast.unparse(t)} (only a single order comparison has a fuel rule)")
        a, b = self.expr(t.left), self.expr(t.comparators[0])
        if a.ty != INT or b.ty != INT or a.mon or b.mon:
            self.fail("while test operands")
        dist = f"{b.text} - {a.text}" if isinstance(t.ops[0], (ast.Lt, ast.LtE)) else f"{a.text} - {b.text}"
        fuel = self.fresh("fuel")
        blk.items.append(f"-- while {ast.unparse(t)}:  fuel = distance between the two sides at loop entry + 1")
        blk.items.append(f"let {fuel} : Nat := Int.toNat ({dist}) + 1")
        self.lean_types[fuel] = "Nat"
        saved = self.path
        body = self.new_block(s.body)
        self.path = body.path
        c = self.cond(t)
        brk = Block(body.path + ("s",))
        brk.items.append("break")
        body.items.append(("if", f"!{c.text}", brk, None))
        self.loop_kind.append("while")
        self.stmts(s.body, body)
        self.loop_kind.pop()
        self.path = saved
        blk.items.append(("for", "_", f"List.replicate {fuel} ()", body))
        c2 = self.cond(t)
        blk.items.append(f"raiseIf {c2.text} PyErr.fuel")
        self.pre = []

    # ---- nested functions
    def nested_def(self, node):
        if node.args.defaults or node.args.vararg or node.args.kwarg or node.decorator_list:
            self.fail(f"nested function {node.name}: parameter kinds")
        child = FnTranslator(self.reg, node, node.name, outer=self)
        child.list_hints = self.list_hints
        text = child.translate()
        self.nested_texts.append(text)
        self.nested[node.name] = child

    def capture(self, name):
        """a nested function reads `name` from the enclosing function: it becomes a parameter"""
        o = self.outer
        if o is None or name not in o.vars or o.lookup_bound(name) is not None:
            return False
        ty = o.vars[name].ty
        self.captured.append((name, ty))
        v = self.new_var(name, ty)
        v.is_param = True
        self.params.append((name, ty))
        return True

    def nested_call(self, n, child, blk):
        if n.keywords or len(n.args) != len(child.own_params):
            self.fail(f"arguments of {child.name}")
        args = ["self_"] if child.uses_self else []
        if child.uses_self:
            self.ref("self")
        for name, ty in child.captured + [(x, None) for x in child.nonlocals]:
            if name not in self.vars:
                self.fail(f"{child.name} needs {name}, which is not defined at the call")
            if ty is not None and self.vars[name].ty != ty:
                self.fail(f"{name} has type {self.vars[name].ty} at the call of {child.name}, {ty} at its definition")
            self.ref(name)
            args.append(self.vars[name].lean)
        for a, (p, ty) in zip(n.args, child.own_params):
            e = self.expr(a)
            t = self.coerce(e, ty, f"argument {p}")
            args.append(t if t.startswith("(") or " " not in t else f"({t})")
        r = self.fresh("r")
        blk.items.append(f"let {r} ← {child.sig.lean} " + " ".join(args))
        k = len(child.nonlocals) + (0 if child.sig.ret == UNIT else 1)
        for i, name in enumerate(child.nonlocals):
            proj = ".2" * i + (".1" if i < k - 1 else "")
            self.set_var(blk, name, f"{r}{proj}")
        if child.sig.ret != UNIT:
            self.fail(f"value of the nested function {child.name}")

    # ---- declarations and rendering
    def decide_declarations(self, root):
        blocks, assigns = {}, {}

        def index(b):
            blocks[b.path] = b
            for it in b.items:
                if isinstance(it, AssignItem):
                    assigns.setdefault(it.vid, []).append((it, b))
                if isinstance(it, tuple):
                    for x in it:
                        if isinstance(x, Block):
                            index(x)
        index(root)
        hoist = {}
        for vid, rs in self.refs.items():
            var = self.all_vars[vid]
            if getattr(var, "is_param", False):
                continue
            items = assigns.get(vid, [])
            if any(it.force for it, _ in items):
                continue
            paths = [p for _, p in rs]
            common = paths[0]
            for p in paths[1:]:
                k = 0
                while k < len(common) and k < len(p) and common[k] == p[k]:
                    k += 1
                common = common[:k]
            while common not in blocks:
                common = common[:-1]
            first = min(sq for sq, _ in rs)
            decl = [it for it, b in items if it.seq == first and b.path == common]
            if decl:
                decl[0].declares = True
                continue
            where = ()
            if common != () and "." not in var.py:
                ok, _ = definitely_assigned(blocks[common].py, var.py)
                if ok:
                    where = common        # every run of that block assigns the variable before it reads it
            hoist.setdefault(where, []).append(var)
        for path, vs in hoist.items():
            names = [v.lean for v in vs]
            if len(set(names)) != len(names):
                self.fail(f"two locals named {names} need a declaration at the same place")
        return hoist

    def render(self, blk, ind, hoist, out):
        for var in hoist.get(blk.path, []):
            out.append(f"{ind}let mut {var.lean} : {lean_ty(var.ty)} := {lean_default(var.ty)}")
        for it in blk.items:
            if isinstance(it, str):
                if it in ("continue", "break") and self.loop_ret[-1] is not None:
                    out.append(ind + "return " + self.loop_ret[-1][it])
                else:
                    out.append(ind + it)
            elif isinstance(it, AssignItem):
                ty = self.all_vars[it.vid].ty
                if it.declares:
                    out.append(f"{ind}let mut {it.lean} : {lean_ty(ty)} := {it.text}")
                else:
                    out.append(f"{ind}{it.lean} := {it.text}")
            elif it[0] == "if":
                exported = self.pure_if_exports(it, hoist)
                mexported = self.assign_if_exports(it, hoist) if exported is None else None
                if exported is not None:
                    self.render_pure_if(it, exported, ind, out)
                elif mexported is not None:
                    self.render_assign_if(it, mexported, ind, hoist, out)
                else:
                    self.render_if(it, ind, hoist, out, "if")
            elif it[0] == "for":
                _, v, e, body = it
                if self.block_size(body) > NAMED_LOOP_THRESHOLD:
                    self.render_named_loop(v, e, body, ind, hoist, out)
                else:
                    out.append(f"{ind}for {v} in {e} do")
                    self.loop_ret.append(None)
                    self.render(body, ind + "  ", hoist, out)
                    self.loop_ret.pop()
            elif it[0] == "return":
                out.append(ind + "return " + self.return_value(it[1]))
            else:
                raise AssertionError(it)

    def block_size(self, blk):
        n = 0
        for x in blk.items:
            if isinstance(x, str):
                n += 0 if x.startswith("--") else 1
            elif isinstance(x, AssignItem):
                n += 1
            else:
                n += 1 + sum(self.block_size(b) for b in x if isinstance(b, Block))
        return n

    def render_named_loop(self, v, e, body, ind, hoist, out):
        """a long loop body becomes a definition `<fn>Loop<k>`: parameters = the outer names it reads, the element, the tuple of
        the outer variables it assigns; `continue` / `break` / the end of the body return `ForInStep.yield / .done` of that tuple"""
        import re
        self.loops += 1
        k = self.loops
        name = self.sig.lean + f"Loop{k}"
        for vid, var in self.all_vars.items():
            self.lean_types.setdefault(var.lean, lean_ty(var.ty))
        if self.uses_self_any():
            self.lean_types.setdefault("self_", "TokObj")
        # first rendering, to find what the body reads and assigns
        self.loop_ret.append({"continue": "?", "break": "?"})
        probe = []
        depth = len(self.loop_defs)
        loops_before = self.loops
        self.render(body, "  ", hoist, probe)
        del self.loop_defs[depth:]
        self.loops = loops_before
        self.loop_ret.pop()
        text = "\n".join(l for l in probe if not l.strip().startswith("--")
                         and not re.fullmatch(r"\s*let mut ([A-Za-z_][A-Za-z0-9_']*) := \1", l))
        idents = set(re.findall(r"[A-Za-z_][A-Za-z0-9_']*", text))
        declared = set(re.findall(r"let mut ([A-Za-z_][A-Za-z0-9_']*)", text)) | set(re.findall(r"let ([A-Za-z_][A-Za-z0-9_']*) (?:: |←)", text)) \
            | set(re.findall(r"for ([A-Za-z_][A-Za-z0-9_']*) in", text))
        captured = [n for n in self.lean_types if n in idents and n not in declared and n != v]
        assigned = set(re.findall(r"^\s*([A-Za-z_][A-Za-z0-9_']*) (?::=|←) ", text, flags=re.M))
        assigned |= {x for m in re.findall(r"^\s*\(([A-Za-z0-9_', ]+)\) := ", text, flags=re.M) for x in m.split(", ")}
        state = [n for n in captured if n in assigned]
        ro = [n for n in captured if n not in assigned]
        tup = "()" if not state else state[0] if len(state) == 1 else "(" + ", ".join(state) + ")"
        sty = "Unit" if not state else " × ".join(f"({self.lean_types[n]})" if " " in self.lean_types[n] else self.lean_types[n] for n in state)
        self.loop_ret.append({"continue": f"ForInStep.yield {tup}", "break": f"ForInStep.done {tup}"})
        lines = []
        self.render(body, "  ", hoist, lines)
        self.loop_ret.pop()
        vty = self.lean_types.get(v, "Unit")
        head = f"def {name}" + "".join(f" ({n} : {self.lean_types[n]})" for n in ro) + f" ({v if v != '_' else 'x_'} : {vty}) (s_ : {sty})" \
            + f" : Except PyErr (ForInStep ({sty})) := do"
        d = [f"/-- body of loop {k} of `{self.qual}`: one iteration on the variables " + (", ".join(f"`{n}`" for n in state) or "(none)") + " -/", head]
        for i, n in enumerate(state):
            proj = "s_" if len(state) == 1 else "s_" + ".2" * i + (".1" if i < len(state) - 1 else "")
            d.append(f"  let mut {n} := {proj}")
        d.extend(lines)
        d.append(f"  return ForInStep.yield {tup}")
        self.loop_defs.append("\n".join(d) + "\n")
        call = name + "".join(" " + n for n in ro)
        r = f"s{k}_"
        out.append(f"{ind}let {r} ← forIn ({e}) {tup} (fun x_ s_ => {call} x_ s_)")
        for i, n in enumerate(state):
            proj = r if len(state) == 1 else r + ".2" * i + (".1" if i < len(state) - 1 else "")
            out.append(f"{ind}{n} := {proj}")
        self.lean_types[r] = sty

    def uses_self_any(self):
        return any(v.lean == "self_" for v in self.all_vars.values())

    def pure_if_exports(self, it, hoist):
        """an `if` whose branches only assign locals with pure right-hand sides (and nest such ifs): the variables it
        changes that live on after it, in first-assignment order; None if the `if` is not of that kind"""
        exported = []

        def walk(blk):
            if hoist.get(blk.path):
                return False
            for x in blk.items:
                if isinstance(x, str):
                    if x.startswith("--") or x == "pure ()":
                        continue
                    return False
                if isinstance(x, AssignItem):
                    if "(←" in x.text:
                        return False
                    if not x.declares and x.lean not in exported:
                        exported.append(x.lean)
                    if x.declares:
                        inside.add(x.lean)
                    continue
                if x[0] == "if":
                    if not walk(x[2]) or (x[3] is not None and not walk(x[3])):
                        return False
                    continue
                return False
            return True
        inside = set()
        _, c, then, els = it
        if "(←" in c or not walk(then) or (els is not None and not walk(els)):
            return None
        exported = [n for n in exported if n not in inside]
        return exported or None

    def assign_if_exports(self, it, hoist):
        """an `if` whose branches only assign locals (effectful right-hand sides allowed: calls that may raise, `raiseIf`) and
        contain no loop and no `break` / `continue` / `return` / `throw`: the variables it changes that live on after it"""
        import re
        exported = []

        def note(name):
            if name not in exported:
                exported.append(name)

        def walk(blk):
            if hoist.get(blk.path):
                return False
            for x in blk.items:
                if isinstance(x, str):
                    if x.startswith("--") or x == "pure ()" or x.startswith("raiseIf ") or x.startswith("let "):
                        continue
                    m = re.match(r"([A-Za-z_][A-Za-z0-9_']*) (?::=|←) ", x)
                    if m:
                        note(m.group(1))
                        continue
                    return False
                if isinstance(x, AssignItem):
                    if not x.declares:
                        note(x.lean)
                    else:
                        inside.add(x.lean)
                    continue
                if x[0] == "if":
                    if not walk(x[2]) or (x[3] is not None and not walk(x[3])):
                        return False
                    continue
                return False
            return True
        inside = set()
        _, c, then, els = it
        if not walk(then) or (els is not None and not walk(els)):
            return None
        exported = [n for n in exported if n not in inside]
        return exported or None

    def render_assign_if(self, it, exported, ind, hoist, out):
        """`let r ← (if c then (do …; pure (v1, …, vk)) else …)` followed by `vi := r.i` — one bind, no join point"""
        tup = exported[0] if len(exported) == 1 else "(" + ", ".join(exported) + ")"
        r = self.fresh("b")

        def branch(blk, ind2):
            lines = [f"{ind2}let mut {n} := {n}" for n in exported]
            self.loop_ret.append(None)
            self.render(blk, ind2, hoist, lines)
            self.loop_ret.pop()
            lines.append(f"{ind2}pure {tup}")
            return lines

        def ite(node, ind2, kw, lines):
            _, c, then, els = node
            lines.append(f"{ind2}{kw} {c} then (do")
            lines.extend(branch(then, ind2 + "    "))
            lines[-1] += ")"
            if els is not None and len(els.items) == 1 and isinstance(els.items[0], tuple) and els.items[0][0] == "if" \
                    and not hoist.get(els.path):
                ite(els.items[0], ind2, "else if", lines)
            elif els is not None:
                lines.append(f"{ind2}else (do")
                lines.extend(branch(els, ind2 + "    "))
                lines[-1] += ")"
            else:
                lines.append(f"{ind2}else pure {tup}")

        lines = []
        ite(it, ind + "  ", "if", lines)
        out.append(f"{ind}let {r} ← (")
        out.extend(lines)
        out[-1] += ")"
        for i, n in enumerate(exported):
            proj = r if len(exported) == 1 else r + ".2" * i + (".1" if i < len(exported) - 1 else "")
            out.append(f"{ind}{n} := {proj}")

    def render_pure_if(self, it, exported, ind, out):
        """`(v1, …, vk) := if c then (let …; (v1, …, vk)) else …` — one assignment, no join point"""
        tup = exported[0] if len(exported) == 1 else "(" + ", ".join(exported) + ")"

        def block(blk, ind2, lines):
            for x in blk.items:
                if isinstance(x, str):
                    if x.startswith("--"):
                        lines.append(ind2 + x)
                    continue
                if isinstance(x, AssignItem):
                    ty = self.all_vars[x.vid].ty
                    lines.append(f"{ind2}let {x.lean} := {x.text}")
                    continue
                inner = self.pure_if_exports(x, {})
                itup = inner[0] if len(inner) == 1 else "(" + ", ".join(inner) + ")"
                lines.append(f"{ind2}let {itup} := (")
                ite(x, ind2 + "  ", lines, inner, "if")
                lines[-1] += ")"
            lines.append(ind2 + tup_of[-1])

        tup_of = []

        def ite(node, ind2, lines, exp, kw):
            _, c, then, els = node
            tup_of.append(exp[0] if len(exp) == 1 else "(" + ", ".join(exp) + ")")
            lines.append(f"{ind2}{kw} {c} then")
            block(then, ind2 + "  ", lines)
            if els is not None and len(els.items) == 1 and isinstance(els.items[0], tuple) and els.items[0][0] == "if":
                tup_now = tup_of.pop()
                ite(els.items[0], ind2, lines, exp, "else if")
                tup_of.append(tup_now)
            else:
                lines.append(f"{ind2}else")
                if els is not None:
                    block(els, ind2 + "  ", lines)
                else:
                    lines.append(ind2 + "  " + tup_of[-1])
            tup_of.pop()

        lines = []
        ite(it, ind + "  ", lines, exported, "if")
        out.append(f"{ind}{tup} := (")
        out.extend(lines)
        out[-1] += ")"

    def render_if(self, it, ind, hoist, out, kw):
        _, c, then, els = it
        out.append(f"{ind}{kw} {c} then")
        self.render(then, ind + "  ", hoist, out)
        if els is not None:
            if len(els.items) == 1 and isinstance(els.items[0], tuple) and els.items[0][0] == "if" and not hoist.get(els.path):
                self.render_if(els.items[0], ind, hoist, out, "else if")
            else:
                out.append(f"{ind}else")
                self.render(els, ind + "  ", hoist, out)

    def out_components(self):
        comps = []
        if self.mutates_self:
            comps.append(("self_", OBJ))
        for p in self.nonlocals:
            comps.append((self.lean_name(p), dict(self.params)[p]))
        for p in self.mutated_params:
            comps.append((self.final_lean[p], self.final_types[p]))
        return comps

    def return_value(self, e):
        comps = [c for c, _ in self.out_components()]
        if e is not None:
            comps.append(self.coerce(e, self.sig.ret, "return value") if not is_rec(e.ty) else e.text)
        if not comps:
            return "()"
        return comps[0] if len(comps) == 1 else "(" + ", ".join(comps) + ")"

    def translate(self):
        for _ in range(4):
            text = self.translate_once()
            if not self.hints_changed and not self.unresolved:
                return text
            if not self.hints_changed and self.unresolved:
                self.fail(f"the element type of {sorted(self.unresolved)} is never determined")
        self.fail("list element types do not stabilise")

    def translate_once(self):
        hints = self.list_hints
        fn = self.fn
        name, outer = self.name, self.outer
        self.__init__(self.reg, fn, name, outer)
        self.list_hints = hints
        self.unresolved = set()
        self.reassigned = set()
        self.ret_types = []
        self.nested_texts = []
        self.captured = []
        self.own_params = []
        if fn.args.vararg or fn.args.kwarg or fn.args.kwonlyargs or fn.args.posonlyargs:
            self.fail("parameter kinds")
        args = list(fn.args.args)
        defaults = [None] * (len(args) - len(fn.args.defaults)) + list(fn.args.defaults)
        default_notes = []
        if not self.static and outer is None:
            if not args or args[0].arg != "self":
                self.fail("method without self")
            args, defaults = args[1:], defaults[1:]
        if (not self.static) and not self.is_init:
            v = self.new_var("self", OBJ)
            v.lean, v.is_param = "self_", True
        if outer is not None:
            for st in fn.body:
                if isinstance(st, ast.Nonlocal):
                    for nm in st.names:
                        if nm not in outer.vars:
                            self.fail(f"nonlocal {nm} is not a local of the enclosing function")
                        self.nonlocals.append(nm)
                        v = self.new_var(nm, outer.vars[nm].ty)
                        v.is_param = True
                        self.params.append((nm, outer.vars[nm].ty))
                        self.reassigned.add(nm)
        for a, d in zip(args, defaults):
            ann = ast.unparse(a.annotation) if a.annotation is not None else None
            ty = PARAM_TYPES.get((self.name, a.arg), ANNOT.get(ann))
            if ty is None:
                self.fail(f"parameter {a.arg}: annotation {ann!r}")
            v = self.new_var(a.arg, ty)
            v.is_param = True
            self.params.append((a.arg, ty))
            self.own_params.append((a.arg, ty))
            if d is not None:
                default_notes.append(f"{a.arg}={ast.unparse(d)}")
                self.reg.defaults.append(f"{self.name}({a.arg}={ast.unparse(d)})")
        root = Block((), fn.body)
        self.path = ()
        self.stmts(fn.body, root)
        if self.is_init and not self.materialised:
            self.materialise(root)
        self.final_types = {p: self.vars[p].ty for p in self.mutated_params}
        self.final_lean = {p: self.vars[p].lean for p in self.mutated_params}
        rts = set(self.ret_types)
        if len(rts) > 1:
            self.fail(f"return types {sorted(map(str, rts))}")
        ret = rts.pop() if rts else UNIT
        body_stmts = [x for x in fn.body if not (isinstance(x, ast.Expr) and isinstance(x.value, ast.Constant))]
        if not isinstance(body_stmts[-1], (ast.Return, ast.Raise)):
            if ret != UNIT:
                self.fail("may fall off the end although it returns a value")
            root.items.append(("return", None))
        self.uses_self = any(self.all_vars[v].lean == "self_" and getattr(self.all_vars[v], "is_param", False)
                             for v in self.refs)
        lean = camel(self.name) if outer is None else camel(outer.name) + camel(self.name)[:1].upper() + camel(self.name)[1:]
        if self.is_init:
            lean = "tokInit"
        # parameter order of a nested function: self, captured, nonlocal, own
        if outer is not None:
            ordered = self.captured + [(p, dict(self.params)[p]) for p in self.nonlocals] + self.own_params
        else:
            ordered = self.params
        self.sig = Sig(lean, [(p, t) for p, t in ordered], self.mutates_self, self.static, ret,
                       [(p, self.final_types[p]) for p in self.mutated_params], self.qual)
        comps = self.out_components()
        rtys = [lean_ty(t) for _, t in comps] + ([lean_ty(ret)] if ret != UNIT else [])
        rty = " × ".join(f"({t})" if " " in t else t for t in rtys) if rtys else "Unit"
        hoist = self.decide_declarations(root)
        ps = ([("self_", OBJ)] if self.uses_self or (outer is None and not self.static and not self.is_init) else [])
        self.uses_self = bool(ps)
        head = f"def {lean}" + "".join(f" ({n} : {lean_ty(t)})" for n, t in ps) \
            + "".join(f" ({self.lean_name(p)} : {lean_ty(t)})" for p, t in ordered) + f" : Except PyErr ({rty}) := do"
        doc = f"/-- `{self.qual}` ({SRC}:{fn.lineno}-{fn.end_lineno})"
        if comps:
            doc += "; returns " + ", ".join(f"the new `{c}`" for c, _ in comps) + (" and the return value" if ret != UNIT else "")
        if default_notes:
            doc += "; Python defaults: " + ", ".join(default_notes)
        if self.captured:
            doc += "; read from the enclosing scope: " + ", ".join(p for p, _ in self.captured)
        out = [doc + " -/", head]
        if self.mutates_self and not self.is_init:
            out.append("  let mut self_ := self_")
        for p, _ in ordered:
            if p in self.reassigned:
                out.append(f"  let mut {self.lean_name(p)} := {self.lean_name(p)}")
        for p, t in ordered:
            self.lean_types[self.lean_name(p)] = lean_ty(t)
        self.render(root, "  ", hoist, out)
        return "".join(t + "\n" for t in self.nested_texts) + "".join(t + "\n" for t in self.loop_defs) + "\n".join(out) + "\n"


def check_fields(reg):
    init = reg.methods["__init__"]
    stored = []
    for n in ast.walk(init):
        if isinstance(n, (ast.Assign, ast.AugAssign)):
            for t in (n.targets if isinstance(n, ast.Assign) else [n.target]):
                if isinstance(t, ast.Attribute) and isinstance(t.value, ast.Name) and t.value.id == "self" and t.attr not in stored:
                    stored.append(t.attr)
    if sorted(stored) != sorted(FIELDS):
        raise Untranslatable(f"the attributes stored by __init__ changed: {sorted(set(stored) ^ set(FIELDS))}")
    for name, f in reg.methods.items():
        if name == "__init__":
            continue
        for n in ast.walk(f):
            if isinstance(n, ast.Attribute) and isinstance(n.value, ast.Name) and n.value.id == "self" \
                    and isinstance(n.ctx, ast.Store) and n.attr not in FIELDS:
                raise Untranslatable(f"{name} stores the new attribute self.{n.attr}")


def class_attributes(reg):
    """class-level assignments (`sort_order = [...]`) become definitions"""
    tr = FnTranslator(reg, ast.parse("def _class_body(): pass").body[0], "_class_body")
    tr.static = True
    for s in reg.cls.body:
        if isinstance(s, ast.Assign):
            if len(s.targets) != 1 or not isinstance(s.targets[0], ast.Name):
                raise Untranslatable("class-level assignment target")
            e = tr.expr(s.value)
            if e.mon:
                raise Untranslatable("effectful class attribute")
            name = s.targets[0].id
            reg.class_attrs[name] = (camel(name), e.ty)
            reg.extra_defs.append(f"/-- class attribute `{name}` ({SRC}:{s.lineno}) -/\n"
                                  f"def {camel(name)} : {lean_ty(e.ty)} := {e.text}\n")
        elif not isinstance(s, (ast.FunctionDef, ast.Expr, ast.Pass)):
            raise Untranslatable(f"class-level statement {type(s).__name__}")


NAMED_LOOP_THRESHOLD = 20     # statements (counted recursively) above which a loop body becomes a named definition

METHOD_ORDER = ["dictionary_size", "_construct_dictionary", "__init__", "_split_token", "tokenise", "detokenise",
                "encode", "decode", "get_info"]


def gen_tok_fns():
    _AST.clear()
    import py2lean
    py2lean._AST_CACHE.clear()
    py2lean.check_message_class()
    check_links()
    reg = Registry()
    if sorted(reg.methods) != sorted(METHOD_ORDER):
        raise Untranslatable(f"the methods of {CLS} changed: {sorted(set(reg.methods) ^ set(METHOD_ORDER))}")
    check_fields(reg)
    class_attributes(reg)
    class_defs = list(reg.extra_defs)
    reg.extra_defs.clear()
    for m in METHOD_ORDER:
        reg.get(m)
    L = []
    L.append("/- GENERATED by tools/py2lean_tok.py (through tools/gen_lean.py) from /repo — do not edit.")
    L.append(f"   Statement-by-statement translation of `{CLS}` ({SRC}) into `do` blocks over")
    L.append("   `Except PyErr`.  Conventions: docstring of tools/py2lean_tok.py; support library: Model/TokLib.lean, Model/TokLib2.lean, Model/TokLib3.lean.")
    L.append("   Tied to the hand models (Model/Token.lean, Model/Render.lean) by lean/SCoda/Props/TokTie.lean.")
    L.append("")
    L.append("   LINK TABLE — callees that are not translated but mapped to an existing Lean function (assumptions):")
    for key in LINKS:
        used = "used" if key in reg.links_used else "unused"
        L.append(f"     {key} ↦ {LINKS[key][0]}   [{used}]  {LINKS[key][1]}")
    L.append("-/")
    L.append("import SCoda.Model.TokLib2")
    L.append("import SCoda.Model.TokLib3")
    L.append("set_option linter.unusedVariables false")
    L.append("namespace SCoda.Gen.Tok")
    L.append("open SCoda SCoda.TokLib")
    L.append("")
    L.append(f"/-- the state of a `{CLS}` object: the attributes stored by `__init__` -/")
    L.append("structure TokObj where")
    for a, (f, ty) in FIELDS.items():
        L.append(f"  {f} : {lean_ty(ty)}      -- self.{a}")
    L.append("  deriving Repr, Inhabited")
    L.append("")
    L.extend(class_defs)
    L.append("/-- the translated methods, in dependency order: (Python name, Lean name) -/")
    L.append("def translated : List (String × String) := [" + ", ".join(
        f'("{k}", "{reg.done[k][0].lean}")' for k in reg.order) + "]")
    L.append("/-- the defaulted parameters as written in the source -/")
    L.append("def defaults : List String := [" + ", ".join(
        '"' + d.replace("\\", "\\\\").replace('"', '\\"') + '"' for d in reg.defaults) + "]")
    L.append("")
    L.extend(reg.extra_defs)
    for key in reg.order:
        L.append(reg.done[key][1])
    L.append("end SCoda.Gen.Tok")
    return "\n".join(L) + "\n"


if __name__ == "__main__":
    print(gen_tok_fns())
