#!/venv/bin/python
"""py2lean_rel2: statement-by-statement AST translation of the two dict-heavy methods of
/repo/scoda/sequences/relative_sequence.py that tools/py2lean.py leaves out,

    RelativeSequence.normalise_relative      (dict of dicts of lists of message OBJECTS, `in` / `remove` by identity)
    RelativeSequence.split                   (nested for / while, open-note table keyed by a tuple, deferred queue)

into Lean 4 `do` blocks.

    gen_rel2_fns() -> str      text of lean/SCoda/Gen/RelFns2.lean   (namespace SCoda.Gen.Rel2)

The result is tied to the hand models `SCoda.normalise` / `SCoda.split` by theorems (lean/SCoda/Props/RelTie2.lean).
The translator knows Python constructs, not functions; anything outside the subset raises `Untranslatable`
(gen_lean.py then writes a file that does not compile).  Conventions shared with tools/py2lean.py (FIELD map,
`None` in an int field is `pyNone` = -1, `Message(...)` literals with the channel default, `None`-initialised
locals are `Option Int`, a sequence object is its message list, a method that changes `self._messages` returns the
new list) are not repeated here.  What is new:

  types     inferred by unification: `dict()` / `[]` get type variables that the later uses resolve
            (`Assoc κ ν`, `List τ`); a function whose types stay undetermined is refused.
  locals    every local is declared (`let mut`) at the top of the function with a default value; a flow check
            (below) refuses a read that is not preceded by an assignment on every path, so the default is never read.
  dicts     insertion-ordered association lists `SCoda.Assoc` (Model/Assoc.lean):
            `d[k] = v` ↦ `Assoc.set` (an existing key keeps its position, a new key goes to the end),
            `d[k]` ↦ `pyDictGet` (KeyError), `d.get(k, dflt)` ↦ `pyGetD`, `d.setdefault(k, v)` ↦ `pySetDefault`,
            `d.pop(k, None)` ↦ `Assoc.erase`, `k in d` ↦ `Assoc.contains`, `d.keys()` ↦ `pyKeys`, `d.items()` ↦ `d`,
            `d[a][b] = v` ↦ `Assoc.set d a (Assoc.set (← pyDictGet d a) b v)`; tuple keys are pairs.
            `None` as a key is `pyNone` like everywhere else.
  lists     `l.pop(0)` / `l.pop(-1)` / `l.pop()` ↦ `pyPopFirst` / `pyPopLast` (IndexError), `l[0:0] = e` ↦ `e ++ l`,
            `copy.copy(l)` ↦ `l` (a fresh list with the same elements), `l.remove(x)`, `x in l` see identity.
  identity  `Message` defines no `__eq__` / `__ne__` / `__hash__` (CHECKED on the class AST, generation fails otherwise),
            so `msg in lst`, `lst.remove(msg)`, `lst.index(msg)` compare OBJECT IDENTITY.  A function that uses one of
            them is translated in IDENTITY MODE: a message object is `Obj = Nat × Msg` (allocation id × value), the
            function takes the list of input objects, `Message(...)` allocates `(nextId_, {…})` and increments the
            counter `nextId_` (initially above every input id, `freshBase`), `x in l` ↦ `pyIn` and `l.remove(x)` ↦
            `pyRemove` compare ids only.  `tagInput r` gives the i-th message the id i: the list of pairwise distinct
            objects; a list in which one object occurs twice is `[(0, m), (0, m)]`.  Functions without identity tests
            are translated on plain values (`Msg`).  No translated function stores into a field of a message.
  aliasing  value semantics are only sound if no mutable object (list, dict, sequence object) is changed through
            one name and then read through another.  A flow check over the Python AST enforces a borrow discipline:
              - `v = d.get(k, dflt)` / `v = d[k]` (v a list) BORROWS the entry: `v.append(..)` / `v.pop(..)` makes the
                borrow DIRTY; it must be stored back (`d[k] = v`, the same path, no key variable reassigned) before
                the dict is read again and before any `continue` / `break` / `return` / end of a loop body;
              - `d[k] = v`, `l.append(v)`, `w = v` (v mutable) make aliases: after one alias is changed the others are
                STALE (any use is refused) until they are rebound; an object stored with `append` is read-only;
              - a list or dict that is being iterated is not changed; parameters other than `self` are not changed.
            So `current_sequence = next_sequence` in `split` is accepted only because `next_sequence` is rebound
            before it is used again on every path.
  while     fuel rule P (new): if the loop body has, at its top level, a statement `v = X.pop(..)` on a list local X,
            the fuel is `len(X) + 1` measured at loop entry (every iteration that does not leave the loop consumes one
            element; the equality theorem proves that the fuel suffices, i.e. `PyErr.fuel` is never raised).
            Otherwise rule D of tools/py2lean.py (distance between the two sides of the comparison + 1).
            The loop is `for _ in List.replicate fuel ()` with the loop test first; a flag records that the loop was
            left by its test or by `break`; `throw PyErr.fuel` if it was not and the test still holds.
  calls     a method of a sequence object that tools/py2lean.py translates (`add_message`) is translated by it and
            emitted into this file; nothing is linked.
"""
import ast
import os
import sys

sys.path.insert(0, os.path.dirname(os.path.abspath(__file__)))
import py2lean                                                   # noqa: E402
from py2lean import Untranslatable, FIELD, camel                # noqa: E402

SRC = "scoda/sequences/relative_sequence.py"
SPECS = [(SRC, "RelativeSequence", "normalise_relative"), (SRC, "RelativeSequence", "split")]
SEQ_CLASS = "RelativeSequence"
LIST_ATTR = "_messages"

# ----------------------------------------------------------------------------------------------- types

INT, NINT, OINT, BOOL, MTYPE, MSG, NONE, SEQ, UNIT = "Int", "NInt", "OInt", "Bool", "MType", "Msg", "None", "Seq", "Unit"


class TVar:
    n = 0

    def __init__(self):
        TVar.n += 1
        self.id = TVar.n
        self.ref = None


def prune(t):
    while isinstance(t, TVar) and t.ref is not None:
        t = t.ref
    if isinstance(t, tuple):
        return (t[0],) + tuple(prune(x) for x in t[1:])
    return t


def tlist(e):
    return ("list", e)


def tdict(k, v):
    return ("dict", k, v)


def ttuple(*es):
    return ("tuple",) + tuple(es)


def is_kind(t, kind):
    t = prune(t)
    return isinstance(t, tuple) and t[0] == kind


def show(t):
    t = prune(t)
    if isinstance(t, TVar):
        return f"?{t.id}"
    if isinstance(t, tuple):
        return f"{t[0]}[{', '.join(show(x) for x in t[1:])}]"
    return t


def unify(a, b, what):
    a, b = prune(a), prune(b)
    if isinstance(a, TVar):
        if a is not b:
            a.ref = b
        return
    if isinstance(b, TVar):
        b.ref = a
        return
    if isinstance(a, tuple) and isinstance(b, tuple) and a[0] == b[0] and len(a) == len(b):
        for x, y in zip(a[1:], b[1:]):
            unify(x, y, what)
        return
    if isinstance(a, str) and isinstance(b, str) and (a == b or {a, b} <= {INT, NINT}):
        return
    raise Untranslatable(f"{what}: type {show(a)} is not {show(b)}")


def stored(t):
    """type of a value once it sits in a container / is a dict key: ints lose the nullable distinction"""
    t = prune(t)
    return INT if t == NINT else t


def is_mutable(t):
    t = prune(t)
    return t == SEQ or (isinstance(t, tuple) and t[0] in ("list", "dict"))


# ----------------------------------------------------------------------------------------------- checks on Message

def check_message_identity():
    """`x in lst` / `lst.remove(x)` on messages compare identity iff neither `Message` (a class without bases) nor any class
    derived from it in message.py (`ReadOnlyMessage`) defines __eq__ / __ne__ / __hash__"""
    tree = py2lean.module_ast("scoda/elements/message.py")
    classes = [c for c in tree.body if isinstance(c, ast.ClassDef)]
    base = [c for c in classes if c.name == "Message"]
    if len(base) != 1:
        raise Untranslatable("class Message not found")
    if base[0].bases or base[0].keywords or base[0].decorator_list:
        raise Untranslatable("Message has base classes / a metaclass / decorators: identity semantics of == not established")
    family = {"Message"}
    for c in classes:                      # classes are defined after their bases
        if any(isinstance(b, ast.Name) and b.id in family for b in c.bases):
            family.add(c.name)
            if c.keywords or c.decorator_list:
                raise Untranslatable(f"{c.name}: metaclass / decorators")
    for c in classes:
        if c.name not in family:
            continue
        for s in c.body:
            names = []
            if isinstance(s, (ast.FunctionDef, ast.AsyncFunctionDef)):
                names = [s.name]
            elif isinstance(s, ast.Assign):
                names = [t.id for t in s.targets if isinstance(t, ast.Name)]
            elif isinstance(s, ast.AnnAssign) and isinstance(s.target, ast.Name):
                names = [s.target.id]
            for n in names:
                if n in ("__eq__", "__ne__", "__hash__"):
                    raise Untranslatable(f"{c.name} defines {n}: `in` / `remove` on messages no longer compare object identity")


def check_seq_ctor():
    """`RelativeSequence()` is an object whose only modelled state is an empty `_messages` list"""
    init = py2lean.find_function(SRC, SEQ_CLASS, "__init__")
    body = [" ".join(ast.unparse(s).split()) for s in init.body
            if not (isinstance(s, ast.Expr) and isinstance(s.value, ast.Constant))]
    if body != ["super().__init__(messages=messages)"]:
        raise Untranslatable(f"RelativeSequence.__init__ changed: {body}")
    a = py2lean.find_function("scoda/sequences/abstract_sequence.py", "AbstractSequence", "__init__")
    body = [" ".join(ast.unparse(s).split()) for s in a.body
            if not (isinstance(s, ast.Expr) and isinstance(s.value, ast.Constant))]
    if body != ["super().__init__()", "self._messages = []", "if messages is not None: self._messages.extend(messages)"]:
        raise Untranslatable(f"AbstractSequence.__init__ changed: {body}")


# ----------------------------------------------------------------------------------------------- code tree

class Block:
    def __init__(self):
        self.items = []      # str | ("if", cond, Block, Block|None) | ("for", pat, expr, Block)


MUT_LIST = {"append", "extend", "pop", "remove", "insert", "clear", "sort", "reverse"}
MUT_DICT = {"setdefault", "pop", "clear", "update", "popitem"}


class Fn:
    def __init__(self, gen, rel, cls, name):
        self.gen, self.rel, self.cls, self.name = gen, rel, cls, name
        self.fn = py2lean.find_function(rel, cls, name)
        self.qual = f"{cls}.{name}"
        self.lean = camel(name)
        self.vars = {}            # python local -> type
        self.params = []          # (python name, type)
        self.loop_vars = {}       # currently bound loop variables -> type
        self.loop_names = set()   # every name ever used as a loop variable
        self.tmp = 0
        self.pre = []             # statements to emit before the current one (allocations, pops)
        self.ident = self.uses_identity()
        self.mutates_self = False
        self.ret_ty = None
        self.loop_kind = []       # "for" | "while"
        self.seen = set()         # names that occurred in an expression so far
        self.root = None          # the function's top-level block
        self.inplace = set()      # locals declared at their first (top-level, dominating) assignment
        self.exit_flag = []       # exit flag of the enclosing while loops

    # ---- identity mode
    def uses_identity(self):
        for n in ast.walk(self.fn):
            if isinstance(n, ast.Compare) and any(isinstance(o, (ast.In, ast.NotIn)) for o in n.ops):
                return True
            if isinstance(n, ast.Call) and isinstance(n.func, ast.Attribute) and n.func.attr in ("remove", "index", "count"):
                return True
        return False

    def msg_lean(self):
        return "Obj" if self.ident else "Msg"

    def val(self, t):
        """the `Msg` value of a message expression"""
        return f"{t}.2" if self.ident else t

    # ---- names
    def lv(self, name):
        if name == "self":
            return "self_"
        return camel(name)

    def fresh(self, base):
        self.tmp += 1
        return f"{base}{self.tmp}_"

    def lean_type(self, t):
        t = prune(t)
        if isinstance(t, TVar):
            raise Untranslatable(f"{self.qual}: a type could not be inferred")
        if t in (INT, NINT):
            return "Int"
        if t == OINT:
            return "Option Int"
        if t == BOOL:
            return "Bool"
        if t == MTYPE:
            return "MType"
        if t == MSG:
            return self.msg_lean()
        if t == SEQ:
            return f"List {self.msg_lean()}"
        if t == UNIT:
            return "Unit"
        if t[0] == "list":
            return f"List ({self.lean_type(t[1])})"
        if t[0] == "dict":
            return f"Assoc ({self.lean_type(t[1])}) ({self.lean_type(t[2])})"
        if t[0] == "tuple":
            return "(" + " × ".join(self.lean_type(x) for x in t[1:]) + ")"
        raise Untranslatable(f"{self.qual}: type {show(t)}")

    def lean_default(self, t):
        t = prune(t)
        if t == INT:
            return "0"
        if t == NINT:
            return "pyNone"
        if t == OINT:
            return "none"
        if t == BOOL:
            return "false"
        if t == SEQ or (isinstance(t, tuple) and t[0] in ("list", "dict")):
            return "[]"
        return "default"

    # ---- coercions
    def coerce(self, text, ty, want, what="value"):
        ty, want = prune(ty), prune(want)
        if isinstance(want, TVar) or isinstance(ty, TVar):
            unify(ty if ty != NINT else INT, want, f"{self.qual}: {what}")
            return text
        if want == OINT:
            if ty == INT:
                return f"(some {text})"
            if ty == NINT:
                return f"(pyOpt {text})"
            if ty == NONE:
                return "none"
        if want == NINT:
            if ty == INT:
                return text
            if ty == OINT:
                return f"(optPy {text})"
            if ty == NONE:
                return "pyNone"
        if want == INT and ty == NINT:
            return text           # a nullable field used as a number / key (None is pyNone)
        if want == INT and ty == NONE:
            return "pyNone"
        unify(ty, want, f"{self.qual}: {what}")
        return text

    def chan_init(self, text, ty):
        ty = prune(ty)
        if ty == INT:
            return text
        if ty == NINT:
            return f"(chanOfInt {text})"
        if ty == OINT:
            return f"(chanOfOpt {text})"
        if ty == NONE:
            return "0"
        raise Untranslatable(f"{self.qual}: channel argument of type {show(ty)}")

    # ---- expressions
    def var_type(self, name):
        if name in self.loop_vars:
            return self.loop_vars[name]
        if name in self.vars:
            return self.vars[name]
        return None

    def list_lvalue(self, n):
        """(python variable, its type) for an expression that denotes a changeable list: a list local, `<seq>._messages`"""
        if isinstance(n, ast.Name):
            t = self.var_type(n.id)
            if t is not None and is_kind(t, "list") and n.id not in self.loop_vars:
                return n.id
        if isinstance(n, ast.Attribute) and n.attr == LIST_ATTR and isinstance(n.value, ast.Name):
            t = self.var_type(n.value.id)
            if t is not None and prune(t) == SEQ:
                return n.value.id
        return None

    def elem_of(self, name):
        t = prune(self.var_type(name))
        return MSG if t == SEQ else t[1]

    def expr(self, n, mono=True):
        if isinstance(n, ast.Constant):
            if n.value is None:
                return "pyNone", NONE
            if isinstance(n.value, bool):
                return ("true" if n.value else "false"), BOOL
            if isinstance(n.value, int):
                return (f"({n.value})" if n.value < 0 else str(n.value)), INT
            raise Untranslatable(f"{self.qual}: constant {n.value!r}")
        if isinstance(n, ast.Name):
            t = self.var_type(n.id)
            if t is None:
                raise Untranslatable(f"{self.qual}: name {n.id!r}")
            self.seen.add(n.id)
            return self.lv(n.id), t
        if isinstance(n, ast.Attribute):
            if isinstance(n.value, ast.Name) and n.value.id == "MessageType":
                return "MType." + camel(n.attr), MTYPE
            if n.attr == LIST_ATTR:
                t, ty = self.expr(n.value, mono)
                if prune(ty) != SEQ:
                    raise Untranslatable(f"{self.qual}: .{n.attr} of a {show(ty)}")
                return t, tlist(MSG)
            if n.attr in FIELD:
                t, ty = self.expr(n.value, mono)
                if prune(ty) != MSG:
                    raise Untranslatable(f"{self.qual}: .{n.attr} of a {show(ty)}")
                f, fty = FIELD[n.attr]
                return f"{self.val(t)}.{f}", fty
            raise Untranslatable(f"{self.qual}: attribute .{n.attr}")
        if isinstance(n, ast.UnaryOp) and isinstance(n.op, ast.USub):
            t, ty = self.expr(n.operand, mono)
            return f"(-{self.coerce(t, ty, INT)})", INT
        if isinstance(n, ast.UnaryOp) and isinstance(n.op, ast.Not):
            return f"(!{self.cond(n.operand, mono)})", BOOL
        if isinstance(n, ast.BinOp):
            a, ta = self.expr(n.left, mono)
            b, tb = self.expr(n.right, mono)
            a, b = self.coerce(a, ta, INT, "operand"), self.coerce(b, tb, INT, "operand")
            sym = {ast.Add: "+", ast.Sub: "-", ast.Mult: "*"}.get(type(n.op))
            if sym is None:
                raise Untranslatable(f"{self.qual}: operator {type(n.op).__name__}")
            return f"({a} {sym} {b})", INT
        if isinstance(n, (ast.Compare, ast.BoolOp)):
            return self.cond(n, mono), BOOL
        if isinstance(n, ast.Tuple):
            parts = [self.expr(e, mono) for e in n.elts]
            if len(parts) < 2 or any(prune(t) not in (INT, NINT) for _, t in parts):
                raise Untranslatable(f"{self.qual}: tuple {ast.unparse(n)} (only tuples of ints)")
            return "(" + ", ".join(t for t, _ in parts) + ")", ttuple(*[INT for _ in parts])
        if isinstance(n, ast.List) and not n.elts:
            return "[]", tlist(TVar())
        if isinstance(n, ast.ListComp):
            g = n.generators
            if len(g) == 1 and not g[0].ifs and isinstance(g[0].target, ast.Name) and isinstance(n.elt, ast.Name) \
                    and n.elt.id == g[0].target.id and not g[0].is_async:
                t, ty = self.expr(g[0].iter, mono)
                if is_kind(ty, "list"):
                    return t, ty        # a fresh list with the same elements
            raise Untranslatable(f"{self.qual}: list comprehension {ast.unparse(n)}")
        if isinstance(n, ast.Subscript):
            if isinstance(n.slice, ast.Slice):
                raise Untranslatable(f"{self.qual}: slice {ast.unparse(n)}")
            if not mono:
                raise Untranslatable(f"{self.qual}: subscript inside a short-circuited operand")
            c, tc = self.expr(n.value, mono)
            k, tk = self.expr(n.slice, mono)
            tc = prune(tc)
            if is_kind(tc, "dict"):
                k = self.coerce(k, tk, tc[1], "key")
                return f"(← pyDictGet {c} {k})", tc[2]
            if is_kind(tc, "list"):
                return f"(← pyGet {c} {self.coerce(k, tk, INT, 'index')})", tc[1]
            raise Untranslatable(f"{self.qual}: subscript of a {show(tc)}")
        if isinstance(n, ast.Call):
            return self.call_expr(n, mono)
        raise Untranslatable(f"{self.qual}: expression {type(n).__name__}: {ast.unparse(n)[:60]}")

    def call_expr(self, n, mono):
        f = n.func
        if isinstance(f, ast.Name):
            if f.id == "len" and len(n.args) == 1 and not n.keywords:
                t, ty = self.expr(n.args[0], mono)
                if not (is_kind(ty, "list") or is_kind(ty, "dict")):
                    raise Untranslatable(f"{self.qual}: len() of a {show(ty)}")
                return f"({t}.length : Int)", INT
            if f.id == "dict" and not n.args and not n.keywords:
                return "[]", tdict(TVar(), TVar())
            if f.id == SEQ_CLASS and not n.args and not n.keywords:
                return "[]", SEQ
            if f.id == "Message":
                return self.message_ctor(n, mono), MSG
        if isinstance(f, ast.Attribute):
            if isinstance(f.value, ast.Name) and f.value.id == "copy" and f.attr == "copy" and len(n.args) == 1 \
                    and not n.keywords and self.var_type("copy") is None:
                t, ty = self.expr(n.args[0], mono)
                if not is_kind(ty, "list"):
                    raise Untranslatable(f"{self.qual}: copy.copy of a {show(ty)}")
                return t, ty            # shallow copy of a list: a fresh list with the same elements
            if f.attr == "get" and len(n.args) == 2 and not n.keywords:
                d, td = self.expr(f.value, mono)
                td = prune(td)
                if is_kind(td, "dict"):
                    k, tk = self.expr(n.args[0], mono)
                    v, tv = self.expr(n.args[1], False)
                    k = self.coerce(k, tk, td[1], "key")
                    v = self.coerce(v, stored(tv), td[2], "default of get")
                    return f"(pyGetD {d} {k} {v})", td[2]
            if f.attr in ("keys", "items", "values") and not n.args and not n.keywords:
                d, td = self.expr(f.value, mono)
                td = prune(td)
                if is_kind(td, "dict"):
                    if f.attr == "keys":
                        return f"(pyKeys {d})", tlist(td[1])
                    if f.attr == "values":
                        return f"(pyValues {d})", tlist(td[2])
                    return d, tlist(ttuple(td[1], td[2]))
        raise Untranslatable(f"{self.qual}: call {ast.unparse(n)[:70]}")

    def message_ctor(self, n, mono):
        if n.args:
            raise Untranslatable(f"{self.qual}: positional arguments of Message(…)")
        fields = {}
        for kw in n.keywords:
            if kw.arg not in FIELD:
                raise Untranslatable(f"{self.qual}: Message({kw.arg}=…)")
            t, ty = self.expr(kw.value, mono)
            f, fty = FIELD[kw.arg]
            if kw.arg == "channel":
                fields[f] = self.chan_init(t, ty)
            elif fty == "MType":
                if prune(ty) != MTYPE:
                    raise Untranslatable(f"{self.qual}: message_type of type {show(ty)}")
                fields[f] = t
            else:
                fields[f] = self.coerce(t, ty, NINT, f"field {kw.arg}")
        if "ty" not in fields:
            raise Untranslatable(f"{self.qual}: Message(…) without message_type")
        order = [FIELD[k][0] for k in FIELD]
        lit = "{ " + ", ".join(f"{f} := {fields[f]}" for f in order if f in fields) + " : Msg }"
        if not self.ident:
            return lit
        if not mono:
            raise Untranslatable(f"{self.qual}: Message(…) inside a short-circuited operand")
        o = self.fresh("obj")
        self.pre.append(f"let {o} : Obj := (nextId_, {lit})")
        self.pre.append("nextId_ := nextId_ + 1")
        return o

    def cond(self, n, mono=True):
        if isinstance(n, ast.BoolOp):
            sym = " && " if isinstance(n.op, ast.And) else " || "
            parts = [self.cond(n.values[0], mono)] + [self.cond(v, False) for v in n.values[1:]]
            return "(" + sym.join(parts) + ")"
        if isinstance(n, ast.UnaryOp) and isinstance(n.op, ast.Not):
            return f"(!{self.cond(n.operand, mono)})"
        if isinstance(n, ast.Compare):
            if len(n.ops) != 1:
                raise Untranslatable(f"{self.qual}: chained comparison")
            op, l, r = n.ops[0], n.left, n.comparators[0]
            if isinstance(op, (ast.Is, ast.IsNot)):
                neg = isinstance(op, ast.IsNot)
                if isinstance(r, ast.Constant) and r.value is None:
                    t, ty = self.expr(l, mono)
                    ty = prune(ty)
                    if ty == OINT:
                        return f"{t}.isSome" if neg else f"{t}.isNone"
                    if ty == NINT:
                        return f"({t} != pyNone)" if neg else f"({t} == pyNone)"
                    raise Untranslatable(f"{self.qual}: `is None` on a {show(ty)}")
                a, ta = self.expr(l, mono)
                b, tb = self.expr(r, mono)
                if prune(ta) == prune(tb) == MTYPE:
                    return f"({a} != {b})" if neg else f"({a} == {b})"
                raise Untranslatable(f"{self.qual}: `is` on {show(ta)}/{show(tb)}")
            a, ta = self.expr(l, mono)
            b, tb = self.expr(r, mono)
            ta, tb = prune(ta), prune(tb)
            if isinstance(op, (ast.In, ast.NotIn)):
                neg = "!" if isinstance(op, ast.NotIn) else ""
                if is_kind(tb, "list") and prune(tb[1]) == MSG and ta == MSG:
                    if not self.ident:
                        raise AssertionError("identity mode")
                    return f"({neg}pyIn {a} {b})"       # object identity (Message has no __eq__)
                if is_kind(tb, "dict"):
                    return f"({neg}Assoc.contains {b} {self.coerce(a, ta, tb[1], 'key')})"
                if is_kind(tb, "list") and prune(tb[1]) == INT and ta in (INT, NINT):
                    return f"({neg}{b}.contains {a})"
                raise Untranslatable(f"{self.qual}: `in` on {show(ta)}/{show(tb)}")
            if isinstance(op, (ast.Eq, ast.NotEq)):
                sym = "==" if isinstance(op, ast.Eq) else "!="
                if ta == tb == MTYPE or ta == tb == BOOL:
                    return f"({a} {sym} {b})"
                ints = (INT, NINT, OINT, NONE)
                if ta not in ints or tb not in ints:
                    raise Untranslatable(f"{self.qual}: == on {show(ta)}/{show(tb)}")
                if NONE in (ta, tb) and OINT in (ta, tb):
                    raise Untranslatable(f"{self.qual}: == None (use `is None`)")
                if ta == OINT or tb == OINT:
                    return f"({self.coerce(a, ta, OINT)} {sym} {self.coerce(b, tb, OINT)})"
                return f"({self.coerce(a, ta, NINT)} {sym} {self.coerce(b, tb, NINT)})"
            sym = {ast.Lt: "<", ast.LtE: "≤", ast.Gt: ">", ast.GtE: "≥"}.get(type(op))
            if sym is None:
                raise Untranslatable(f"{self.qual}: comparison {type(op).__name__}")
            return f"(decide ({self.coerce(a, ta, INT, 'comparison')} {sym} {self.coerce(b, tb, INT, 'comparison')}))"
        t, ty = self.expr(n, mono)
        if prune(ty) != BOOL:
            raise Untranslatable(f"{self.qual}: truth value of a {show(ty)}")
        return t

    # ---- statements
    def emit(self, blk, item):
        blk.items.extend(self.pre)
        self.pre = []
        blk.items.append(item)

    def assign_name(self, blk, name, text, ty):
        if name == "self" or name in [p for p, _ in self.params]:
            raise Untranslatable(f"{self.qual}: assignment to the parameter {name}")
        if name in self.loop_vars or name in self.loop_names:
            raise Untranslatable(f"{self.qual}: assignment to the loop variable {name}")
        ty = prune(ty)
        first = name not in self.vars
        if first:
            self.vars[name] = OINT if ty == NONE else ty
        text = self.coerce(text, ty, self.vars[name], f"assignment to {name}")
        if first and blk is self.root and name not in self.seen:
            # the first occurrence of the name is this top-level assignment: it dominates every use, declare here
            self.inplace.add(name)
            self.emit(blk, ("decl", name, text))
        else:
            self.emit(blk, f"{self.lv(name)} := {text}")

    def set_list(self, blk, name, text):
        """the list behind `name` (a list local or the `_messages` of a sequence object) gets a new value"""
        if name == "self":
            self.mutates_self = True
        self.emit(blk, f"{self.lv(name)} := {text}")

    def stmts(self, body, blk):
        for s in body:
            self.stmt(s, blk)

    def branch(self, body):
        b = Block()
        self.stmts(body, b)
        if not b.items:
            b.items.append("pure ()")
        return b

    def stmt(self, s, blk):
        if isinstance(s, ast.Expr) and isinstance(s.value, ast.Constant) and isinstance(s.value.value, str):
            return
        if isinstance(s, ast.Pass):
            return
        if isinstance(s, ast.Assign):
            if len(s.targets) != 1:
                raise Untranslatable(f"{self.qual}: multiple assignment targets")
            self.assign(s.targets[0], s.value, blk)
            return
        if isinstance(s, ast.AugAssign):
            sym = {ast.Add: "+", ast.Sub: "-", ast.Mult: "*"}.get(type(s.op))
            if sym is None or not isinstance(s.target, ast.Name):
                raise Untranslatable(f"{self.qual}: augmented assignment {ast.unparse(s)[:60]}")
            name = s.target.id
            if name not in self.vars or prune(self.vars[name]) not in (INT, NINT):
                raise Untranslatable(f"{self.qual}: {name} {sym}= … on a non-int")
            text, ty = self.expr(s.value)
            self.assign_name(blk, name, f"({self.lv(name)} {sym} {self.coerce(text, ty, INT, 'operand')})", INT)
            return
        if isinstance(s, ast.If):
            c = self.cond(s.test)
            blk.items.extend(self.pre)
            self.pre = []
            then = self.branch(s.body)
            els = self.branch(s.orelse) if s.orelse else None
            blk.items.append(("if", c, then, els))
            return
        if isinstance(s, ast.For):
            self.for_stmt(s, blk)
            return
        if isinstance(s, ast.While):
            self.while_stmt(s, blk)
            return
        if isinstance(s, ast.Break):
            if not self.loop_kind:
                raise Untranslatable(f"{self.qual}: break outside a loop")
            if self.loop_kind[-1] == "while":
                blk.items.append(f"{self.exit_flag[-1]} := true")
            blk.items.append("break")
            return
        if isinstance(s, ast.Continue):
            if not self.loop_kind or self.loop_kind[-1] == "while":
                raise Untranslatable(f"{self.qual}: continue in a while loop")
            blk.items.append("continue")
            return
        if isinstance(s, ast.Return):
            if s.value is None:
                ty, text = UNIT, None
            else:
                text, ty = self.expr(s.value)
            if self.ret_ty is not None:
                unify(ty, self.ret_ty, f"{self.qual}: return")
            else:
                self.ret_ty = ty
            self.emit(blk, ("return", text))
            return
        if isinstance(s, ast.Expr) and isinstance(s.value, ast.Call):
            self.call_stmt(s.value, blk)
            return
        raise Untranslatable(f"{self.qual}: statement {type(s).__name__}: {ast.unparse(s)[:60]}")

    def pop_parts(self, call):
        """`X.pop(i)` on a changeable list, i in {0, -1, missing}: (python variable, helper)"""
        f = call.func
        if not (isinstance(f, ast.Attribute) and f.attr == "pop" and not call.keywords and len(call.args) <= 1):
            return None
        name = self.list_lvalue(f.value)
        if name is None:
            return None
        if not call.args:
            return name, "pyPopLast"
        a = call.args[0]
        if isinstance(a, ast.Constant) and a.value == 0:
            return name, "pyPopFirst"
        if isinstance(a, ast.UnaryOp) and isinstance(a.op, ast.USub) and isinstance(a.operand, ast.Constant) and a.operand.value == 1:
            return name, "pyPopLast"
        raise Untranslatable(f"{self.qual}: {ast.unparse(call)} (only pop(0), pop(-1), pop())")

    def assign(self, t, value, blk):
        if isinstance(t, ast.Name):
            pp = self.pop_parts(value) if isinstance(value, ast.Call) else None
            if pp is not None:
                name, helper = pp
                x, rest = self.fresh("popped"), self.fresh("rest")
                blk.items.append(f"let ({x}, {rest}) ← {helper} {self.lv(name)}")
                self.set_list(blk, name, rest)
                self.assign_name(blk, t.id, x, self.elem_of(name))
                return
            text, ty = self.expr(value)
            self.assign_name(blk, t.id, text, ty)
            return
        if isinstance(t, ast.Attribute):
            name = self.list_lvalue(t)
            if name is None or isinstance(t.value, ast.Name) and t.value.id != "self" and False:
                raise Untranslatable(f"{self.qual}: store to {ast.unparse(t)}")
            text, ty = self.expr(value)
            unify(ty, tlist(MSG), f"{self.qual}: {ast.unparse(t)} = …")
            self.set_list(blk, name, text)
            return
        if isinstance(t, ast.Subscript):
            if isinstance(t.slice, ast.Slice):
                sl = t.slice
                name = self.list_lvalue(t.value)
                zero = lambda e: isinstance(e, ast.Constant) and e.value == 0 and not isinstance(e.value, bool)   # noqa: E731
                if name is None or sl.step is not None or not zero(sl.lower) or not zero(sl.upper):
                    raise Untranslatable(f"{self.qual}: slice store {ast.unparse(t)} (only `l[0:0] = e`)")
                text, ty = self.expr(value)
                unify(ty, tlist(self.elem_of(name)), f"{self.qual}: {ast.unparse(t)} = …")
                self.set_list(blk, name, f"{text} ++ {self.lv(name)}")
                return
            # d[k] = v   /   d[a][b] = v      (d a dict local)
            path = []
            base = t
            while isinstance(base, ast.Subscript):
                if isinstance(base.slice, ast.Slice):
                    raise Untranslatable(f"{self.qual}: store to {ast.unparse(t)}")
                path.append(base.slice)
                base = base.value
            path.reverse()
            if not (isinstance(base, ast.Name) and base.id in self.vars and is_kind(self.vars[base.id], "dict")):
                raise Untranslatable(f"{self.qual}: store to {ast.unparse(t)} (only entries of a dict local)")
            v, tv = self.expr(value)
            text = self.dict_store(self.lv(base.id), self.vars[base.id], path, v, tv, t)
            self.emit(blk, f"{self.lv(base.id)} := {text}")
            return
        raise Untranslatable(f"{self.qual}: assignment target {ast.unparse(t)}")

    def dict_store(self, d, td, path, v, tv, where):
        td = prune(td)
        if not is_kind(td, "dict"):
            raise Untranslatable(f"{self.qual}: store to {ast.unparse(where)}: not a dict of dicts")
        k, tk = self.expr(path[0])
        k = self.coerce(k, tk, td[1], "key")
        if len(path) == 1:
            v = self.coerce(v, stored(tv), td[2], f"value stored to {ast.unparse(where)}")
            return f"Assoc.set {d} {k} {v}"
        inner = self.dict_store(f"(← pyDictGet {d} {k})", td[2], path[1:], v, tv, where)
        return f"Assoc.set {d} {k} ({inner})"

    def call_stmt(self, n, blk):
        f = n.func
        if not isinstance(f, ast.Attribute):
            raise Untranslatable(f"{self.qual}: call statement {ast.unparse(n)[:70]}")
        # methods of a sequence object that tools/py2lean.py translates
        if isinstance(f.value, ast.Name) and self.var_type(f.value.id) is not None and prune(self.var_type(f.value.id)) == SEQ:
            if self.ident:
                raise Untranslatable(f"{self.qual}: sequence method call in identity mode")
            sig = self.gen.callee(SEQ_CLASS, f.attr)
            if sig is None:
                raise Untranslatable(f"{self.qual}: call of {SEQ_CLASS}.{f.attr}, which tools/py2lean.py does not translate")
            if not (sig.mutates and sig.ret == "Unit"):
                raise Untranslatable(f"{self.qual}: {sig.qual} as a statement")
            given = dict(zip([p for p, _, _ in sig.params], n.args))
            for kw in n.keywords:
                given[kw.arg] = kw.value
            if len(n.args) > len(sig.params) or set(given) - {p for p, _, _ in sig.params}:
                raise Untranslatable(f"{self.qual}: arguments of {sig.qual}")
            args = []
            for p, pty, pdef in sig.params:
                if p in given:
                    t, ty = self.expr(given[p])
                    want = {"Msg": MSG, "Int": INT, "OInt": OINT}.get(pty)
                    if want is None:
                        raise Untranslatable(f"{self.qual}: parameter type {pty} of {sig.qual}")
                    args.append(self.coerce(t, ty, want, f"argument {p}"))
                elif pdef == "None" and pty == "OInt":
                    args.append("none")
                else:
                    raise Untranslatable(f"{self.qual}: missing argument {p} of {sig.qual}")
            r = f.value.id
            if r == "self":
                self.mutates_self = True
            self.emit(blk, f"{self.lv(r)} ← {sig.lean} {self.lv(r)} {' '.join(args)}")
            return
        # list mutators
        name = self.list_lvalue(f.value)
        if name is not None and not n.keywords:
            v = self.lv(name)
            ety = self.elem_of(name)
            if f.attr == "append" and len(n.args) == 1:
                t, ty = self.expr(n.args[0])
                t = self.coerce(t, stored(ty), ety, "appended value")
                self.set_list(blk, name, f"{v} ++ [{t}]")
                return
            if f.attr == "extend" and len(n.args) == 1:
                t, ty = self.expr(n.args[0])
                unify(ty, tlist(ety), f"{self.qual}: extend")
                self.set_list(blk, name, f"{v} ++ {t}")
                return
            if f.attr == "remove" and len(n.args) == 1:
                t, ty = self.expr(n.args[0])
                if prune(ety) == MSG and prune(ty) == MSG:
                    self.emit(blk, f"{v} ← pyRemove {v} {t}")      # first element that IS the object (ValueError)
                    if name == "self":
                        self.mutates_self = True
                    return
                raise Untranslatable(f"{self.qual}: remove on a list of {show(ety)}")
            if f.attr == "pop":
                pp = self.pop_parts(n)
                if pp is not None:
                    rest = self.fresh("rest")
                    blk.items.append(f"let (_, {rest}) ← {pp[1]} {v}")
                    self.set_list(blk, name, rest)
                    return
        # dict mutators on a dict local
        if isinstance(f.value, ast.Name) and f.value.id in self.vars and is_kind(self.vars[f.value.id], "dict") and not n.keywords:
            d = self.lv(f.value.id)
            td = prune(self.vars[f.value.id])
            if f.attr == "setdefault" and len(n.args) == 2:
                k, tk = self.expr(n.args[0])
                dv, tdv = self.expr(n.args[1], False)
                k = self.coerce(k, tk, td[1], "key")
                dv = self.coerce(dv, stored(tdv), td[2], "default of setdefault")
                self.emit(blk, f"{d} := pySetDefault {d} {k} {dv}")
                return
            if f.attr == "pop" and len(n.args) == 2 and isinstance(n.args[1], ast.Constant) and n.args[1].value is None:
                k, tk = self.expr(n.args[0])
                k = self.coerce(k, tk, td[1], "key")
                self.emit(blk, f"{d} := Assoc.erase {d} {k}")
                return
        raise Untranslatable(f"{self.qual}: call statement {ast.unparse(n)[:70]}")

    def for_stmt(self, s, blk):
        if s.orelse:
            raise Untranslatable(f"{self.qual}: for … else")
        it, ity = self.expr(s.iter)
        blk.items.extend(self.pre)
        self.pre = []
        ity = prune(ity)
        if not is_kind(ity, "list"):
            raise Untranslatable(f"{self.qual}: iteration over a {show(ity)}")
        ety = prune(ity[1])
        if isinstance(s.target, ast.Name):
            names, tys, pat = [s.target.id], [ety], self.lv(s.target.id)
        elif isinstance(s.target, ast.Tuple) and all(isinstance(e, ast.Name) for e in s.target.elts) \
                and is_kind(ety, "tuple") and len(ety) - 1 == len(s.target.elts):
            names = [e.id for e in s.target.elts]
            tys = list(ety[1:])
            pat = "(" + ", ".join(self.lv(x) for x in names) + ")"
        else:
            raise Untranslatable(f"{self.qual}: loop target {ast.unparse(s.target)} over {show(ity)}")
        for x in names:
            if x in self.vars or x in self.loop_vars or x == "self":
                raise Untranslatable(f"{self.qual}: loop variable {x} shadows a local")
        for x, t in zip(names, tys):
            self.loop_vars[x] = t
            self.loop_names.add(x)
        self.loop_kind.append("for")
        body = self.branch(s.body)
        self.loop_kind.pop()
        for x in names:
            del self.loop_vars[x]
        blk.items.append(("for", pat, it, body))

    def while_stmt(self, s, blk):
        if s.orelse:
            raise Untranslatable(f"{self.qual}: while … else")
        t = s.test
        if not (isinstance(t, ast.Compare) and len(t.ops) == 1 and isinstance(t.ops[0], (ast.Lt, ast.LtE, ast.Gt, ast.GtE))):
            raise Untranslatable(f"{self.qual}: while test {ast.unparse(t)} (only a single order comparison)")
        c = self.cond(t)
        if self.pre:
            raise Untranslatable(f"{self.qual}: allocation in a while test")
        # fuel rule P: a top-level `v = X.pop(..)` / `X.pop(..)` on a list local
        popped = None
        for b in s.body:
            call = b.value if isinstance(b, (ast.Assign, ast.Expr)) and isinstance(b.value, ast.Call) else None
            pp = self.pop_parts(call) if call is not None else None
            if pp is not None:
                popped = pp[0]
                break
        fuel, flag = self.fresh("fuel"), self.fresh("exited")
        if popped is not None:
            blk.items.append(f"-- while {ast.unparse(t)}:  fuel rule P: the body pops from `{popped}` at its top level; "
                             f"fuel = len({popped}) + 1 at loop entry")
            blk.items.append(f"let {fuel} : Nat := {self.lv(popped)}.length + 1")
        else:
            a, ta = self.expr(t.left)
            b, tb = self.expr(t.comparators[0])
            a, b = self.coerce(a, ta, INT, "comparison"), self.coerce(b, tb, INT, "comparison")
            dist = f"{b} - {a}" if isinstance(t.ops[0], (ast.Lt, ast.LtE)) else f"{a} - {b}"
            blk.items.append(f"-- while {ast.unparse(t)}:  fuel rule D: distance between the two sides at loop entry + 1")
            blk.items.append(f"let {fuel} : Nat := Int.toNat ({dist}) + 1")
        blk.items.append(f"let mut {flag} : Bool := false")
        body = Block()
        stop = Block()
        stop.items += [f"{flag} := true", "break"]
        body.items.append(("if", f"!{c}", stop, None))
        self.loop_kind.append("while")
        self.exit_flag.append(flag)
        self.stmts(s.body, body)
        self.exit_flag.pop()
        self.loop_kind.pop()
        blk.items.append(("for", "_", f"List.replicate {fuel} ()", body))
        thr = Block()
        thr.items.append("throw PyErr.fuel")
        blk.items.append(("if", f"(!{flag} && {c})", thr, None))

    # ---- rendering
    def render(self, blk, ind, out):
        for it in blk.items:
            if isinstance(it, str):
                out.append(ind + it)
            elif it[0] == "if":
                _, c, then, els = it
                out.append(f"{ind}if {c} then")
                self.render(then, ind + "  ", out)
                if els is not None:
                    out.append(f"{ind}else")
                    self.render(els, ind + "  ", out)
            elif it[0] == "for":
                _, v, e, body = it
                out.append(f"{ind}for {v} in {e} do")
                self.render(body, ind + "  ", out)
            elif it[0] == "return":
                out.append(ind + "return " + self.return_value(it[1]))
            elif it[0] == "decl":
                out.append(f"{ind}let mut {self.lv(it[1])} : {self.lean_type(self.vars[it[1]])} := {it[2]}")
            else:
                raise AssertionError(it)

    def return_value(self, text):
        if text is None:
            return "self_" if self.mutates_self else "()"
        return f"(self_, {text})" if self.mutates_self else text

    def translate(self):
        fn = self.fn
        if fn.args.vararg or fn.args.kwarg or fn.args.kwonlyargs or fn.args.posonlyargs or fn.args.defaults:
            raise Untranslatable(f"{self.qual}: parameter kinds / defaults")
        for a in fn.args.args:
            if a.arg == "self":
                ty = SEQ
            else:
                ann = ast.unparse(a.annotation) if a.annotation is not None else None
                ty = {"int": INT, "list[int]": tlist(INT)}.get(ann)
                if ty is None:
                    raise Untranslatable(f"{self.qual}: parameter annotation {ann!r}")
            self.params.append((a.arg, ty))
            self.vars[a.arg] = ty
        if not self.params or self.params[0][0] != "self":
            raise Untranslatable(f"{self.qual}: not a method")
        if self.ident:
            check_message_identity()
        root = Block()
        self.root = root
        self.stmts(fn.body, root)
        last = [x for x in fn.body if not (isinstance(x, ast.Expr) and isinstance(x.value, ast.Constant))][-1]
        if self.ret_ty is None:
            self.ret_ty = UNIT
        if not isinstance(last, ast.Return):
            if prune(self.ret_ty) != UNIT:
                raise Untranslatable(f"{self.qual}: may fall off the end although it returns a value")
            root.items.append(("return", None))
        Flow(self).run()
        ret = prune(self.ret_ty)
        if self.mutates_self and ret != UNIT:
            rty = f"List {self.msg_lean()} × {self.lean_type(ret)}"
        elif self.mutates_self:
            rty = f"List {self.msg_lean()}"
        else:
            rty = self.lean_type(ret)
        head = f"def {self.lean} " + " ".join(f"({self.lv(p)} : {self.lean_type(t)})" for p, t in self.params) \
               + f" : Except PyErr ({rty}) := do"
        mode = ("IDENTITY MODE: message objects are `Obj = Nat × Msg`, `in` / `remove` compare ids" if self.ident
                else "value mode: no identity test on messages in this function")
        out = [f"/-- `{self.qual}` ({self.rel}:{fn.lineno}-{fn.end_lineno}); {mode}"
               + ("; returns the new `self`" + (" and the return value" if ret != UNIT else "") if self.mutates_self else "") + " -/",
               head]
        if self.mutates_self:
            out.append("  let mut self_ := self_")
        if self.ident:
            objs = [self.lv(p) for p, t in self.params if prune(t) == SEQ]
            out.append(f"  let mut nextId_ : Nat := freshBase ({' ++ '.join(objs)})   -- allocation counter: above every input id")
        pnames = {p for p, _ in self.params}
        for name, t in self.vars.items():
            if name in pnames or name in self.inplace:
                continue
            out.append(f"  let mut {self.lv(name)} : {self.lean_type(t)} := {self.lean_default(t)}")
        self.render(root, "  ", out)
        return "\n".join(out) + "\n"


# ----------------------------------------------------------------------------------------------- flow check

class FState:
    """assigned: names definitely assigned.  groups: alias groups of mutable locals, each
    {vars, loc, dirty}; loc is None (owned), ("at", root, path text, names in the path) (an entry of a dict that can be
    stored back), or ("ro", root) (shared with a container element / several places: read-only).  stale: names whose object may have
    been changed through another name."""

    def __init__(self):
        self.assigned = set()
        self.groups = []
        self.stale = set()

    def copy(self):
        s = FState()
        s.assigned = set(self.assigned)
        s.groups = [dict(vars=set(g["vars"]), loc=g["loc"], dirty=g["dirty"]) for g in self.groups]
        s.stale = set(self.stale)
        return s

    def group_of(self, v):
        for g in self.groups:
            if v in g["vars"]:
                return g
        return None

    def canon(self):
        return (frozenset(self.assigned), frozenset(self.stale),
                frozenset((frozenset(g["vars"]), g["loc"], g["dirty"]) for g in self.groups if g["vars"]))


def merge_states(states):
    states = [s for s in states if s is not None]
    if not states:
        return None
    out = FState()
    out.assigned = set.intersection(*[s.assigned for s in states])
    out.stale = set.union(*[s.stale for s in states])
    parent = {}

    def find(x):
        parent.setdefault(x, x)
        while parent[x] != x:
            parent[x] = parent[parent[x]]
            x = parent[x]
        return x
    for s in states:
        for g in s.groups:
            vs = sorted(g["vars"])
            for v in vs[1:]:
                parent[find(v)] = find(vs[0])
            if vs:
                find(vs[0])
    merged = {}
    for s in states:
        for g in s.groups:
            if not g["vars"]:
                continue
            r = find(sorted(g["vars"])[0])
            m = merged.setdefault(r, dict(vars=set(), loc="unset", dirty=False))
            m["vars"] |= g["vars"]
            m["dirty"] = m["dirty"] or g["dirty"]
            if m["loc"] == "unset":
                m["loc"] = g["loc"]
            elif m["loc"] != g["loc"]:
                a, b = m["loc"], g["loc"]
                if a is None:
                    m["loc"] = b
                elif b is None:
                    m["loc"] = a
                else:
                    m["loc"] = ("ro", a[1])
    # a name that is owned (in no group) in one state and grouped in another keeps the group: conservative
    out.groups = [dict(vars=m["vars"] - out.stale, loc=m["loc"], dirty=m["dirty"]) for m in merged.values()]
    return out


class Flow:
    def __init__(self, fn):
        self.fn = fn
        self.q = fn.qual
        self.types = dict(fn.vars)
        self.iterating = []
        self.loop_vars = set()

    def bad(self, msg):
        raise Untranslatable(f"{self.q}: flow check: {msg}")

    def mutable(self, name):
        return name in self.types and is_mutable(self.types[name])

    # names read by an expression
    def loads(self, n):
        """names read by an expression; a comprehension has its own scope (the translator only accepts `[v for v in e]`)"""
        bound = {g.target.id for x in ast.walk(n) if isinstance(x, ast.ListComp) for g in x.generators
                 if isinstance(g.target, ast.Name)}
        return [x.id for x in ast.walk(n) if isinstance(x, ast.Name) and isinstance(x.ctx, ast.Load) and x.id not in bound]

    def use(self, st, n, exempt_root=None):
        for name in self.loads(n):
            if name in ("MessageType", "Message", "len", "dict", SEQ_CLASS, "copy"):
                continue
            if name in self.loop_vars:
                continue
            if name not in self.types:
                continue
            if name not in st.assigned:
                self.bad(f"{name} may be read before it is assigned (line {n.lineno})")
            if name in st.stale:
                self.bad(f"{name} is read after its object was changed through another name (line {n.lineno})")
            if name != exempt_root:
                for g in st.groups:
                    if g["dirty"] and g["loc"] is not None and g["loc"][1] == name:
                        self.bad(f"{name} is read while the entry borrowed by {sorted(g['vars'])} has not been stored back "
                                 f"(line {n.lineno})")

    def leave_group(self, st, v):
        g = st.group_of(v)
        if g is not None:
            g["vars"].discard(v)
            if not g["vars"]:
                if g["dirty"]:
                    self.bad(f"{v} is rebound while the entry it borrowed was changed and not stored back")
                st.groups.remove(g)
        st.stale.discard(v)

    def rebind(self, st, v, alias_of=None, loc=None):
        self.leave_group(st, v)
        st.assigned.add(v)
        # a path that mentions v is no longer the same path
        for g in st.groups:
            if g["loc"] is not None and g["loc"][0] == "at" and v in g["loc"][3]:
                if g["dirty"]:
                    self.bad(f"{v} is reassigned while a borrowed entry whose key mentions it is dirty")
                g["loc"] = ("ro", g["loc"][1])
        if not self.mutable(v):
            return
        if alias_of is not None:
            g = st.group_of(alias_of)
            if g is None:
                g = dict(vars={alias_of}, loc=None, dirty=False)
                st.groups.append(g)
            g["vars"].add(v)
        elif loc is not None:
            st.groups.append(dict(vars={v}, loc=loc, dirty=False))

    def mutate(self, st, v, line):
        if v not in st.assigned:
            self.bad(f"{v} is changed before it is assigned (line {line})")
        if v in st.stale:
            self.bad(f"{v} is changed after its object was changed through another name (line {line})")
        if v != "self" and v in [p for p, _ in self.fn.params]:
            self.bad(f"the parameter {v} is changed (line {line})")
        g = st.group_of(v)
        mates = set(g["vars"]) if g is not None else {v}
        if mates & set(self.iterating):
            self.bad(f"{v} is changed while it is iterated (line {line})")
        if g is None:
            return
        if g["loc"] is not None and g["loc"][0] == "ro":
            self.bad(f"{v} is changed although its object is also an element of / stored in {g['loc'][1]} (line {line})")
        for w in list(g["vars"]):
            if w != v:
                g["vars"].discard(w)
                st.stale.add(w)
        if g["loc"] is not None:
            g["dirty"] = True
            # every other borrow from the same root may now be out of date
            for h in st.groups:
                if h is not g and h["loc"] is not None and h["loc"][1] == g["loc"][1]:
                    for w in list(h["vars"]):
                        h["vars"].discard(w)
                        st.stale.add(w)
            st.groups[:] = [h for h in st.groups if h["vars"] or h["dirty"]]

    def clean_boundary(self, st, what, line):
        for g in st.groups:
            if g["dirty"]:
                self.bad(f"{what} (line {line}) while the entry borrowed by {sorted(g['vars'])} was changed and not stored back")

    def path_of(self, n):
        """for `d[a][b]`, `d.get(k, dflt)`, `d[a].get(b, dflt)`: (root name, normalised path text, names in the keys)"""
        keys = []
        cur = n
        if isinstance(cur, ast.Call) and isinstance(cur.func, ast.Attribute) and cur.func.attr == "get" and len(cur.args) == 2:
            keys.append(cur.args[0])
            cur = cur.func.value
        elif not isinstance(cur, ast.Subscript):
            return None
        while isinstance(cur, ast.Subscript) and not isinstance(cur.slice, ast.Slice):
            keys.append(cur.slice)
            cur = cur.value
        if not isinstance(cur, ast.Name) or not keys:
            return None
        keys.reverse()
        names = frozenset(x for k in keys for x in self.loads(k))
        return cur.id, "".join(f"[{ast.unparse(k)}]" for k in keys), names

    def root_of_mutated(self, recv):
        if isinstance(recv, ast.Name):
            return recv.id
        if isinstance(recv, ast.Attribute) and recv.attr == LIST_ATTR and isinstance(recv.value, ast.Name):
            return recv.value.id
        return None

    def stmt(self, s, st, breaks, conts):
        """returns the state after `s` (None if control never continues after it)"""
        if isinstance(s, (ast.Pass,)) or (isinstance(s, ast.Expr) and isinstance(s.value, ast.Constant)):
            return st
        if isinstance(s, ast.Assign):
            t, v = s.targets[0], s.value
            if isinstance(t, ast.Name):
                pr = self.root_of_mutated(v.func.value) if isinstance(v, ast.Call) and isinstance(v.func, ast.Attribute) \
                    and v.func.attr == "pop" else None
                if pr is not None and self.mutable(pr) and not is_kind(self.types[pr], "dict"):
                    self.use(st, v)
                    self.mutate(st, self.root_of_mutated(v.func.value), s.lineno)
                    if self.mutable(t.id):
                        self.bad(f"{t.id} = pop of a mutable element (line {s.lineno})")
                    self.rebind(st, t.id)
                    return st
                self.use(st, v)
                if self.mutable(t.id):
                    if isinstance(v, ast.Name):
                        self.rebind(st, t.id, alias_of=v.id)
                    else:
                        p = self.path_of(v)
                        if p is not None:
                            self.rebind(st, t.id, loc=("at",) + p)
                        elif isinstance(v, ast.Attribute) and v.attr == LIST_ATTR and isinstance(v.value, ast.Name):
                            # `w = <seq>._messages` without a copy: w IS the message list of that sequence object; the value
                            # translation binds a copy, so any change through w would be lost on the object (audit round 3, R3)
                            self.rebind(st, t.id, loc=("ro", f"{v.value.id}.{LIST_ATTR}"))
                        else:
                            self.rebind(st, t.id)          # a fresh object (checked by the translator: [], dict(), ctor, copy)
                else:
                    self.rebind(st, t.id)
                return st
            if isinstance(t, ast.Attribute):              # <seq>._messages = v
                self.use(st, v)
                r = self.root_of_mutated(t)
                if isinstance(v, ast.Name) and self.mutable(v.id):
                    g = st.group_of(r)
                    if g is not None:
                        g["vars"].discard(r)
                    g = st.group_of(v.id)
                    if g is None:
                        g = dict(vars={v.id}, loc=None, dirty=False)
                        st.groups.append(g)
                    g["vars"].add(r)
                return st
            if isinstance(t, ast.Subscript):
                if isinstance(t.slice, ast.Slice):
                    self.use(st, v)
                    self.mutate(st, self.root_of_mutated(t.value), s.lineno)
                    return st
                p = self.path_of(t)
                if p is None:
                    self.bad(f"store to {ast.unparse(t)}")
                root, path, names = p
                self.use(st, v, exempt_root=root)
                for k in ast.walk(t):
                    if isinstance(k, ast.Subscript):
                        self.use(st, k.slice, exempt_root=root)
                if isinstance(v, ast.Name) and self.mutable(v.id):
                    g = st.group_of(v.id)
                    if g is None:
                        g = dict(vars={v.id}, loc=None, dirty=False)
                        st.groups.append(g)
                    if g["loc"] is None:
                        g["loc"] = ("at", root, path, names)
                    elif g["loc"] == ("at", root, path, names):
                        g["dirty"] = False
                    else:
                        if g["dirty"]:
                            self.bad(f"{v.id} is stored to {ast.unparse(t)} but was borrowed from {g['loc'][1]}{g['loc'][2] if g['loc'][0] == 'at' else ''}")
                        g["loc"] = ("ro", root)
                # the store changes the root dict (owned)
                self.mutate_root_dict(st, root, s.lineno)
                return st
        if isinstance(s, ast.AugAssign):
            self.use(st, s.value)
            self.use(st, s.target)
            self.rebind(st, s.target.id)
            return st
        if isinstance(s, ast.Expr) and isinstance(s.value, ast.Call):
            c = s.value
            self.use(st, c)
            recv = c.func.value
            r = self.root_of_mutated(recv)
            if r is None or not self.mutable(r):
                self.bad(f"call statement on {ast.unparse(recv)} (line {s.lineno})")
            if is_kind(self.types[r], "dict"):
                self.mutate_root_dict(st, r, s.lineno)
                return st
            self.mutate(st, r, s.lineno)
            if c.func.attr == "append" and isinstance(c.args[0], ast.Name) and self.mutable(c.args[0].id):
                a = c.args[0].id
                g = st.group_of(a)
                if g is None:
                    g = dict(vars={a}, loc=None, dirty=False)
                    st.groups.append(g)
                if g["dirty"]:
                    self.bad(f"{a} is appended while dirty (line {s.lineno})")
                g["loc"] = ("ro", r)
            return st
        if isinstance(s, ast.If):
            self.use(st, s.test)
            a = self.block(s.body, st.copy(), breaks, conts)
            b = self.block(s.orelse, st.copy(), breaks, conts)
            return merge_states([a, b])
        if isinstance(s, ast.For):
            self.use(st, s.iter)
            it_root = None
            if isinstance(s.iter, ast.Name):
                it_root = s.iter.id
            elif isinstance(s.iter, ast.Attribute) and s.iter.attr == LIST_ATTR and isinstance(s.iter.value, ast.Name):
                it_root = s.iter.value.id
            elif isinstance(s.iter, ast.Call) and isinstance(s.iter.func, ast.Attribute):
                b = s.iter.func.value
                while isinstance(b, ast.Subscript):
                    b = b.value
                if isinstance(b, ast.Name):
                    it_root = b.id
            names = [s.target.id] if isinstance(s.target, ast.Name) else [e.id for e in s.target.elts]
            return self.loop(s, st, names, it_root)
        if isinstance(s, ast.While):
            return self.loop(s, st, [], None, test=s.test)
        if isinstance(s, ast.Break):
            self.clean_boundary(st, "break", s.lineno)
            breaks.append(st)
            return None
        if isinstance(s, ast.Continue):
            self.clean_boundary(st, "continue", s.lineno)
            conts.append(st)
            return None
        if isinstance(s, ast.Return):
            if s.value is not None:
                self.use(st, s.value)
            self.clean_boundary(st, "return", s.lineno)
            return None
        self.bad(f"statement {type(s).__name__}")

    def mutate_root_dict(self, st, root, line):
        if root in self.iterating:
            self.bad(f"{root} is changed while it is iterated (line {line})")
        if root in [p for p, _ in self.fn.params]:
            self.bad(f"the parameter {root} is changed (line {line})")
        g = st.group_of(root)
        if g is not None and len(g["vars"]) > 1:
            self.bad(f"the dict {root} has an alias (line {line})")

    def block(self, body, st, breaks, conts):
        for s in body:
            if st is None:
                return None
            st = self.stmt(s, st, breaks, conts)
        return st

    def loop(self, s, st, names, it_root, test=None):
        for x in names:
            self.loop_vars.add(x)
        if it_root is not None:
            self.iterating.append(it_root)
        entry = st
        exits = []
        for _ in range(8):
            breaks, conts = [], []
            e = entry.copy()
            # a clean borrow whose path mentions a loop variable does not survive the next iteration
            for g in e.groups:
                if g["loc"] is not None and g["loc"][0] == "at" and set(names) & set(g["loc"][3]):
                    g["loc"] = ("ro", g["loc"][1])
            if test is not None:
                self.use(e, test)
            end = self.block(s.body, e, breaks, conts)
            if end is not None:
                self.clean_boundary(end, "end of a loop body", s.lineno)
            new_entry = merge_states([st, end] + conts)
            exits = [new_entry] + breaks          # the loop may run zero times / end after any iteration
            if new_entry.canon() == entry.canon():
                break
            entry = new_entry
        else:
            self.bad("no fixpoint")
        if it_root is not None:
            self.iterating.pop()
        for x in names:
            self.loop_vars.discard(x)
        return merge_states(exits)

    def run(self):
        st = FState()
        st.assigned = {p for p, _ in self.fn.params}
        end = self.block(self.fn.fn.body, st, [], [])
        if end is not None:
            self.clean_boundary(end, "end of the function", self.fn.fn.end_lineno)


# ----------------------------------------------------------------------------------------------- prelude

PRELUDE_EXTRA = r'''
/-- a message OBJECT: allocation id × value (identity mode) -/
abbrev Obj := Nat × Msg

/-- the input list as pairwise distinct objects: the i-th message gets the id `k + i` -/
def tagFrom (k : Nat) : List Msg → List Obj
  | [] => []
  | m :: ms => (k, m) :: tagFrom (k + 1) ms
def tagInput (r : List Msg) : List Obj := tagFrom 0 r
/-- the values of a list of objects -/
def untag (l : List Obj) : List Msg := l.map (·.2)
/-- first id above every id of the input objects -/
def freshBase (l : List Obj) : Nat := l.foldl (fun a o => max a (o.1 + 1)) 0

/-- `x in l` on message objects: `Message` defines no `__eq__`, so `==` is identity -/
def pyIn (x : Obj) (l : List Obj) : Bool := l.any (fun y => y.1 == x.1)
def eraseId (i : Nat) : List Obj → List Obj
  | [] => []
  | y :: ys => if y.1 == i then ys else y :: eraseId i ys
/-- `l.remove(x)` on message objects: the first element that IS `x`; ValueError if there is none -/
def pyRemove (l : List Obj) (x : Obj) : Except PyErr (List Obj) :=
  if pyIn x l then pure (eraseId x.1 l) else throw .valueError

/-- `d[k]` -/
def pyDictGet {κ ν : Type} [DecidableEq κ] (d : Assoc κ ν) (k : κ) : Except PyErr ν :=
  match Assoc.get? d k with
  | some v => pure v
  | none => throw .keyError
/-- `d.get(k, dflt)` -/
def pyGetD {κ ν : Type} [DecidableEq κ] (d : Assoc κ ν) (k : κ) (dflt : ν) : ν := (Assoc.get? d k).getD dflt
/-- `d.setdefault(k, v)` (the dictionary part) -/
def pySetDefault {κ ν : Type} [DecidableEq κ] (d : Assoc κ ν) (k : κ) (v : ν) : Assoc κ ν :=
  if Assoc.contains d k then d else Assoc.set d k v
/-- `d.keys()` / `d.values()`, in insertion order -/
def pyKeys {κ ν : Type} (d : Assoc κ ν) : List κ := d.map Prod.fst
def pyValues {κ ν : Type} (d : Assoc κ ν) : List ν := d.map Prod.snd

/-- `l.pop(0)`: (the element, the rest) -/
def pyPopFirst {α : Type} (l : List α) : Except PyErr (α × List α) :=
  match l with
  | [] => throw .indexError
  | x :: xs => pure (x, xs)
/-- `l.pop(-1)` / `l.pop()` -/
def pyPopLast {α : Type} (l : List α) : Except PyErr (α × List α) :=
  match l.getLast? with
  | none => throw .indexError
  | some x => pure (x, l.dropLast)
'''


def prelude():
    base = py2lean.PRELUDE
    marker = "  | fuel "
    if base.count(marker) != 1:
        raise Untranslatable("the prelude of tools/py2lean.py changed (PyErr.fuel not found)")
    base = base.replace(marker, "  | keyError               -- `d[k]` on a missing key\n"
                                "  | valueError             -- `l.remove(x)`: x not in l\n" + marker)
    return base + PRELUDE_EXTRA


# ----------------------------------------------------------------------------------------------- driver

class Gen:
    def __init__(self):
        self.reg = py2lean.Registry()
        self.callees = []

    def callee(self, cls, name):
        """a method that tools/py2lean.py translates: translated by it, emitted into this file"""
        if (cls, name) not in self.reg.spec:
            return None
        before = list(self.reg.order)
        sig = self.reg.get(cls, name)
        for key in self.reg.order:
            if key not in before and key not in self.callees:
                self.callees.append(key)
        if (cls, name) not in self.callees:
            self.callees.append((cls, name))
        return sig


def gen_rel2_fns():
    py2lean._AST_CACHE.clear()
    TVar.n = 0
    py2lean.check_message_class()
    check_seq_ctor()
    gen = Gen()
    texts = []
    fns = []
    for rel, cls, name in SPECS:
        f = Fn(gen, rel, cls, name)
        texts.append(f.translate())
        fns.append(f)
    if gen.reg.links_used or gen.reg.stubs:
        raise Untranslatable(f"a callee translated by tools/py2lean.py uses a link or a stub: {gen.reg.links_used} {gen.reg.stubs}")
    L = []
    L.append("/- GENERATED by tools/py2lean_rel2.py (through tools/gen_lean.py) from /repo — do not edit.")
    L.append("   Statement-by-statement translation of RelativeSequence.normalise_relative and RelativeSequence.split")
    L.append("   (scoda/sequences/relative_sequence.py) into `do` blocks over `Except PyErr`.  Conventions: docstring of")
    L.append("   tools/py2lean_rel2.py (dicts are insertion-ordered `Assoc`, message objects are `Nat × Msg` where the Python")
    L.append("   compares identity, `while` with explicit fuel, a flow check guards value semantics against aliasing).")
    L.append("   Tied to the hand models by lean/SCoda/Props/RelTie2.lean (generated = hand model, for all inputs).")
    L.append("   LINK TABLE: empty.  Callees translated by tools/py2lean.py and emitted here: "
             + ", ".join(f"{c}.{n}" for c, n in gen.callees))
    L.append("-/")
    L.append("import SCoda.Model.Msg")
    L.append("import SCoda.Model.Assoc")
    L.append("set_option linter.unusedVariables false")
    L.append("namespace SCoda.Gen.Rel2")
    L.append(prelude())
    L.append("/-- the translated functions: (Python name, Lean name, identity mode) -/")
    L.append("def translated : List (String × String × Bool) := [" + ", ".join(
        f'("{f.qual}", "{f.lean}", {"true" if f.ident else "false"})' for f in fns) + "]")
    L.append("")
    for key in gen.callees:
        L.append(gen.reg.done[key][1])
    for t in texts:
        L.append(t)
    L.append("end SCoda.Gen.Rel2")
    return "\n".join(L) + "\n"


if __name__ == "__main__":
    print(gen_rel2_fns())
