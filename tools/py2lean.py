#!/venv/bin/python
"""py2lean: statement-by-statement AST translation of the simple imperative view-level methods of
/repo/scoda (RelativeSequence / AbsoluteSequence / util.binary_insort) into Lean 4 `do` blocks.

    gen_view_fns() -> str      text of lean/SCoda/Gen/ViewFns.lean   (namespace SCoda.Gen.View)

The result is tied to the hand-written models of lean/SCoda/Model/*.lean by *theorems*
(lean/SCoda/Props/ViewTie.lean: generated function = hand model, for all inputs), so a semantic edit of
the Python changes the generated text and the theorem stops building.

The translator is generic: it knows Python constructs, not functions.  Anything outside the subset below
raises `Untranslatable` (gen_lean.py then writes a file that does not compile).

SUBSET AND CONVENTIONS
  objects   a sequence object (RelativeSequence / AbsoluteSequence, `self` included) is its message list
            `_messages : List Msg`; `RelativeSequence()` / `AbsoluteSequence()` is `[]`.
            A method that changes `self._messages` returns the new list; one that also returns a value
            returns the pair (new list, value).  The same for a module-level function that changes its
            first argument (`binary_insort(collection, message)`).
  messages  `Msg` of Model/Msg.lean; field map FIELD below.  Python `None` in an int field is `pyNone`
            (= -1): `x.f is None` ↦ `x.f == pyNone`.  Arithmetic and ordering on a field assume it is not
            `None` (Python would raise TypeError; no modelled operation does that, Model/Msg.lean).
            `msg.copy()` ↦ `msgCopy msg` = `msg` with `ch := 0 if ch is None` (value semantics; checked:
            `Message.copy` hands every field to the constructor).
            `Message(message_type=…, channel=c, …)` ↦ a `Msg` literal, missing fields `pyNone`,
            `ch := 0 if c is None else c` (checked against the AST of `Message.__init__`).
  locals    a local initialised with `None` is an `Option Int`; reading a nullable field into it goes through
            `pyOpt`, a definite int through `some`.  Other locals are typed by their first assignment.
            A local is declared (`let mut`) at its first assignment when that assignment dominates all its
            uses, otherwise at the top of the function, with a default value.
  lists     `l.append(x)` ↦ `l := l ++ [x]`, `l.extend(e)` ↦ `l := l ++ e`, `l.insert(i, x)` ↦ `pyInsert`,
            `l[i]` ↦ `pyGet` (negative indices, IndexError), `len(l)` ↦ `l.length`,
            `[v for v in e]` ↦ `e`, `[v.copy() for v in e]` ↦ `e.map msgCopy`.
  for       `for v in e` ↦ `for v in e do`; `break`, `continue`, `return` as in Lean.  The iterated list
            must not be changed in the body.  If the body stores into fields of the loop variable
            (`msg.channel = c`, `msg.note += 12`) the list is REBUILT: every iteration emits the edited
            element into a fresh list which replaces the iterated one after the loop (needs an iterated
            lvalue, no `break`).  Stores through any other alias of a list element are refused.
  while     `while a < b` (or <=, >, >=) ↦ `for _ in List.replicate fuel ()` with `fuel = |b - a| + 1`
            measured at loop entry, the loop test as first statement, and `throw .fuel` if the test still
            holds afterwards.  The equality theorems prove that this never happens.
  calls     methods of translated functions are called; other callees go through the LINK TABLE.
  misc      `a if c else b`; `hasattr(msg, "<field>")` ↦ `true`; `msg.key.value` ↦ the key index (AttributeError on None);
            `mido.MidiTrack()` ↦ `[]`, `mido.Message/MetaMessage(kind, …)` ↦ a `MidiEv` literal (LINK, tables MIDO_*);
            an `if` that only reads and writes unmodelled attributes (`name`) is dropped with a comment;
            `raise SequenceException(…)` ↦ `throw`; local imports are ignored.
  floats    only `(<int> * 1.0).is_integer()` ↦ `true`-by-arithmetic and `(<int> / <int>).is_integer()`
            ↦ divisibility (ZeroDivisionError first), i.e. exact rationals instead of IEEE doubles.
  stubs     only for functions listed with `stub=True` (scale): a whole `if`/`else` branch that leaves the
            subset becomes `throw .outOfSubset` with the reason in a comment.
"""
import ast
import os

REPO = os.environ.get("SCODA_REPO", "/repo")


class Untranslatable(Exception):
    pass


# ----------------------------------------------------------------------------------------------- tables

# python attribute of Message -> (Lean field of Msg, type)
FIELD = {
    "message_type": ("ty", "MType"), "channel": ("ch", "NInt"), "time": ("time", "NInt"),
    "note": ("note", "NInt"), "velocity": ("vel", "NInt"), "control": ("ctl", "NInt"),
    "program": ("prog", "NInt"), "numerator": ("num", "NInt"), "denominator": ("den", "NInt"),
    "key": ("key", "NInt"),
}

# LINK TABLE: callees that are NOT translated but mapped to an existing Lean function.  Every entry is an
# assumption ("the Lean function computes what the Python callee computes"), tied by the correspondence check
# of the harness (Driver ops) or, for transpose_key, by being generated from the same source.
#   key: (class or module, name)
#   kind "mutator": receiver/first argument := lean(receiver, args…);  "theory": Option Int result, none = raised
LINKS = {
    ("AbsoluteSequence", "sort"): dict(
        lean="SCoda.sortAbs", kind="mutator",
        why="list.sort(key=(time, channel, message_type, note)) is stable; Model/Sort.lean `sortAbs` is the stable insertion sort"),
    ("mido", "Message / MetaMessage"): dict(
        lean="a `Msg` literal (MIDO_KINDS / MIDO_KW of tools/py2lean.py)", kind="ctor",
        why="a mido message is a MidiEv of Model/Midi.lean: channel 0 for Message, pyNone for MetaMessage, cc value in `vel`, key = index; "
            "the encoding of harness/pyimpl.py op_toMido"),
    ("Key", "transpose_key"): dict(
        lean="SCoda.Gen.transposeKey", kind="theory",
        why="generated from music_theory.py by tools/gen_lean.py (FnTranslator); none = the Python function raised"),
}

# module-level names imported from scoda.settings.settings -> generated constant (Gen/Settings.lean)
SETTINGS = {"NOTE_LOWER_BOUND": "SCoda.Gen.noteLowerBound", "NOTE_UPPER_BOUND": "SCoda.Gen.noteUpperBound",
            "PPQN": "SCoda.Gen.ppqn"}

# mido constructors (LINK): a mido message is a `MidiEv` (= `Msg`, Model/Midi.lean): kind string ↦ `ty`, keyword ↦ field;
# `mido.Message` has channel 0 unless given, `mido.MetaMessage` has no channel (`pyNone`); a control change keeps its
# value in `vel`; a key is its index in the `Key` enum on both sides (mido gets `Key.value`, the reader maps the name back
# through `KeyKeyMapping`).  This is the encoding of the harness (harness/pyimpl.py op_toMido).
MIDO_KINDS = {"note_on": "noteOn", "note_off": "noteOff", "control_change": "controlChange",
              "program_change": "programChange", "time_signature": "timeSignature", "key_signature": "keySignature"}
MIDO_KW = {"note": "note", "velocity": "vel", "time": "time", "channel": "ch", "control": "ctl", "value": "vel",
           "numerator": "num", "denominator": "den", "key": "key", "program": "prog"}
# attributes that are not part of the model: statements that only read and write them are dropped (with a comment)
UNMODELLED_ATTRS = {"name"}

SEQ_CLASSES = {"RelativeSequence": "Rel", "AbsoluteSequence": "Abs", "MidiTrack": "Midi"}
# the attribute holding the message list (the only modelled state of the object)
LIST_ATTR = {"Rel": "_messages", "Abs": "_messages", "Midi": "messages"}
SEQ_FILES = {"RelativeSequence": "scoda/sequences/relative_sequence.py",
             "AbsoluteSequence": "scoda/sequences/absolute_sequence.py", "MidiTrack": "scoda/midi/midi_track.py"}

# what is translated, in this order: (file, class or None, function, options)
SPECS = [
    ("scoda/sequences/relative_sequence.py", "RelativeSequence", "pad", {}),
    ("scoda/sequences/relative_sequence.py", "RelativeSequence", "set_channel", {}),
    ("scoda/sequences/relative_sequence.py", "RelativeSequence", "concatenate", {}),
    ("scoda/sequences/relative_sequence.py", "RelativeSequence", "add_message", {}),
    ("scoda/sequences/absolute_sequence.py", "AbsoluteSequence", "_add_message_unsorted", {}),
    ("scoda/sequences/absolute_sequence.py", "AbsoluteSequence", "normalise_absolute", {}),
    ("scoda/misc/util.py", None, "binary_insort", {}),
    ("scoda/sequences/absolute_sequence.py", "AbsoluteSequence", "add_message", {}),
    ("scoda/sequences/relative_sequence.py", "RelativeSequence", "to_absolute_sequence", {}),
    ("scoda/sequences/relative_sequence.py", "RelativeSequence", "scale", {"stub": True, "drop_params": ["meta_sequence"]}),
    ("scoda/sequences/relative_sequence.py", "RelativeSequence", "transpose", {}),
    ("scoda/sequences/absolute_sequence.py", "AbsoluteSequence", "to_relative_sequence", {}),
    ("scoda/sequences/absolute_sequence.py", "AbsoluteSequence", "get_sequence_duration", {}),
    ("scoda/sequences/absolute_sequence.py", "AbsoluteSequence", "merge", {}),
    ("scoda/sequences/relative_sequence.py", "RelativeSequence", "is_empty", {}),
    ("scoda/sequences/absolute_sequence.py", "AbsoluteSequence", "is_channel_consistent", {}),
    ("scoda/sequences/absolute_sequence.py", "AbsoluteSequence", "get_sequence_channel", {}),
    ("scoda/midi/midi_message.py", "MidiMessage", "parse_internal_message", {}),
    ("scoda/sequences/relative_sequence.py", "RelativeSequence", "to_midi_track", {}),
    ("scoda/midi/midi_track.py", "MidiTrack", "to_mido_track", {}),
]
# Lean names that differ from camelCase of the Python name (two classes share `add_message`)
LEAN_NAME = {("AbsoluteSequence", "add_message"): "absAddMessage",
             ("AbsoluteSequence", "_add_message_unsorted"): "addMessageUnsorted"}

NOT_TRANSLATED = [
    ("AbsoluteSequence.cutoff", "stores through an alias: `message_pairing[1].time = …` changes a message that is also an "
                                "element of `self._messages` (object identity); value semantics cannot express it"),
    ("RelativeSequence.scale, factor < 1", "builds Sequence / Bar objects (sequences_split_bars); stubbed as `throw .outOfSubset`"),
    ("normalise_relative, split, quantise, quantise_note_lengths, get_message_pairings", "dict-of-dict state (excluded by the task)"),
]

LEAN_KEYWORDS = {"by", "at", "do", "end", "from", "fun", "have", "if", "in", "let", "match", "open", "show", "then", "with",
                 "where", "type", "instance", "def", "theorem", "example", "else", "for", "return", "mut", "namespace",
                 "section", "variable", "import", "structure", "class", "deriving", "partial", "unsafe", "private",
                 "protected", "macro", "syntax", "notation", "prefix", "infix", "postfix", "universe", "axiom", "opaque",
                 "abbrev", "inductive", "calc", "using", "extends", "mutual", "set_option", "attribute", "export", "local"}

LEAN_TYPE = {"Int": "Int", "NInt": "Int", "OInt": "Option Int", "Bool": "Bool", "Msg": "Msg", "MType": "MType",
             "Seq:Rel": "List Msg", "Seq:Abs": "List Msg", "Seq:Midi": "List Msg", "ListMsg": "List Msg",
             "ListSeq:Rel": "List (List Msg)", "ListSeq:Abs": "List (List Msg)", "Unit": "Unit"}
LEAN_DEFAULT = {"Int": "0", "NInt": "pyNone", "OInt": "none", "Bool": "false", "Msg": "default", "MType": "default",
                "Seq:Rel": "[]", "Seq:Abs": "[]", "Seq:Midi": "[]", "ListMsg": "[]", "ListSeq:Rel": "[]", "ListSeq:Abs": "[]"}


def camel(name):
    parts = name.strip("_").split("_")
    s = parts[0].lower() + "".join(p.capitalize() for p in parts[1:])
    return s + "_" if s in LEAN_KEYWORDS else s


def is_list_ty(t):
    return t in ("Seq:Rel", "Seq:Abs", "Seq:Midi", "ListMsg")


def list_attr_of(ty):
    return LIST_ATTR.get(ty.split(":")[1]) if ty.startswith("Seq:") else None


def elem_ty(t):
    if is_list_ty(t):
        return "Msg"
    if t.startswith("ListSeq:"):
        return "Seq:" + t.split(":")[1]
    raise Untranslatable(f"iteration over a value of type {t}")


# ----------------------------------------------------------------------------------------------- source access

_AST_CACHE = {}


def module_ast(rel):
    if rel not in _AST_CACHE:
        _AST_CACHE[rel] = ast.parse(open(os.path.join(REPO, rel)).read())
    return _AST_CACHE[rel]


def find_function(rel, cls, fn):
    tree = module_ast(rel)
    scope = tree.body
    if cls is not None:
        cs = [c for c in tree.body if isinstance(c, ast.ClassDef) and c.name == cls]
        if not cs:
            raise Untranslatable(f"class {cls} not found in {rel}")
        scope = cs[0].body
    fs = [f for f in scope if isinstance(f, ast.FunctionDef) and f.name == fn]
    if len(fs) != 1:
        raise Untranslatable(f"function {cls}.{fn} not found (or not unique) in {rel}")
    for d in fs[0].decorator_list:
        if ast.unparse(d) not in ("staticmethod", "property", "abstractmethod"):
            raise Untranslatable(f"{cls}.{fn} carries the decorator @{ast.unparse(d)}: a decorator can change what a call does (caching, wrapping)")
    _DEFAULTS_SEEN.update(_defaults_of(cls, fs[0]))
    return fs[0]


_DEFAULTS_SEEN = set()


def _defaults_of(cls, fn):
    args = fn.args.args
    defs = [None] * (len(args) - len(fn.args.defaults)) + list(fn.args.defaults)
    return {f"{cls}.{fn.name}({a.arg}={ast.unparse(d)})" for a, d in zip(args, defs) if d is not None}


def check_field_ctor(rel, cls, tail):
    """`cls.__init__` takes exactly the fields of FIELD, all defaulting to None, stores each in the attribute of the same
    name, and then does exactly `tail` (normalised source lines)."""
    init = find_function(rel, cls, "__init__")
    params = [a.arg for a in init.args.args[1:]]
    if sorted(params) != sorted(FIELD):
        raise Untranslatable(f"{cls}.__init__ parameters changed: {params}")
    if not all(isinstance(d, ast.Constant) and d.value is None for d in init.args.defaults) \
            or len(init.args.defaults) != len(params):
        raise Untranslatable(f"{cls}.__init__: a parameter default is not None")
    body = [s for s in init.body if not (isinstance(s, ast.Expr) and isinstance(s.value, ast.Constant))]
    stores = {}
    rest = []
    for s in body:
        if isinstance(s, ast.Expr) and ast.unparse(s) == "super().__init__()":
            continue
        if isinstance(s, ast.Assign) and len(s.targets) == 1 and isinstance(s.targets[0], ast.Attribute) \
                and isinstance(s.targets[0].value, ast.Name) and s.targets[0].value.id == "self" \
                and isinstance(s.value, ast.Name) and not rest:
            stores[s.targets[0].attr] = s.value.id
        else:
            rest.append(s)
    if stores != {f: f for f in FIELD}:
        raise Untranslatable(f"{cls}.__init__ does not store every parameter in the field of the same name: {stores}")
    if [" ".join(ast.unparse(s).split()) for s in rest] != tail:
        raise Untranslatable(f"{cls}.__init__: the statements after the field stores are not {tail}: "
                             + "; ".join(ast.unparse(s) for s in rest))


def check_message_class():
    """The facts about `Message`, `MidiMessage` and `MidiTrack` the translation relies on, read off their ASTs."""
    check_field_ctor("scoda/elements/message.py", "Message", ["if self.channel is None: self.channel = 0"])
    check_field_ctor("scoda/midi/midi_message.py", "MidiMessage", [])
    ti = find_function("scoda/midi/midi_track.py", "MidiTrack", "__init__")
    tb = [" ".join(ast.unparse(s).split()) for s in ti.body]
    if len(ti.args.args) != 1 or "self.messages: [MidiMessage] = []" not in tb \
            or any(t.startswith("self.messages") and t != "self.messages: [MidiMessage] = []" for t in tb):
        raise Untranslatable("MidiTrack.__init__ does not start with an empty `messages` list")
    cp = find_function("scoda/elements/message.py", "Message", "copy")
    body = [s for s in cp.body if not (isinstance(s, ast.Expr) and isinstance(s.value, ast.Constant))]
    ok = (len(body) == 2 and isinstance(body[0], ast.Assign) and isinstance(body[0].value, ast.Call)
          and ast.unparse(body[0].value.func) == "self.__class__" and not body[0].value.args
          and {k.arg: ast.unparse(k.value) for k in body[0].value.keywords} == {f: f"self.{f}" for f in FIELD}
          and isinstance(body[1], ast.Return) and ast.unparse(body[1].value) == ast.unparse(body[0].targets[0]))
    if not ok:
        raise Untranslatable("Message.copy is not a field-by-field copy")


# ----------------------------------------------------------------------------------------------- code tree

class Block:
    def __init__(self, path):
        self.path = path
        self.items = []      # str | Assign | (header str, Block) …


class AssignItem:
    def __init__(self, var, text, seq, comment=None):
        self.var, self.text, self.seq, self.comment = var, text, seq, comment
        self.declares = False


class Sig:
    def __init__(self, lean, params, mutates, ret, qual):
        self.lean, self.params, self.mutates, self.ret, self.qual = lean, params, mutates, ret, qual


class Registry:
    """translated functions, memoised, in completion order"""

    def __init__(self):
        self.spec = {(c, f): (rel, opts) for rel, c, f, opts in SPECS}
        self.done = {}
        self.order = []
        self.in_progress = set()
        self.links_used = []
        self.stubs = []

    def get(self, cls, fn):
        key = (cls, fn)
        if key in self.done:
            return self.done[key][0]
        if key not in self.spec:
            return None
        if key in self.in_progress:
            raise Untranslatable(f"recursive call cycle through {cls}.{fn}")
        self.in_progress.add(key)
        rel, opts = self.spec[key]
        tr = FnTranslator(self, rel, cls, fn, opts)
        text = tr.translate()
        self.in_progress.discard(key)
        self.done[key] = (tr.sig, text)
        self.order.append(key)
        return tr.sig


class FnTranslator:
    def __init__(self, reg, rel, cls, fn, opts):
        self.reg, self.rel, self.cls, self.fn_name, self.opts = reg, rel, cls, fn, opts
        self.fn = find_function(rel, cls, fn)
        self.qual = f"{cls}.{fn}" if cls else fn
        self.vars = {}            # python name -> type
        self.params = []          # (python name, type)
        self.refs = {}            # python name -> list of (seq, path, is_plain_store)
        self.seq = 0
        self.path = ()
        self.block_counter = 0
        self.mutated_params = set()
        self.reassigned = set()
        self.fresh = set()        # Msg locals holding a fresh object (copy / constructor)
        self.rebuild_vars = []    # loop variables of rebuild loops (stack)
        self.tmp = 0
        self.loop_depth = 0
        self.ret_types = []
        self.sig = None
        self.self_ty = "Seq:" + SEQ_CLASSES[cls] if cls in SEQ_CLASSES else None
        self.first_param = None

    # ---- bookkeeping
    def ref(self, name, store=False):
        self.seq += 1
        self.refs.setdefault(name, []).append((self.seq, self.path, store))
        return self.seq

    def lean_var(self, name):
        if name == "self":
            return "self_"
        return camel(name)

    def fresh_name(self, base):
        self.tmp += 1
        return f"{base}{self.tmp}_"

    def new_block(self):
        self.block_counter += 1
        return Block(self.path + (self.block_counter,))

    # ---- types of annotations
    def param_type(self, arg, default):
        ann = ast.unparse(arg.annotation) if arg.annotation is not None else None
        if ann in (None, "int"):
            if isinstance(default, ast.Constant) and default.value is None:
                return "OInt"
            return "Int"
        if ann == "Message":
            return "Msg"
        if ann in ("list", "list[Message]"):
            return "ListMsg"
        for c, k in SEQ_CLASSES.items():
            if ann == c:
                return "Seq:" + k
            if ann == f"list[{c}]":
                return "ListSeq:" + k
        raise Untranslatable(f"{self.qual}: parameter annotation {ann!r}")

    # ---- expressions: return (text, type)
    def coerce(self, text, ty, want, what="value"):
        if ty == want:
            return text
        if want == "OInt":
            if ty == "Int":
                return f"(some {text})"
            if ty == "NInt":
                return f"(pyOpt {text})"
            if ty == "None":
                return "none"
        if want == "NInt":
            if ty == "Int":
                return text
            if ty == "OInt":
                return f"(optPy {text})"
            if ty == "None":
                return "pyNone"
        if want == "Int" and ty == "NInt":
            return text       # a nullable field used as a number (Python: TypeError if it is None)
        if is_list_ty(want) and is_list_ty(ty):
            return text
        raise Untranslatable(f"{self.qual}: cannot use a {ty} as {want} ({what})")

    def chan_init(self, text, ty):
        """`Message.__init__`: `if self.channel is None: self.channel = 0`"""
        if ty == "Int":
            return text
        if ty == "NInt":
            return f"(chanOfInt {text})"
        if ty == "OInt":
            return f"(chanOfOpt {text})"
        if ty == "None":
            return "0"
        raise Untranslatable(f"{self.qual}: channel argument of type {ty}")

    def lvalue_list(self, n):
        """the variable standing for a list that can be changed: `self._messages`, `<seq local>._messages`, a list local"""
        if isinstance(n, ast.Attribute) and isinstance(n.value, ast.Name):
            name = n.value.id
            if name in self.vars and list_attr_of(self.vars[name]) == n.attr:
                return name
        if isinstance(n, ast.Name) and n.id in self.vars and is_list_ty(self.vars[n.id]):
            return n.id
        return None

    def expr(self, n, mono=True):
        """mono=False: inside a short-circuited operand, where monadic sub-expressions are refused"""
        if isinstance(n, ast.Constant):
            if n.value is None:
                return "pyNone", "None"
            if isinstance(n.value, bool):
                return ("true" if n.value else "false"), "Bool"
            if isinstance(n.value, int):
                return (f"({n.value})" if n.value < 0 else str(n.value)), "Int"
            raise Untranslatable(f"{self.qual}: constant {n.value!r}")
        if isinstance(n, ast.Name):
            if n.id in self.vars:
                self.ref(n.id)
                return self.lean_var(n.id), self.vars[n.id]
            if n.id in SETTINGS:
                return SETTINGS[n.id], "Int"
            raise Untranslatable(f"{self.qual}: name {n.id!r}")
        if isinstance(n, ast.Attribute):
            if isinstance(n.value, ast.Name) and n.value.id == "MessageType":
                return "MType." + camel(n.attr), "MType"
            if n.attr in LIST_ATTR.values():
                t, ty = self.expr(n.value, mono)
                if list_attr_of(ty) != n.attr:
                    raise Untranslatable(f"{self.qual}: .{n.attr} of a {ty}")
                return t, ty
            if n.attr == "value" and isinstance(n.value, ast.Attribute) and n.value.attr == "key":
                # `msg.key.value`: a key is its index in the enum (AttributeError if the key is None)
                if not mono:
                    raise Untranslatable(f"{self.qual}: .value inside a short-circuited operand")
                t, ty = self.expr(n.value, mono)
                return f"(← keyValue {t})", "NInt"
            if n.attr in FIELD:
                t, ty = self.expr(n.value, mono)
                if ty != "Msg":
                    raise Untranslatable(f"{self.qual}: .{n.attr} of a {ty}")
                f, fty = FIELD[n.attr]
                return f"{t}.{f}", fty
            raise Untranslatable(f"{self.qual}: attribute .{n.attr}")
        if isinstance(n, ast.UnaryOp) and isinstance(n.op, ast.USub):
            t, ty = self.expr(n.operand, mono)
            return f"(-{self.coerce(t, ty, 'Int')})", "Int"
        if isinstance(n, ast.UnaryOp) and isinstance(n.op, ast.Not):
            return f"(!{self.cond(n.operand, mono)})", "Bool"
        if isinstance(n, ast.BinOp):
            if isinstance(n.op, ast.Add) and self.is_list_expr(n.left):
                a, ta = self.expr(n.left, mono)
                b, tb = self.expr(n.right, mono)
                if not (is_list_ty(ta) and is_list_ty(tb)):
                    raise Untranslatable(f"{self.qual}: list + {tb}")
                return f"({a} ++ {b})", "ListMsg"
            a, ta = self.expr(n.left, mono)
            b, tb = self.expr(n.right, mono)
            a, b = self.coerce(a, ta, "Int", "operand"), self.coerce(b, tb, "Int", "operand")
            if isinstance(n.op, ast.Add):
                return f"({a} + {b})", "Int"
            if isinstance(n.op, ast.Sub):
                return f"({a} - {b})", "Int"
            if isinstance(n.op, ast.Mult):
                return f"({a} * {b})", "Int"
            if isinstance(n.op, (ast.FloorDiv, ast.Mod)) and isinstance(n.right, ast.Constant) \
                    and isinstance(n.right.value, int) and not isinstance(n.right.value, bool) and n.right.value > 0:
                # positive literal divisor: Python's floor division / modulo = Lean's Euclidean `/` and `%` on Int
                return (f"({a} / {b})" if isinstance(n.op, ast.FloorDiv) else f"({a} % {b})"), "Int"
            if isinstance(n.op, (ast.FloorDiv, ast.Mod)):
                if not mono:
                    raise Untranslatable(f"{self.qual}: // or % inside a short-circuited operand")
                fn = "pyFloorDiv" if isinstance(n.op, ast.FloorDiv) else "pyMod"
                return f"(← {fn} {a} {b})", "Int"
            raise Untranslatable(f"{self.qual}: operator {type(n.op).__name__}")
        if isinstance(n, (ast.Compare, ast.BoolOp)):
            return self.cond(n, mono), "Bool"
        if isinstance(n, ast.Subscript):
            if isinstance(n.slice, ast.Slice):
                raise Untranslatable(f"{self.qual}: slice")
            if not mono:
                raise Untranslatable(f"{self.qual}: subscript inside a short-circuited operand")
            l, tl = self.expr(n.value, mono)
            i, ti = self.expr(n.slice, mono)
            return f"(← pyGet {l} {self.coerce(i, ti, 'Int', 'index')})", elem_ty(tl)
        if isinstance(n, ast.ListComp):
            # only the identity comprehensions  [v for v in e]  and  [v.copy() for v in e]
            if len(n.generators) == 1 and not n.generators[0].ifs and isinstance(n.generators[0].target, ast.Name):
                v = n.generators[0].target.id
                elt = n.elt
                copied = False
                if isinstance(elt, ast.Call) and isinstance(elt.func, ast.Attribute) and elt.func.attr == "copy" \
                        and not elt.args and not elt.keywords:
                    elt = elt.func.value
                    copied = True
                if isinstance(elt, ast.Name) and elt.id == v:
                    t, ty = self.expr(n.generators[0].iter, mono)
                    if is_list_ty(ty):
                        return (f"({t}.map msgCopy)" if copied else t), "ListMsg"
            raise Untranslatable(f"{self.qual}: list comprehension {ast.unparse(n)}")
        if isinstance(n, ast.List) and not n.elts:
            return "[]", "ListMsg"
        if isinstance(n, ast.IfExp):
            c = self.cond(n.test, mono)
            a, ta = self.expr(n.body, False)
            b, tb = self.expr(n.orelse, False)
            ints = ("Int", "NInt", "None")
            if ta in ints and tb in ints:
                ty = "Int" if ta == tb == "Int" else "NInt"
                return f"(if {c} then {self.coerce(a, ta, ty)} else {self.coerce(b, tb, ty)})", ty
            if ta == tb:
                return f"(if {c} then {a} else {b})", ta
            raise Untranslatable(f"{self.qual}: conditional expression of types {ta}/{tb}")
        if isinstance(n, ast.Call):
            return self.call_expr(n, mono)
        raise Untranslatable(f"{self.qual}: expression {type(n).__name__}: {ast.unparse(n)[:60]}")

    def is_list_expr(self, n):
        if isinstance(n, (ast.List, ast.ListComp)):
            return True
        if isinstance(n, ast.Name) and n.id in self.vars and is_list_ty(self.vars[n.id]):
            return True
        if isinstance(n, ast.Attribute) and n.attr in LIST_ATTR.values():
            return True
        return False

    def float_expr(self, n):
        """the two float shapes of the subset, as an exact fraction (numerator text, denominator text, zero check needed)"""
        if isinstance(n, ast.BinOp) and isinstance(n.op, ast.Mult) and isinstance(n.right, ast.Constant) \
                and isinstance(n.right.value, float) and n.right.value == 1.0:
            a, ta = self.expr(n.left)
            return self.coerce(a, ta, "Int"), "1", False
        if isinstance(n, ast.BinOp) and isinstance(n.op, ast.Div):
            a, ta = self.expr(n.left)
            b, tb = self.expr(n.right)
            return self.coerce(a, ta, "Int"), self.coerce(b, tb, "Int"), True
        raise Untranslatable(f"{self.qual}: float expression {ast.unparse(n)}")

    def call_expr(self, n, mono):
        f = n.func
        if isinstance(f, ast.Name):
            if f.id == "int" and len(n.args) == 1 and not n.keywords:
                t, ty = self.expr(n.args[0], mono)
                if ty not in ("Int", "NInt"):
                    raise Untranslatable(f"{self.qual}: int() of a {ty}")
                return t, "Int"
            if f.id == "len" and len(n.args) == 1:
                t, ty = self.expr(n.args[0], mono)
                if not (is_list_ty(ty) or ty.startswith("ListSeq:")):
                    raise Untranslatable(f"{self.qual}: len() of a {ty}")
                return f"({t}.length : Int)", "Int"
            if f.id in SEQ_CLASSES and not n.args and not n.keywords:
                return "[]", "Seq:" + SEQ_CLASSES[f.id]
            if f.id == "Message":
                return self.message_ctor(n, mono), "Msg"
            if f.id == "MidiMessage":
                return self.message_ctor(n, mono, midi=True), "Msg"
            if f.id == "hasattr" and len(n.args) == 2 and isinstance(n.args[1], ast.Constant) \
                    and n.args[1].value in FIELD:
                t, ty = self.expr(n.args[0], mono)
                if ty == "Msg":
                    return "true", "Bool"       # every message object has every field (checked constructors)
        if isinstance(f, ast.Attribute):
            if f.attr == "copy" and not n.args and not n.keywords:
                t, ty = self.expr(f.value, mono)
                if ty == "Msg":
                    return f"(msgCopy {t})", "Msg"       # value semantics; the copy goes through Message.__init__
                raise Untranslatable(f"{self.qual}: .copy() of a {ty}")
            if f.attr == "is_integer" and not n.args:
                if not mono:
                    raise Untranslatable(f"{self.qual}: is_integer inside a short-circuited operand")
                num, den, check = self.float_expr(f.value)
                if check:
                    return f"(← pyIsIntegerDiv {num} {den})", "Bool"
                return f"(decide ({num} % {den} = 0))", "Bool"
            if isinstance(f.value, ast.Name) and f.value.id == "mido":
                if f.attr == "MidiTrack" and not n.args and not n.keywords:
                    return "[]", "ListMsg"      # a mido track is its list of events
                if f.attr in ("Message", "MetaMessage"):
                    return self.mido_ctor(n, f.attr == "MetaMessage", mono), "Msg"
            # static call  Key.transpose_key(k, n)
            if isinstance(f.value, ast.Name) and (f.value.id, f.attr) in LINKS:
                link = LINKS[(f.value.id, f.attr)]
                if link["kind"] == "theory":
                    if not mono:
                        raise Untranslatable(f"{self.qual}: call inside a short-circuited operand")
                    args = []
                    for a in n.args:
                        t, ty = self.expr(a, mono)
                        args.append(self.coerce(t, ty, "NInt", "argument"))
                    self.note_link((f.value.id, f.attr))
                    return f"(← linkTheory ({link['lean']} {' '.join(args)}))", "NInt"
            # static method of SPECS:  Class.method(args)
            if isinstance(f.value, ast.Name) and f.value.id not in self.vars and (f.value.id, f.attr) in self.reg.spec:
                fn_ast = find_function(self.reg.spec[(f.value.id, f.attr)][0], f.value.id, f.attr)
                if not any(isinstance(d, ast.Name) and d.id == "staticmethod" for d in fn_ast.decorator_list):
                    raise Untranslatable(f"{self.qual}: {f.value.id}.{f.attr} is not a static method")
                if not mono:
                    raise Untranslatable(f"{self.qual}: call inside a short-circuited operand")
                sig = self.reg.get(f.value.id, f.attr)
                if sig.mutates:
                    raise Untranslatable(f"{self.qual}: {sig.qual} changes its argument")
                return f"(← {sig.lean} {self.call_args(sig, n)})", sig.ret
            # value-returning method of a sequence object
            recv_cls = self.receiver_class(f.value)
            if recv_cls is not None:
                sig = self.reg.get(recv_cls, f.attr)
                if sig is not None:
                    if sig.mutates:
                        raise Untranslatable(f"{self.qual}: value of the mutating method {recv_cls}.{f.attr}")
                    if not mono:
                        raise Untranslatable(f"{self.qual}: call inside a short-circuited operand")
                    r, _ = self.expr(f.value, mono)
                    return f"(← {sig.lean} {r} {self.call_args(sig, n)})".replace("  ", " ").replace(" )", ")"), sig.ret
        raise Untranslatable(f"{self.qual}: call {ast.unparse(n)[:70]}")

    def receiver_class(self, n):
        if isinstance(n, ast.Name) and n.id in self.vars and self.vars[n.id].startswith("Seq:"):
            k = self.vars[n.id].split(":")[1]
            return [c for c, kk in SEQ_CLASSES.items() if kk == k][0]
        return None

    def call_args(self, sig, call):
        """arguments in the callee's parameter order; missing ones take the Python default (only None is supported)"""
        given = {}
        for (pname, pty, pdef), a in zip(sig.params, call.args):
            given[pname] = a
        for kw in call.keywords:
            given[kw.arg] = kw.value
        unknown = set(given) - {p for p, _, _ in sig.params}
        if unknown or len(call.args) > len(sig.params):
            raise Untranslatable(f"{self.qual}: arguments {sorted(unknown)} of {sig.qual}")
        out = []
        for pname, pty, pdef in sig.params:
            if pname in given:
                t, ty = self.expr(given[pname])
                out.append(self.coerce(t, ty, pty, f"argument {pname}"))
            elif pdef == "None" and pty == "OInt":
                out.append("none")
            else:
                raise Untranslatable(f"{self.qual}: missing argument {pname} of {sig.qual}")
        return " ".join(out)

    def message_ctor(self, n, mono, midi=False):
        """`Message(…)`; `MidiMessage(…)` has the same fields (checked) and no channel default"""
        if n.args:
            raise Untranslatable(f"{self.qual}: positional arguments of Message(…)")
        fields = {}
        for kw in n.keywords:
            if kw.arg not in FIELD:
                raise Untranslatable(f"{self.qual}: Message({kw.arg}=…)")
            t, ty = self.expr(kw.value, mono)
            f, fty = FIELD[kw.arg]
            if kw.arg == "channel" and not midi:
                fields[f] = self.chan_init(t, ty)
            elif fty == "MType":
                if ty != "MType":
                    raise Untranslatable(f"{self.qual}: message_type of type {ty}")
                fields[f] = t
            else:
                fields[f] = self.coerce(t, ty, "NInt", f"field {kw.arg}")
        if "ty" not in fields:
            raise Untranslatable(f"{self.qual}: Message(…) without message_type")
        order = [FIELD[k][0] for k in FIELD]
        return "{ " + ", ".join(f"{f} := {fields[f]}" for f in order if f in fields) + " : Msg }"

    def mido_ctor(self, n, is_meta, mono):
        if len(n.args) != 1 or not (isinstance(n.args[0], ast.Constant) and n.args[0].value in MIDO_KINDS):
            raise Untranslatable(f"{self.qual}: mido constructor {ast.unparse(n)[:60]}")
        fields = {"ty": "MType." + MIDO_KINDS[n.args[0].value], "ch": "pyNone" if is_meta else "0"}
        for kw in n.keywords:
            if kw.arg not in MIDO_KW or (kw.arg == "channel" and is_meta):
                raise Untranslatable(f"{self.qual}: mido keyword {kw.arg}")
            t, ty = self.expr(kw.value, mono)
            f = MIDO_KW[kw.arg]
            if f in fields and f != "ch":
                raise Untranslatable(f"{self.qual}: mido keywords collide on {f}")
            fields[f] = self.coerce(t, ty, "NInt", f"mido keyword {kw.arg}")
        self.note_link(("mido", "Message / MetaMessage"))
        order = [FIELD[k][0] for k in FIELD]
        return "{ " + ", ".join(f"{f} := {fields[f]}" for f in order if f in fields) + " : Msg }"

    def cond(self, n, mono=True):
        if isinstance(n, ast.BoolOp):
            sym = " && " if isinstance(n.op, ast.And) else " || "
            parts = [self.cond(n.values[0], mono)] + [self.cond(v, False) for v in n.values[1:]]
            return "(" + sym.join(parts) + ")"
        if isinstance(n, ast.UnaryOp) and isinstance(n.op, ast.Not):
            return f"(!{self.cond(n.operand, mono)})"
        if isinstance(n, ast.Compare):
            if len(n.ops) != 1:
                raise Untranslatable(f"{self.qual}: chained comparison")
            op, l, r = n.ops[0], n.left, n.comparators[0]
            if isinstance(op, (ast.Is, ast.IsNot)):
                neg = isinstance(op, ast.IsNot)
                if isinstance(r, ast.Constant) and r.value is None:
                    t, ty = self.expr(l, mono)
                    if ty == "OInt":
                        return f"{t}.isSome" if neg else f"{t}.isNone"
                    if ty == "NInt":
                        return f"({t} != pyNone)" if neg else f"({t} == pyNone)"
                    raise Untranslatable(f"{self.qual}: `is None` on a {ty}")
                a, ta = self.expr(l, mono)
                b, tb = self.expr(r, mono)
                if ta == tb == "MType":        # enum members are singletons
                    return f"({a} != {b})" if neg else f"({a} == {b})"
                raise Untranslatable(f"{self.qual}: `is` on {ta}/{tb}")
            a, ta = self.expr(l, mono)
            b, tb = self.expr(r, mono)
            if isinstance(op, (ast.Eq, ast.NotEq)):
                sym = "==" if isinstance(op, ast.Eq) else "!="
                if ta == tb == "MType" or ta == tb == "Bool":
                    return f"({a} {sym} {b})"
                if "None" in (ta, tb) and "OInt" in (ta, tb):
                    raise Untranslatable(f"{self.qual}: == None (use `is None`)")
                if ta == "OInt" or tb == "OInt":
                    return f"({self.coerce(a, ta, 'OInt')} {sym} {self.coerce(b, tb, 'OInt')})"
                return f"({self.coerce(a, ta, 'NInt')} {sym} {self.coerce(b, tb, 'NInt')})"
            sym = {ast.Lt: "<", ast.LtE: "≤", ast.Gt: ">", ast.GtE: "≥"}.get(type(op))
            if sym is None:
                raise Untranslatable(f"{self.qual}: comparison {type(op).__name__}")
            return f"(decide ({self.coerce(a, ta, 'Int', 'comparison')} {sym} {self.coerce(b, tb, 'Int', 'comparison')}))"
        t, ty = self.expr(n, mono)
        if ty != "Bool":
            raise Untranslatable(f"{self.qual}: truth value of a {ty}")
        return t

    # ---- statements
    def note_link(self, key):
        if key not in self.reg.links_used:
            self.reg.links_used.append(key)

    def assign_var(self, blk, name, text, ty, comment=None):
        """name = <text : ty>"""
        if name == "self":
            raise Untranslatable(f"{self.qual}: assignment to self")
        if name not in self.vars:
            if ty == "None":
                ty2 = "OInt"
            elif ty == "NInt" or ty == "Int":
                ty2 = ty
            else:
                ty2 = ty
            self.vars[name] = ty2
        want = self.vars[name]
        if want == "NInt" and ty == "Int":
            pass
        text = self.coerce(text, ty, want, f"assignment to {name}")
        if name in [p for p, _ in self.params]:
            self.reassigned.add(name)
        s = self.ref(name, store=True)
        blk.items.append(AssignItem(name, text, s, comment))

    def mutate_var(self, blk, name, text):
        """the list variable `name` gets a new value"""
        if self.iterating.count(name):
            raise Untranslatable(f"{self.qual}: {name} is changed while it is iterated")
        if name == "self" or name in [p for p, _ in self.params]:
            self.mutated_params.add(name)
        s = self.ref(name, store=False)
        blk.items.append(f"{self.lean_var(name)} := {text}")

    def store_field(self, blk, target, text, ty, aug=None):
        """target.attr = value   /   target.attr op= value"""
        if not (isinstance(target.value, ast.Name) and target.value.id in self.vars
                and self.vars[target.value.id] == "Msg" and target.attr in FIELD):
            raise Untranslatable(f"{self.qual}: store to {ast.unparse(target)} (only fields of a message variable; "
                                 f"a store through a subscript or another alias needs object identity)")
        name = target.value.id
        if name not in self.rebuild_vars and name not in self.fresh:
            raise Untranslatable(f"{self.qual}: store to {ast.unparse(target)}: {name} may alias an element of a list")
        f, fty = FIELD[target.attr]
        v = self.lean_var(name)
        if fty == "MType":
            if ty != "MType" or aug:
                raise Untranslatable(f"{self.qual}: message_type store")
            val = text
        elif aug:
            val = f"({v}.{f} {aug} {self.coerce(text, ty, 'Int', 'operand')})"
        else:
            val = self.coerce(text, ty, "NInt", f"field {target.attr}")
        self.ref(name)
        blk.items.append(f"{v} := {{ {v} with {f} := {val} }}")

    AUG = {ast.Add: "+", ast.Sub: "-", ast.Mult: "*"}

    def stmts(self, body, blk):
        for s in body:
            self.stmt(s, blk)

    def branch(self, body, header_path_blk):
        """translate a branch into a fresh block; with the stub option a branch outside the subset becomes a throw"""
        saved = self.path
        blk = self.new_block()
        self.path = blk.path
        snapshot = (dict(self.vars), {k: list(v) for k, v in self.refs.items()}, self.seq, set(self.mutated_params),
                    set(self.reassigned), set(self.fresh), len(self.ret_types), list(self.reg.links_used))
        try:
            self.stmts(body, blk)
        except Untranslatable as e:
            if not self.opts.get("stub"):
                raise
            self.vars, self.refs, self.seq, self.mutated_params, self.reassigned, self.fresh = snapshot[:6]
            del self.ret_types[snapshot[6]:]
            self.reg.links_used[:] = snapshot[7]
            blk = Block(blk.path)
            reason = " ".join(str(e).split()).replace(self.qual + ": ", "", 1)
            blk.items.append(f"throw PyErr.outOfSubset   -- NOT TRANSLATED: {reason}")
            self.reg.stubs.append((self.qual, reason))
        self.path = saved
        if not blk.items:
            blk.items.append("pure ()")
        return blk

    def stmt(self, s, blk):
        if isinstance(s, ast.Expr) and isinstance(s.value, ast.Constant) and isinstance(s.value.value, str):
            return
        if isinstance(s, ast.Pass):
            return
        if isinstance(s, (ast.Import, ast.ImportFrom)):
            return          # local imports of the sequence classes
        if isinstance(s, ast.Assign):
            if len(s.targets) != 1:
                raise Untranslatable(f"{self.qual}: multiple assignment targets")
            t = s.targets[0]
            if isinstance(t, ast.Name):
                text, ty = self.expr(s.value)
                self.assign_var(blk, t.id, text, ty)
                if ty == "Msg":
                    v = s.value
                    is_fresh = isinstance(v, ast.Call) and (
                        (isinstance(v.func, ast.Attribute) and v.func.attr == "copy") or
                        (isinstance(v.func, ast.Name) and v.func.id in ("Message", "MidiMessage")))
                    (self.fresh.add if is_fresh else self.fresh.discard)(t.id)
                return
            if isinstance(t, ast.Attribute):
                if t.attr in LIST_ATTR.values():
                    name = self.lvalue_list(t)
                    if name is None:
                        raise Untranslatable(f"{self.qual}: store to {ast.unparse(t)}")
                    text, ty = self.expr(s.value)
                    if not is_list_ty(ty):
                        raise Untranslatable(f"{self.qual}: {ast.unparse(t)} = <{ty}>")
                    self.mutate_var(blk, name, text)
                    return
                text, ty = self.expr(s.value)
                self.store_field(blk, t, text, ty)
                return
            raise Untranslatable(f"{self.qual}: assignment target {ast.unparse(t)}")
        if isinstance(s, ast.AugAssign):
            sym = self.AUG.get(type(s.op))
            if sym is None:
                raise Untranslatable(f"{self.qual}: augmented operator {type(s.op).__name__}")
            text, ty = self.expr(s.value)
            if isinstance(s.target, ast.Name):
                name = s.target.id
                if name not in self.vars or self.vars[name] not in ("Int", "NInt"):
                    raise Untranslatable(f"{self.qual}: {name} {sym}= … on a non-int")
                self.ref(name)
                self.assign_var(blk, name, f"({self.lean_var(name)} {sym} {self.coerce(text, ty, 'Int', 'operand')})", "Int")
                return
            if isinstance(s.target, ast.Attribute):
                self.store_field(blk, s.target, text, ty, aug=sym)
                return
            raise Untranslatable(f"{self.qual}: augmented target {ast.unparse(s.target)}")
        if isinstance(s, ast.If) and self.only_unmodelled(s):
            blk.items.append("-- not modelled (attributes " + ", ".join(sorted(UNMODELLED_ATTRS)) + "): "
                             + " ".join(ast.unparse(s).split()))
            return
        if isinstance(s, ast.If):
            c = self.cond(s.test)
            then = self.branch(s.body, blk)
            els = self.branch(s.orelse, blk) if s.orelse else None
            blk.items.append(("if", c, then, els))
            return
        if isinstance(s, ast.For):
            self.for_stmt(s, blk)
            return
        if isinstance(s, ast.While):
            self.while_stmt(s, blk)
            return
        if isinstance(s, ast.Break):
            if self.loop_kind[-1] == "rebuild":
                raise Untranslatable(f"{self.qual}: break in a loop that stores into its loop variable")
            blk.items.append("break")
            return
        if isinstance(s, ast.Continue):
            if self.loop_kind[-1] == "rebuild":
                out, v = self.rebuild_out[-1]
                blk.items.append(f"{out} := {out} ++ [{v}]")
            if self.loop_kind[-1] == "while":
                raise Untranslatable(f"{self.qual}: continue in a while loop")
            blk.items.append("continue")
            return
        if isinstance(s, ast.Return):
            if "rebuild" in self.loop_kind:
                raise Untranslatable(f"{self.qual}: return inside a loop that stores into its loop variable")
            if s.value is None:
                self.ret_types.append("Unit")
                blk.items.append(("return", None))
            else:
                text, ty = self.expr(s.value)
                self.ret_types.append(ty)
                blk.items.append(("return", (text, ty)))
            return
        if isinstance(s, ast.Raise):
            exc = s.exc
            if isinstance(exc, ast.Call) and isinstance(exc.func, ast.Name) and exc.func.id == "SequenceException":
                blk.items.append("throw PyErr.sequenceException")
                return
            raise Untranslatable(f"{self.qual}: raise {ast.unparse(exc) if exc else ''}")
        if isinstance(s, ast.Expr) and isinstance(s.value, ast.Call):
            self.call_stmt(s.value, blk)
            return
        raise Untranslatable(f"{self.qual}: statement {type(s).__name__}: {ast.unparse(s)[:60]}")

    def call_stmt(self, n, blk):
        f = n.func
        if isinstance(f, ast.Attribute):
            # list mutators
            name = self.lvalue_list(f.value)
            if name is not None and f.attr in ("append", "extend", "insert") and not n.keywords \
                    and not (isinstance(f.value, ast.Name) and self.vars[name].startswith("Seq:")):
                v = self.lean_var(name)
                if f.attr == "append" and len(n.args) == 1:
                    t, ty = self.expr(n.args[0])
                    if ty != "Msg":
                        raise Untranslatable(f"{self.qual}: append of a {ty}")
                    self.ref(name)
                    self.mutate_var(blk, name, f"{v} ++ [{t}]")
                    return
                if f.attr == "extend" and len(n.args) == 1:
                    t, ty = self.expr(n.args[0])
                    if not is_list_ty(ty):
                        raise Untranslatable(f"{self.qual}: extend by a {ty}")
                    self.ref(name)
                    self.mutate_var(blk, name, f"{v} ++ {t}")
                    return
                if f.attr == "insert" and len(n.args) == 2:
                    i, ti = self.expr(n.args[0])
                    t, ty = self.expr(n.args[1])
                    if ty != "Msg":
                        raise Untranslatable(f"{self.qual}: insert of a {ty}")
                    if ti == "OInt":
                        # reached only where the index is known not to be None (Python: TypeError otherwise)
                        i = f"(optPy {i})"
                    else:
                        i = self.coerce(i, ti, "Int", "index")
                    self.ref(name)
                    self.mutate_var(blk, name, f"pyInsert {v} {i} {t}")
                    return
            # methods of sequence objects
            recv_cls = self.receiver_class(f.value)
            if recv_cls is not None:
                rname = f.value.id
                rv = self.lean_var(rname)
                key = (recv_cls, f.attr)
                if key in LINKS:
                    link = LINKS[key]
                    if link["kind"] != "mutator" or n.keywords:
                        raise Untranslatable(f"{self.qual}: link call {ast.unparse(n)[:60]}")
                    args = []
                    for a in n.args:
                        t, ty = self.expr(a)
                        args.append(t)
                    self.note_link(key)
                    self.ref(rname)
                    self.mutate_var(blk, rname, " ".join([link["lean"], rv] + args))
                    return
                sig = self.reg.get(recv_cls, f.attr)
                if sig is None:
                    raise Untranslatable(f"{self.qual}: call of {recv_cls}.{f.attr}, which is neither translated nor linked")
                args = self.call_args(sig, n)
                self.ref(rname)
                call = f"{sig.lean} {rv} {args}".rstrip()
                if sig.mutates and sig.ret == "Unit":
                    if self.iterating.count(rname):
                        raise Untranslatable(f"{self.qual}: {rname} is changed while it is iterated")
                    if rname == "self" or rname in [p for p, _ in self.params]:
                        self.mutated_params.add(rname)
                    blk.items.append(f"{rv} ← {call}")
                    return
                if sig.mutates:
                    raise Untranslatable(f"{self.qual}: {sig.qual} changes its receiver and returns a value")
                blk.items.append(f"let _ ← {call}")
                return
        if isinstance(f, ast.Name) and self.imported_function(f.id) is not None:
            sig = self.reg.get(None, f.id)
            if not n.args or n.keywords:
                raise Untranslatable(f"{self.qual}: call {ast.unparse(n)[:60]}")
            name = self.lvalue_list(n.args[0])
            if sig.mutates and sig.ret == "Unit" and name is not None:
                rest = ast.Call(func=f, args=n.args[1:], keywords=[])
                sub = Sig(sig.lean, sig.params[1:], sig.mutates, sig.ret, sig.qual)
                args = self.call_args(sub, rest)
                if self.iterating.count(name):
                    raise Untranslatable(f"{self.qual}: {name} is changed while it is iterated")
                if name == "self" or name in [p for p, _ in self.params]:
                    self.mutated_params.add(name)
                self.ref(name)
                v = self.lean_var(name)
                blk.items.append(f"{v} ← {sig.lean} {v} {args}".rstrip())
                return
            raise Untranslatable(f"{self.qual}: call {ast.unparse(n)[:60]} (only a function that changes its first argument, "
                                 f"a list variable, and returns nothing)")
        if isinstance(f, ast.Name) and ("util", f.id) in LINKS:
            link = LINKS[("util", f.id)]
            if link["kind"] == "mutator" and n.args and not n.keywords:
                name = self.lvalue_list(n.args[0])
                if name is None:
                    raise Untranslatable(f"{self.qual}: first argument of {f.id} is not a list variable")
                args = []
                for a in n.args[1:]:
                    t, ty = self.expr(a)
                    args.append(t)
                self.note_link(("util", f.id))
                self.ref(name)
                self.mutate_var(blk, name, " ".join([link["lean"], self.lean_var(name)] + args))
                return
        raise Untranslatable(f"{self.qual}: call statement {ast.unparse(n)[:70]}")

    def only_unmodelled(self, s):
        """an `if` without `else` that reads nothing but unmodelled attributes and constants and whose body only stores
        into unmodelled attributes: it cannot influence anything that is modelled"""
        def pure_unmodelled(e):
            if isinstance(e, ast.Constant):
                return True
            if isinstance(e, ast.Attribute) and e.attr in UNMODELLED_ATTRS and isinstance(e.value, ast.Name):
                return True
            if isinstance(e, ast.BoolOp):
                return all(pure_unmodelled(v) for v in e.values)
            if isinstance(e, ast.Compare):
                return pure_unmodelled(e.left) and all(pure_unmodelled(c) for c in e.comparators)
            if isinstance(e, ast.UnaryOp) and isinstance(e.op, ast.Not):
                return pure_unmodelled(e.operand)
            return False
        if s.orelse or not pure_unmodelled(s.test) or isinstance(s.test, ast.Constant):
            return False
        for b in s.body:
            if not (isinstance(b, ast.Assign) and len(b.targets) == 1 and isinstance(b.targets[0], ast.Attribute)
                    and b.targets[0].attr in UNMODELLED_ATTRS and pure_unmodelled(b.value)):
                return False
        return True

    def imported_function(self, name):
        """`name` is a module-level function of SPECS that this module imports with `from <module> import name`"""
        if (None, name) not in self.reg.spec:
            return None
        rel, _ = self.reg.spec[(None, name)]
        mod = rel[:-3].replace("/", ".")
        for st in module_ast(self.rel).body:
            if isinstance(st, ast.ImportFrom) and st.module == mod and any(a.name == name and a.asname is None for a in st.names):
                return rel
        return None

    def stores_into(self, body, var):
        for node in body:
            for n in ast.walk(node):
                if isinstance(n, (ast.Assign, ast.AugAssign)):
                    for t in (n.targets if isinstance(n, ast.Assign) else [n.target]):
                        if isinstance(t, ast.Attribute) and isinstance(t.value, ast.Name) and t.value.id == var:
                            return True
        return False

    def for_stmt(self, s, blk):
        if s.orelse:
            raise Untranslatable(f"{self.qual}: for … else")
        if not isinstance(s.target, ast.Name):
            raise Untranslatable(f"{self.qual}: loop target {ast.unparse(s.target)}")
        v = s.target.id
        if v in self.vars and v not in self.loop_vars_done:
            raise Untranslatable(f"{self.qual}: loop variable {v} shadows a local")
        it, ity = self.expr(s.iter)
        ety = elem_ty(ity)
        lname = self.lvalue_list(s.iter)
        rebuild = self.stores_into(s.body, v)
        if rebuild and (lname is None or ety != "Msg"):
            raise Untranslatable(f"{self.qual}: the loop over {ast.unparse(s.iter)} stores into its loop variable, "
                                 f"but the iterated expression is not a list variable (the elements may be shared)")
        self.vars[v] = ety
        self.loop_vars_done.add(v)
        saved = self.path
        body = self.new_block()
        self.path = body.path
        if lname is not None:
            self.iterating.append(lname)
        self.loop_depth += 1
        lv = self.lean_var(v)
        if rebuild:
            out = self.fresh_name("out")
            self.loop_kind.append("rebuild")
            self.rebuild_vars.append(v)
            self.rebuild_out.append((out, lv))
            blk.items.append(f"-- the loop stores into fields of its loop variable `{v}`: the list is rebuilt, every iteration emits the edited element")
            blk.items.append(f"let mut {out} : List Msg := []")
            body.items.append(f"let mut {lv} := {lv}0_")
            self.stmts(s.body, body)
            body.items.append(f"{out} := {out} ++ [{lv}]")
            self.rebuild_out.pop()
            self.rebuild_vars.pop()
            self.loop_kind.pop()
            blk.items.append(("for", f"{lv}0_", it, body))
            self.iterating.pop()
            self.path = saved
            self.ref(lname)
            self.mutate_var(blk, lname, out)
        else:
            self.loop_kind.append("for")
            self.stmts(s.body, body)
            self.loop_kind.pop()
            if not body.items:
                body.items.append("pure ()")
            blk.items.append(("for", lv, it, body))
            if lname is not None:
                self.iterating.pop()
            self.path = saved
        self.loop_depth -= 1
        del self.vars[v]

    def while_stmt(self, s, blk):
        if s.orelse:
            raise Untranslatable(f"{self.qual}: while … else")
        t = s.test
        if not (isinstance(t, ast.Compare) and len(t.ops) == 1 and isinstance(t.ops[0], (ast.Lt, ast.LtE, ast.Gt, ast.GtE))):
            raise Untranslatable(f"{self.qual}: while test {ast.unparse(t)} (only a single order comparison has a fuel rule)")
        a, ta = self.expr(t.left)
        b, tb = self.expr(t.comparators[0])
        a, b = self.coerce(a, ta, "Int", "comparison"), self.coerce(b, tb, "Int", "comparison")
        dist = f"{b} - {a}" if isinstance(t.ops[0], (ast.Lt, ast.LtE)) else f"{a} - {b}"
        fuel = self.fresh_name("fuel")
        blk.items.append(f"-- while {ast.unparse(t)}:  fuel = distance between the two sides at loop entry + 1")
        blk.items.append(f"let {fuel} : Nat := Int.toNat ({dist}) + 1")
        saved = self.path
        body = self.new_block()
        self.path = body.path
        c = self.cond(t)
        body.items.append(("if", f"!{c}", self._single("break", body), None))
        self.loop_kind.append("while")
        self.loop_depth += 1
        self.stmts(s.body, body)
        self.loop_depth -= 1
        self.loop_kind.pop()
        self.path = saved
        blk.items.append(("for", "_", f"List.replicate {fuel} ()", body))
        c2 = self.cond(t)
        blk.items.append(("if", c2, self._single("throw PyErr.fuel", blk), None))

    def _single(self, line, parent):
        b = Block(parent.path + ("s",))
        b.items.append(line)
        return b

    # ---- rendering
    def decide_declarations(self, root):
        """where each local is declared: at its first assignment if that dominates every use, else hoisted"""
        blocks = {}

        def index(b):
            blocks[b.path] = b
            for it in b.items:
                if isinstance(it, tuple):
                    for x in it:
                        if isinstance(x, Block):
                            index(x)
        index(root)
        hoist = {}
        pnames = {p for p, _ in self.params} | {"self"}
        assigns = {}

        def collect(b):
            for it in b.items:
                if isinstance(it, AssignItem):
                    assigns.setdefault(it.var, []).append((it, b))
                if isinstance(it, tuple):
                    for x in it:
                        if isinstance(x, Block):
                            collect(x)
        collect(root)
        for name, rs in self.refs.items():
            if name in pnames or name in self.loop_vars_done:
                continue
            paths = [p for _, p, _ in rs]
            common = paths[0]
            for p in paths[1:]:
                k = 0
                while k < len(common) and k < len(p) and common[k] == p[k]:
                    k += 1
                common = common[:k]
            while common not in blocks:          # synthetic single-statement blocks
                common = common[:-1]
            first_seq = min(q for q, _, _ in rs)
            decl = None
            for it, b in assigns.get(name, []):
                if it.seq == first_seq and b.path == common:
                    decl = it
            if decl is not None:
                decl.declares = True
            else:
                # no dominating first assignment: the value may be carried from one loop iteration to the next, so the
                # declaration goes to the top of the function (Python: UnboundLocalError where we read the default)
                hoist.setdefault((), []).append(name)
        return hoist

    def render(self, blk, ind, hoist, out):
        for name in hoist.get(blk.path, []):
            ty = self.vars_final[name]
            out.append(f"{ind}let mut {self.lean_var(name)} : {LEAN_TYPE[ty]} := {LEAN_DEFAULT[ty]}")
        for it in blk.items:
            if isinstance(it, str):
                out.append(ind + it)
            elif isinstance(it, AssignItem):
                v = self.lean_var(it.var)
                if it.declares:
                    out.append(f"{ind}let mut {v} : {LEAN_TYPE[self.vars_final[it.var]]} := {it.text}")
                else:
                    out.append(f"{ind}{v} := {it.text}")
            elif it[0] == "if":
                _, c, then, els = it
                out.append(f"{ind}if {c} then")
                self.render(then, ind + "  ", hoist, out)
                if els is not None:
                    out.append(f"{ind}else")
                    self.render(els, ind + "  ", hoist, out)
            elif it[0] == "for":
                _, v, e, body = it
                out.append(f"{ind}for {v} in {e} do")
                self.render(body, ind + "  ", hoist, out)
            elif it[0] == "return":
                out.append(ind + "return " + self.return_value(it[1]))
            else:
                raise AssertionError(it)

    def return_value(self, val):
        m = self.first_param if self.sig.mutates else None
        if val is None:
            return self.lean_var(m) if m else "()"
        text, ty = val
        text = self.coerce(text, ty, self.sig.ret, "return value")
        return f"({self.lean_var(m)}, {text})" if m else text

    def translate(self):
        fn = self.fn
        if fn.args.vararg or fn.args.kwarg or fn.args.kwonlyargs or fn.args.posonlyargs:
            raise Untranslatable(f"{self.qual}: parameter kinds")
        args = fn.args.args
        defaults = [None] * (len(args) - len(fn.args.defaults)) + list(fn.args.defaults)
        drop = set(self.opts.get("drop_params", []))
        sig_params = []
        for a, d in zip(args, defaults):
            if a.arg == "self":
                if self.self_ty is None:
                    raise Untranslatable(f"{self.qual}: self of an unmodelled class")
                self.vars["self"] = self.self_ty
                self.params.append(("self", self.self_ty))
                continue
            if a.arg in drop:
                # a parameter only used by stubbed branches; any use in translated code is an unknown name (loud)
                continue
            if d is not None and not (isinstance(d, ast.Constant) and d.value is None):
                raise Untranslatable(f"{self.qual}: default of {a.arg}")
            ty = self.param_type(a, d)
            self.vars[a.arg] = ty
            self.params.append((a.arg, ty))
            sig_params.append((a.arg, ty, "None" if d is not None else None))
        if not self.params:
            raise Untranslatable(f"{self.qual}: no parameters")
        self.first_param = self.params[0][0]
        self.iterating, self.loop_kind, self.rebuild_out = [], [], []
        self.loop_vars_done = set()
        root = Block(())
        self.path = ()
        self.stmts(fn.body, root)
        bad = self.mutated_params - {self.first_param}
        if bad:
            raise Untranslatable(f"{self.qual}: changes the parameter(s) {sorted(bad)} (only the first one may be changed)")
        mutates = self.first_param in self.mutated_params
        rts = set(self.ret_types) - {"Unit"}
        if len(rts) > 1:
            raise Untranslatable(f"{self.qual}: return types {sorted(rts)}")
        if rts and "Unit" in self.ret_types:
            raise Untranslatable(f"{self.qual}: returns both a value and nothing")
        ret = rts.pop() if rts else "Unit"
        lean = LEAN_NAME.get((self.cls, self.fn_name), camel(self.fn_name))
        self.sig = Sig(lean, sig_params, mutates, ret, self.qual)
        self.vars_final = dict(self.vars)
        # falling off the end
        last = [x for x in fn.body if not (isinstance(x, ast.Expr) and isinstance(x.value, ast.Constant))][-1]
        if not isinstance(last, (ast.Return, ast.Raise)):
            if ret != "Unit":
                raise Untranslatable(f"{self.qual}: may fall off the end although it returns a {ret}")
            root.items.append(("return", None))
        hoist = self.decide_declarations(root)
        if mutates and ret != "Unit":
            rty = f"List Msg × {LEAN_TYPE[ret]}"
        elif mutates:
            rty = "List Msg"
        else:
            rty = LEAN_TYPE[ret]
        head = f"def {lean} " + " ".join(f"({self.lean_var(p)} : {LEAN_TYPE[t]})" for p, t in self.params) \
               + f" : Except PyErr ({rty}) := do"
        out = [f"/-- `{self.qual}` ({self.rel}:{fn.lineno}-{fn.end_lineno})" +
               (f"; returns the new `{self.first_param}`" + (" and the return value" if ret != "Unit" else "") if mutates else "") + " -/",
               head]
        for p, _ in self.params:
            if p in self.mutated_params or p in self.reassigned:
                out.append(f"  let mut {self.lean_var(p)} := {self.lean_var(p)}")
        self.render(root, "  ", hoist, out)
        return "\n".join(out) + "\n"


PRELUDE = r'''
open SCoda

/-- what a translated function can raise -/
inductive PyErr
  | sequenceException      -- `raise SequenceException(…)`
  | indexError             -- list index out of range
  | zeroDivisionError
  | attributeError         -- attribute of `None`
  | calleeRaised           -- a linked callee (LINK TABLE) raised
  | fuel                   -- a `while` loop did not finish within its stated fuel
  | outOfSubset            -- control reached a branch that was left untranslated (stub)
  deriving DecidableEq, Repr, Inhabited

/-- nullable int field (`pyNone` = None) read into an `Option Int` local -/
def pyOpt (x : Int) : Option Int := if x == pyNone then none else some x
/-- `Option Int` local stored into a nullable int field -/
def optPy (o : Option Int) : Int := o.getD pyNone
/-- `Message.__init__`: `if self.channel is None: self.channel = 0` -/
def chanOfInt (c : Int) : Int := if c == pyNone then 0 else c
def chanOfOpt (c : Option Int) : Int := c.getD 0
/-- `msg.copy()`: a new `Message` built by `__init__` from all fields (so a `None` channel becomes 0); value semantics -/
def msgCopy (m : Msg) : Msg := { m with ch := chanOfInt m.ch }

/-- `l[i]` with Python's negative indices -/
def pyGet {α} (l : List α) (i : Int) : Except PyErr α :=
  let j : Int := if i < 0 then i + l.length else i
  if j < 0 then throw .indexError else
  match l[j.toNat]? with
  | some x => pure x
  | none => throw .indexError

/-- `l.insert(i, x)`: negative indices count from the end, everything is clamped to `[0, len]` -/
def pyInsert {α} (l : List α) (i : Int) (x : α) : List α :=
  let j : Int := if i < 0 then i + l.length else i
  let k : Nat := if j < 0 then 0 else min j.toNat l.length
  l.take k ++ x :: l.drop k

/-- `a // b` (floor division) -/
def pyFloorDiv (a b : Int) : Except PyErr Int := if b == 0 then throw .zeroDivisionError else pure (Int.fdiv a b)
/-- `a % b` (sign of the divisor) -/
def pyMod (a b : Int) : Except PyErr Int := if b == 0 then throw .zeroDivisionError else pure (Int.fmod a b)
/-- `(a / b).is_integer()` on exact rationals -/
def pyIsIntegerDiv (a b : Int) : Except PyErr Bool := if b == 0 then throw .zeroDivisionError else pure (decide (a % b = 0))

/-- `key.value` (a key is its index; AttributeError on `None`) -/
def keyValue (k : Int) : Except PyErr Int := if k == pyNone then throw .attributeError else pure k

/-- result of a function of Gen/TheoryFns.lean: `none` = raised, -1000000 = returned `None` -/
def linkTheory (o : Option Int) : Except PyErr Int :=
  match o with
  | none => throw .calleeRaised
  | some v => pure (if v == -1000000 then pyNone else v)
'''


def gen_view_fns():
    _AST_CACHE.clear()
    _DEFAULTS_SEEN.clear()
    check_message_class()
    reg = Registry()
    for rel, cls, fn, opts in SPECS:
        reg.get(cls, fn)
    L = []
    L.append("/- GENERATED by tools/py2lean.py (through tools/gen_lean.py) from /repo — do not edit.")
    L.append("   Statement-by-statement translation of view-level methods of scoda/sequences/*.py into `do` blocks over")
    L.append("   `Except PyErr`.  A sequence object is its message list; conventions: see the docstring of tools/py2lean.py.")
    L.append("   Tied to the hand models by lean/SCoda/Props/ViewTie.lean (generated = hand model, for all inputs).")
    L.append("")
    L.append("   LINK TABLE — callees that are not translated but mapped to an existing Lean function (assumptions):")
    for key in sorted(LINKS):
        used = "used" if key in reg.links_used else "unused"
        L.append(f"     {key[0]}.{key[1]} ↦ {LINKS[key]['lean']}   [{used}]  {LINKS[key]['why']}")
    L.append("   STUBS (`throw .outOfSubset`):")
    for q, why in reg.stubs:
        L.append(f"     {q}: {why}")
    L.append("   NOT TRANSLATED:")
    for q, why in NOT_TRANSLATED:
        L.append(f"     {q}: {why}")
    L.append("-/")
    L.append("import SCoda.Model.Sort")
    L.append("import SCoda.Gen.Settings")
    L.append("import SCoda.Gen.TheoryFns")
    L.append("set_option linter.unusedVariables false")
    L.append("namespace SCoda.Gen.View")
    L.append(PRELUDE)
    L.append("/-- the translated functions, in dependency order: (Python name, Lean name) -/")
    L.append("def translated : List (String × String) := [" + ", ".join(
        f'("{reg.done[k][0].qual}", "{reg.done[k][0].lean}")' for k in reg.order) + "]")
    L.append("")
    for key in reg.order:
        L.append(reg.done[key][1])
    L.append("/-- every default argument of the functions read by this translator, as written in the source -/")
    L.append("def defaults : List String := [" + ", ".join('"' + d.replace('"', "'") + '"' for d in sorted(_DEFAULTS_SEEN)) + "]")
    L.append("end SCoda.Gen.View")
    return "\n".join(L) + "\n"


if __name__ == "__main__":
    print(gen_view_fns())
