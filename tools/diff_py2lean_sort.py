#!/venv/bin/python
"""Differential check of the TRANSLATOR tools/py2lean_sort.py: the generated Lean functions of Gen/SortFns.lean are evaluated
(`lake env lean`, `#eval`) and compared with the real code in SCODA_REPO (default /repo).

    /venv/bin/python tools/diff_py2lean_sort.py [seed] [n]

  sort      random message lists (length 0..12, and 65..200 so that CPython's timsort leaves its binary-insertion regime and
            merges runs), few distinct times / channels so that ties are the rule, all nine message types, `channel = None`
            (a direct store) and `channel = -1`, notes on non-note messages, and — with a small probability — the points where
            Python raises: a note message WITHOUT a note, `time = None` on some / all messages.  The real
            `AbsoluteSequence.sort()` is run on objects; compared is the ORDER OF THE OBJECTS (`id()`s, as positions in the
            input list) with the permutation computed by the generated `sortOf` on identity-tagged messages — or the
            exception class.
  key       the key lambda (fetched from the source text of the real `sort`) on random messages against `sortKey`.
  keyLt     Python's `<` on two such key tuples against `keyLt` (value or exception class).
  __lt__    `MessageType.__lt__` on all 81 pairs and with None / an int on either side, through the real operator `<`,
            against `KVal.lt messageTypeLt`.
This is sampling of the language model SortLib and of the translation conventions; the tie to the hand model is the theorems
of Props/SortTie.lean.
"""
import ast
import os
import random
import shutil
import subprocess
import sys

REPO = os.environ.get("SCODA_REPO", "/repo")
sys.path.insert(0, REPO)
HERE = os.path.abspath(os.path.join(os.path.dirname(os.path.abspath(__file__)), ".."))

from scoda.elements.message import Message  # noqa: E402
from scoda.enumerations.message_type import MessageType as T  # noqa: E402
from scoda.sequences.absolute_sequence import AbsoluteSequence  # noqa: E402

sys.path.insert(0, os.path.join(HERE, "tools"))
from py2lean import camel  # noqa: E402

TYPES = list(T.__members__.values())
ERRNAME = {TypeError: "typeError", ValueError: "valueError"}


def L_int(v):
    if v is None:
        return "pyNone"
    return f"({v})" if v < 0 else str(v)


def L_msg(m):
    return ("{ ty := MType.%s, ch := %s, time := %s, note := %s, vel := %s }"
            % (camel(m.message_type.name.lower()), L_int(m.channel), L_int(m.time), L_int(m.note), L_int(m.velocity)))


def L_kval(v):
    if v is None:
        return "KVal.none"
    if isinstance(v, T):
        return f"(KVal.mtype MType.{camel(v.name.lower())})"
    return f"(KVal.int {L_int(v)})"


def L_key(k):
    return "[" + ", ".join(L_kval(v) for v in k) + "]" if isinstance(k, tuple) else L_kval(k)


def L_res(kind, v):
    return f"(.ok {v})" if kind == "ok" else f"(.error SortErr.{v})"


def rand_msg(rng, times, p_bad):
    t = rng.choice(TYPES)
    m = Message(message_type=t, channel=rng.choice([0, 0, 1, 2, 9]), time=rng.choice(times))
    if t in (T.NOTE_ON, T.NOTE_OFF):
        m.note = rng.choice([60, 60, 61, 62, 0, 127])
        if t == T.NOTE_ON:
            m.velocity = rng.randint(1, 127)
        if rng.random() < p_bad:
            m.note = None                       # a note message without a note (hand-built)
    elif rng.random() < 0.15:
        m.note = rng.choice([60, 61])           # a note on a non-note message
    r = rng.random()
    if r < 0.08:
        m.channel = None                        # a direct store / set_channel(None)
    elif r < 0.12:
        m.channel = -1
    if rng.random() < p_bad:
        m.time = None
    return m


def rand_list(rng, n):
    times = rng.choice([[0], [0, 1], [0, 1, 2, 3], list(range(12)), [None]])
    p_bad = rng.choice([0.0, 0.0, 0.0, 0.0, 0.0, 0.02, 0.2])
    return [rand_msg(rng, times, p_bad) for _ in range(n)]


def key_lambda():
    """the key function of the real `sort`, compiled from the source (so that it can be called on its own)"""
    src = open(os.path.join(REPO, "scoda/sequences/absolute_sequence.py")).read()
    tree = ast.parse(src)
    for c in tree.body:
        if isinstance(c, ast.ClassDef) and c.name == "AbsoluteSequence":
            for f in c.body:
                if isinstance(f, ast.FunctionDef) and f.name == "sort":
                    for n in ast.walk(f):
                        if isinstance(n, ast.keyword) and n.arg == "key":
                            return eval(compile(ast.Expression(n.value), "<key>", "eval"), {"MessageType": T})
    raise SystemExit("key lambda not found")


def attempt(f):
    try:
        return "ok", f()
    except (TypeError, ValueError) as e:
        return "err", ERRNAME[type(e)]


def main():
    seed = int(sys.argv[1]) if len(sys.argv) > 1 else 7
    n = int(sys.argv[2]) if len(sys.argv) > 2 else 300
    rng = random.Random(seed)
    key = key_lambda()
    cases = []
    raised = 0

    def add(label, lean_expr, kind, v):
        cases.append((label, f"exEq ({lean_expr}) {L_res(kind, v)}"))

    # --- sort: order of the objects
    for i in range(n):
        size = rng.randint(0, 12) if i % 6 else rng.randint(65, 200)
        ms = rand_list(rng, size)
        s = AbsoluteSequence()
        s._messages = list(ms)
        pos = {id(m): j for j, m in enumerate(ms)}
        kind, v = attempt(lambda: (s.sort(), [pos[id(m)] for m in s._messages])[1])
        raised += kind == "err"
        tagged = "([" + ", ".join(f"({j}, {L_msg(m)})" for j, m in enumerate(ms)) + "] : List (Nat × Msg))"
        add(f"sort#{i}", f"(sortOf (fun p => p.2) {tagged}).map (List.map (·.1))", kind, "[" + ", ".join(map(str, v)) + "]" if kind == "ok" else v)
        if kind == "ok" and i % 3 == 0:
            add(f"sortv#{i}", f"Gen.Sort.sort ([{', '.join(L_msg(m) for m in ms)}] : List Msg)", "ok",
                "[" + ", ".join(L_msg(m) for m in s._messages) + "]")

    # --- the key lambda and `<` on keys
    for i in range(n):
        a, b = rand_list(rng, 2)[:2] if rng.random() < 0.5 else (rand_msg(rng, [0, 1], 0.3), rand_msg(rng, [0, 1], 0.3))
        if rng.random() < 0.5:   # force a tie on the first three components
            b.time, b.channel, b.message_type = a.time, a.channel, a.message_type
        ka, kb = key(a), key(b)
        cases.append((f"key#{i}", f"decide (sortKey {L_msg(a)} = {L_key(ka)})"))
        kind, v = attempt(lambda: ka < kb)
        add(f"keyLt#{i}", f"keyLt (sortKey {L_msg(a)}) (sortKey {L_msg(b)})", kind, str(v).lower() if kind == "ok" else v)
        add(f"keyLt'#{i}", f"keyLt {L_key(ka)} {L_key(kb)}", kind, str(v).lower() if kind == "ok" else v)

    # --- `<` between key values: MessageType.__lt__ and the fallbacks
    vals = TYPES + [None, 0, 3, -1]
    for a in vals:
        for b in vals:
            kind, v = attempt(lambda: a < b)
            add(f"lt {a} {b}", f"KVal.lt messageTypeLt {L_kval(a)} {L_kval(b)}", kind, str(v).lower() if kind == "ok" else v)
            if isinstance(a, T):
                kind2, v2 = attempt(lambda: T.__lt__(a, b))
                add(f"__lt__ {a} {b}", f"messageTypeLt MType.{camel(a.name.lower())} {L_kval(b)}", kind2, str(v2).lower() if kind2 == "ok" else v2)
    # tuples of different lengths / non-tuple edge of the language model
    for ta, tb in [((), ()), ((), (1,)), ((1,), ()), ((1, None), (1, None)), ((1, None), (1, None, 2)), ((1, None, 2), (1, None)),
                   ((None, 1), (None, 2)), ((None, 2), (3, 1)), ((T.WAIT, None), (T.NOTE_ON, 3)), ((T.WAIT, None), (T.WAIT, 3)),
                   ((T.WAIT,), (None,)), ((None,), (T.WAIT,)), ((3,), (T.WAIT,)), ((T.WAIT,), (3,))]:
        kind, v = attempt(lambda: ta < tb)
        add(f"tuple {ta} {tb}", f"tupleLt (KVal.lt messageTypeLt) KVal.eq ({L_key(ta)} : List KVal) {L_key(tb)}", kind, str(v).lower() if kind == "ok" else v)

    out_dir = os.path.join(HERE, "lean", ".difftest_sort")
    os.makedirs(out_dir, exist_ok=True)
    with open(os.path.join(out_dir, "Diff.lean"), "w") as fh:
        fh.write("import SCoda.Gen.SortFns\nopen SCoda SCoda.SortLib SCoda.Gen.Sort\nset_option maxRecDepth 100000\n"
                 "def exEq {α} [BEq α] : Except SortErr α → Except SortErr α → Bool\n"
                 "  | .ok a, .ok b => a == b\n  | .error a, .error b => a == b\n  | _, _ => false\n")
        chunks = [cases[i:i + 40] for i in range(0, len(cases), 40)]
        for ci, chunk in enumerate(chunks):
            fh.write(f"def cases{ci} : List (String × Bool) := [\n")
            fh.write(",\n".join(f'  ("{lab}", {expr})' for lab, expr in chunk))
            fh.write("]\n")
        fh.write("def cases : List (String × Bool) := " + " ++ ".join(f"cases{ci}" for ci in range(len(chunks))) + "\n")
        fh.write('#eval IO.println s!"DIFF total={cases.length} failed={(cases.filter (fun c => !c.2)).map (·.1)}"\n')
    res = subprocess.run(["lake", "env", "lean", ".difftest_sort/Diff.lean"], cwd=os.path.join(HERE, "lean"), capture_output=True, text=True)
    print(res.stdout[-3000:], res.stderr[-3000:])
    print(f"sort cases in which the real sort() raised: {raised} of {n}")
    ok = "failed=[]" in res.stdout and res.returncode == 0
    if not os.environ.get("KEEP"):
        shutil.rmtree(out_dir, ignore_errors=True)
    sys.exit(0 if ok else 1)


if __name__ == "__main__":
    main()
