#!/venv/bin/python
"""Differential check of the TRANSLATOR tools/py2lean_heap2.py: the generated `relativeSequenceSplit` / `sequenceSplit2` of
Gen/HeapFns2.lean are RUN (`lake env lean --run`) against the real `RelativeSequence.split` / `Sequence.split` of SCODA_REPO
(default /repo) on random inputs, ill-formed ones included, and compared on OBJECT IDENTITY AND VALUE, with no renaming:

  * the real code is run with `Message.__init__` and `AbstractSequence.__init__` wrapped by a counter, so every object allocated during the
    call carries its ALLOCATION NUMBER; a message that existed before the call is named by the number of its object in the input
    (`s<k>`), a message allocated by the call by its allocation number (`n<j>`); pieces are named by the allocation number of their view;
  * the generated function runs on a heap that holds the input objects in cells 0…; a returned identity below the old allocation pointer
    is `s<k>`, the others `n<id - old pointer>`.
  So the two lines agree iff the translation allocates the same objects in the same order, puts the same references into the same pieces
  in the same order, gives every message the same field values, returns the same pieces, and leaves the receiver's list and the values of
  the receiver's messages as the real code leaves them (both are printed after the call).

    /venv/bin/python tools/diff_py2lean_heap2.py [n_random] [seed]

Inputs: lists of NOTE_ON / NOTE_OFF / WAIT / CONTROL_CHANGE / PROGRAM_CHANGE / TIME_SIGNATURE / KEY_SIGNATURE messages, well-formed or
not (note-offs without note-on, unclosed notes, zero waits, the SAME message object listed twice), capacities from {-3, 0, 1, 5, 12, 24, 48,
100} (0 to 4 of them).  WAITs always have an integer time (a `None` time makes the real code raise `TypeError`; see the translator's docstring).
"""
import os
import random
import subprocess
import sys
import tempfile

HERE = os.path.join(os.path.dirname(os.path.abspath(__file__)), "..")
REPO = os.environ.get("SCODA_REPO", "/repo")
sys.path.insert(0, REPO)
LEAN_DIR = os.path.join(HERE, "lean")
import logging                                                   # noqa: E402
logging.disable(logging.CRITICAL)

from scoda.elements.message import Message                        # noqa: E402
from scoda.enumerations.message_type import MessageType           # noqa: E402
from scoda.sequences.abstract_sequence import AbstractSequence    # noqa: E402
from scoda.sequences.relative_sequence import RelativeSequence    # noqa: E402
from scoda.sequences.sequence import Sequence                     # noqa: E402

TYPES = list(MessageType)
LEAN_TY = ["internal", "sequenceControl", "keySignature", "timeSignature", "controlChange", "programChange", "noteOff", "noteOn", "wait"]
FIELDS = ["channel", "time", "note", "velocity", "control", "program", "numerator", "denominator", "key"]

COUNTER = {"msg": 0, "view": 0, "on": False}
_msg_init = Message.__init__
_view_init = AbstractSequence.__init__


def msg_init(self, *a, **k):
    if COUNTER["on"]:
        self._alloc = COUNTER["msg"]
        COUNTER["msg"] += 1
    _msg_init(self, *a, **k)


def view_init(self, *a, **k):
    if COUNTER["on"]:
        self._alloc = COUNTER["view"]
        COUNTER["view"] += 1
    _view_init(self, *a, **k)


Message.__init__ = msg_init
AbstractSequence.__init__ = view_init


def nz(v):
    return -1 if v is None else int(v)


def val(m):
    return "(" + ",".join([str(TYPES.index(m.message_type))] + [str(nz(getattr(m, f))) for f in FIELDS]) + ")"


def rand_case(rng):
    """(objects: list of field tuples, list: indices into objects, capacities)"""
    n = rng.randrange(0, 10)
    objs = []
    for _ in range(n):
        r = rng.random()
        ch, note = rng.randrange(0, 3), rng.randrange(60, 63)
        if r < 0.3:
            objs.append(dict(message_type=MessageType.NOTE_ON, channel=ch, note=note, velocity=rng.randrange(1, 100)))
        elif r < 0.55:
            objs.append(dict(message_type=MessageType.NOTE_OFF, channel=ch, note=note))
        elif r < 0.85:
            objs.append(dict(message_type=MessageType.WAIT, channel=rng.choice([0, None]), time=rng.choice([0, 1, 3, 5, 7, 12, 24, 30, 60])))
        elif r < 0.9:
            objs.append(dict(message_type=MessageType.CONTROL_CHANGE, channel=ch, control=7, velocity=3))
        elif r < 0.94:
            objs.append(dict(message_type=MessageType.PROGRAM_CHANGE, channel=ch, program=rng.randrange(0, 5)))
        elif r < 0.97:
            objs.append(dict(message_type=MessageType.TIME_SIGNATURE, numerator=3, denominator=4))
        else:
            objs.append(dict(message_type=MessageType.KEY_SIGNATURE, key=2))
    lst = list(range(n))
    if n and rng.random() < 0.15:                      # the same object listed twice
        lst.insert(rng.randrange(n + 1), rng.randrange(n))
    if n and rng.random() < 0.1:
        rng.shuffle(lst)
    caps = [rng.choice([-3, 0, 1, 5, 12, 24, 48, 100]) for _ in range(rng.randrange(0, 5))]
    return objs, lst, caps


FIXED = [
    ([dict(message_type=MessageType.NOTE_ON, channel=0, note=60, velocity=64), dict(message_type=MessageType.WAIT, time=24),
      dict(message_type=MessageType.NOTE_OFF, channel=0, note=60), dict(message_type=MessageType.WAIT, time=72)], [0, 1, 2, 3], [12]),
    ([dict(message_type=MessageType.NOTE_ON, channel=0, note=60, velocity=64), dict(message_type=MessageType.NOTE_ON, channel=1, note=61, velocity=5),
      dict(message_type=MessageType.WAIT, time=100)], [0, 1, 2], [10, 10, 10, 10]),
    ([dict(message_type=MessageType.WAIT, time=10), dict(message_type=MessageType.NOTE_ON, channel=0, note=60, velocity=64)], [0, 1], [10, 0]),
    ([], [], [5]), ([dict(message_type=MessageType.WAIT, time=10)], [0], []),
    ([dict(message_type=MessageType.WAIT, time=10)], [0, 0, 0], [15, 5]),
]


def name_of(m, src_objs):
    for k, o in enumerate(src_objs):
        if o is m:
            return f"s{k}"
    return f"n{m._alloc}"


def real_rel(objs, lst, caps):
    src_objs = [Message(**o) for o in objs]
    view = RelativeSequence()
    view._messages = [src_objs[i] for i in lst]
    COUNTER.update(msg=0, view=0, on=True)
    try:
        pieces = view.split(list(caps))
        head = "ok"
    except Exception as e:                            # noqa: BLE001
        pieces, head = [], "EXC " + type(e).__name__
    finally:
        COUNTER["on"] = False
    out = [head]
    for p in pieces:
        out.append(f"v{p._alloc}:" + " ".join(name_of(m, src_objs) + val(m) for m in p._messages))
    out.append("src:" + " ".join(name_of(m, src_objs) for m in view._messages))
    out.append("vals:" + " ".join(val(m) for m in src_objs))
    out.append(f"alloc:{COUNTER['msg']},{COUNTER['view']}")
    return " | ".join(out)


def real_seq(objs, lst, caps):
    src_objs = [Message(**o) for o in objs]
    view = RelativeSequence()
    view._messages = [src_objs[i] for i in lst]
    seq = Sequence(relative_sequence=view)
    COUNTER.update(msg=0, view=0, on=True)
    try:
        pieces = seq.split(list(caps))
        head = "ok"
    except Exception as e:                            # noqa: BLE001
        pieces, head = [], "EXC " + type(e).__name__
    finally:
        COUNTER["on"] = False
    out = [head]
    for p in pieces:
        assert p._abs_stale and not p._rel_stale and getattr(p, "_abs", None) is None
        out.append(f"v{p._rel._alloc}:" + " ".join(name_of(m, src_objs) + val(m) for m in p._rel._messages))
    out.append("src:" + " ".join(name_of(m, src_objs) for m in view._messages))
    out.append("vals:" + " ".join(val(m) for m in src_objs))
    out.append(f"alloc:{COUNTER['msg']},{COUNTER['view']}")
    return " | ".join(out)


def lean_msg(o):
    t = LEAN_TY[TYPES.index(o["message_type"])]
    g = lambda f: nz(o.get(f))                        # noqa: E731
    ch = 0 if o.get("channel") is None else o["channel"]
    return (f"{{ ty := .{t}, ch := {ch}, time := {g('time')}, note := {g('note')}, vel := {g('velocity')}, ctl := {g('control')}, "
            f"prog := {g('program')}, num := {g('numerator')}, den := {g('denominator')}, key := {g('key')} }}")


DRIVER = r'''
import SCoda.Gen.HeapFns2
open SCoda SCoda.HeapOps SCoda.HeapLib SCoda.Gen

def tyNo (t : MType) : Nat := t.rank
def showMsg (m : Msg) : String :=
  "(" ++ ",".intercalate ([toString (tyNo m.ty)] ++ [m.ch, m.time, m.note, m.vel, m.ctl, m.prog, m.num, m.den, m.key].map toString) ++ ")"
def nameOf (n0 i : Nat) : String := if i < n0 then s!"s{i}" else s!"n{i - n0}"
def orc0 : Orc where
  toAbs := id
  toRel := id
  edit := fun _ v => v
  plan := fun _ _ => []
  perm := fun _ _ => []
  splitPlan := fun _ _ => []
  padMsg := fun _ _ => none
  barPadMsg := fun _ _ => none
  barSig := fun _ _ => (4, 4, -1)
  program := fun _ _ => -1
  tsMsg := fun n d => { ty := .timeSignature, num := n, den := d }
def gorc : GOrc := { orc := orc0, barPadDec := fun _ _ => false }

def errName : HErr → String
  | .index => "IndexError" | .fuel => "FUEL" | .stale => "SequenceException" | .seqError => "SequenceException" | .noneAttr => "AttributeError"

/-- the input heap: the objects in message cells 0…, the receiver's view in list cell 0 -/
def mkHeap (objs : List Msg) (lst : List Nat) : Heap := ((newMsgs Heap.empty objs).1.newLst lst).1

def caseRel (objs : List Msg) (lst : List Nat) (caps : List Int) : String :=
  let h0 := mkHeap objs lst
  let r := HeapFns2.relativeSequenceSplit gorc 0 0 caps h0
  let h := r.2
  let (head, pieces) := match r.1 with | .ok ps => ("ok", ps) | .error e => ("EXC " ++ errName e, [])
  let ps := pieces.map (fun p => s!"v{p - h0.nLst}:" ++ " ".intercalate ((h.lst p).map (fun i => nameOf h0.nMsg i ++ showMsg (h.msg i))))
  " | ".intercalate ([head] ++ ps ++ ["src:" ++ " ".intercalate ((h.lst 0).map (nameOf h0.nMsg)),
    "vals:" ++ " ".intercalate ((List.range h0.nMsg).map (fun i => showMsg (h.msg i))), s!"alloc:{h.nMsg - h0.nMsg},{h.nLst - h0.nLst}"])

def caseSeq (objs : List Msg) (lst : List Nat) (caps : List Int) : String :=
  let h0 := ((mkHeap objs lst).newSeq { abs := none, rel := some 0, absStale := true, relStale := false }).1
  let r := HeapFns2.sequenceSplit2 gorc 0 0 caps h0
  let h := r.2
  let (head, pieces) := match r.1 with | .ok ps => ("ok", ps) | .error e => ("EXC " ++ errName e, [])
  let ps := pieces.map (fun s =>
    let c := h.seq s
    match c.rel, c.abs, c.absStale, c.relStale with
    | some p, none, true, false => s!"v{p - h0.nLst}:" ++ " ".intercalate ((h.lst p).map (fun i => nameOf h0.nMsg i ++ showMsg (h.msg i)))
    | _, _, _, _ => "BAD WRAPPER")
  " | ".intercalate ([head] ++ ps ++ ["src:" ++ " ".intercalate ((h.lst 0).map (nameOf h0.nMsg)),
    "vals:" ++ " ".intercalate ((List.range h0.nMsg).map (fun i => showMsg (h.msg i))), s!"alloc:{h.nMsg - h0.nMsg},{h.nLst - h0.nLst}"])

'''


def main():
    n_random = int(sys.argv[1]) if len(sys.argv) > 1 else 400
    seed = int(sys.argv[2]) if len(sys.argv) > 2 else 8
    rng = random.Random(seed)
    cases = list(FIXED) + [rand_case(rng) for _ in range(n_random)]
    want, defs = [], []
    for objs, lst, caps in cases:
        lo = "[" + ", ".join(lean_msg(o) for o in objs) + "]"
        ll = "[" + ", ".join(map(str, lst)) + "]"
        lc = "[" + ", ".join(f"({c})" for c in caps) + "]"
        want.append("R " + real_rel(objs, lst, caps))
        defs.append(f'"R " ++ caseRel {lo} {ll} {lc}')
        want.append("S " + real_seq(objs, lst, caps))
        defs.append(f'"S " ++ caseSeq {lo} {ll} {lc}')
    lines = [f"def c{i} : String := {d}" for i, d in enumerate(defs)]
    chunks = [list(range(i, min(i + 20, len(defs)))) for i in range(0, len(defs), 20)]
    for k, ch in enumerate(chunks):
        lines.append(f"def chunk{k} : List String := [" + ", ".join(f"c{i}" for i in ch) + "]")
    lines.append("def main : IO Unit := do")
    for k in range(len(chunks)):
        lines.append(f"  chunk{k}.forM IO.println")
    with tempfile.NamedTemporaryFile("w", suffix=".lean", dir=LEAN_DIR, prefix="HeapGen2Driver_", delete=False) as f:
        f.write(DRIVER + "\n".join(lines) + "\n")
        path = f.name
    try:
        p = subprocess.run(["lake", "env", "lean", "--run", path], cwd=LEAN_DIR, capture_output=True, text=True)
    finally:
        os.unlink(path)
    if p.returncode != 0:
        raise SystemExit("driver failed:\n" + (p.stdout + p.stderr)[-3000:])
    got = [ln for ln in p.stdout.split("\n") if ln.startswith(("R ", "S "))]
    if len(got) != len(want):
        print(f"{len(want)} answers expected, {len(got)} received")
        return 1
    bad = 0
    stats = {"pieces>1": 0, "fresh msgs": 0, "shared msgs": 0, "dup object": 0, "exc": 0}
    for (objs, lst, caps), k in zip(cases, range(0, len(want), 2)):
        for j in (k, k + 1):
            if want[j] != got[j]:
                bad += 1
                if bad <= 10:
                    print("DIFFERENCE", [(o["message_type"].name, {a: b for a, b in o.items() if a != "message_type"}) for o in objs], lst, caps)
                    print("  real     :", want[j][:1500])
                    print("  generated:", got[j][:1500])
        w = want[k]
        stats["pieces>1"] += w.count(" | v") > 1
        stats["fresh msgs"] += w.count(" n") + w.count(":n")
        stats["shared msgs"] += w.split(" | src:")[0].count("s")
        stats["dup object"] += len(set(lst)) < len(lst)
        stats["exc"] += w.startswith("R EXC")
    print(f"{len(cases)} inputs x 2 functions compared, {bad} differences; " + ", ".join(f"{a} {b}" for a, b in stats.items()))
    return 1 if bad else 0


if __name__ == "__main__":
    sys.exit(main())
