#!/bin/bash
# Mutation self-test of the identity tie (tools/py2lean_heap.py + lean/SCoda/Props/HeapTie.lean).
#
# For each small IDENTITY-CHANGING edit of a scratch COPY of the S-Coda source: regenerate lean/SCoda/Gen/HeapFns.lean from the copy,
# check that the generated text changed (or that generation failed loudly: the edit was refused), and check that
# `lake build SCoda.Props.HeapTie` FAILS.  On the unedited source it must PASS (checked first and last; the last run also restores the
# generated file).  /repo and /verif are never written; scratch copies are removed.
#
#   usage: [ORIG=<source root, default /repo>] tools/test_py2lean_heap.sh      (works on the copy of the framework it lives in)
set -u
HERE="$(cd "$(dirname "$0")/.." && pwd)"
SCRATCH="${SCRATCH:-$HERE/../scratch_mut}"
PY=/venv/bin/python
ORIG="${ORIG:-/repo}"
fail=0

regen_and_build() {   # $1 = repo root to translate; prints PASS / FAIL(gen) / FAIL(build)
  if ! ( cd "$HERE" && SCODA_REPO="$1" $PY tools/py2lean_heap.py > "$SCRATCH/HeapFns.new" 2> "$SCRATCH/gen.err" ); then echo "FAIL(gen)"; return; fi
  cp "$SCRATCH/HeapFns.new" "$HERE/lean/SCoda/Gen/HeapFns.lean"
  if ( cd "$HERE/lean" && lake build SCoda.Props.HeapTie > "$SCRATCH/last.log" 2>&1 ); then echo "PASS"; else echo "FAIL(build)"; fi
}

mutant() {   # $1 = name, $2 = file below scoda/, $3 = python regex, $4 = replacement, $5 = description
  local name="$1" file="$2" pat="$3" rep="$4" desc="$5"
  local root="$SCRATCH/$name"
  rm -rf "$root"; mkdir -p "$root"; cp -r "$ORIG/scoda" "$root/scoda"
  if ! $PY - "$root/scoda/$file" "$pat" "$rep" <<'PYEOF'
import re, sys
path, pat, rep = sys.argv[1:4]
src = open(path).read()
new, n = re.subn(pat, rep, src, count=1, flags=re.S)
if n != 1 or new == src:
    sys.exit(1)
open(path, "w").write(new)
PYEOF
  then echo "$name: the edit did not apply (source changed?)"; fail=1; return; fi
  cp "$HERE/lean/SCoda/Gen/HeapFns.lean" "$SCRATCH/HeapFns.before"
  local res; res=$(regen_and_build "$root")
  local changed="generated text changed"
  cmp -s "$SCRATCH/HeapFns.before" "$HERE/lean/SCoda/Gen/HeapFns.lean" && changed="GENERATED TEXT UNCHANGED"
  local why=""
  if [ "$res" = "FAIL(build)" ]; then why=$(grep -m1 -o 'error: [^ ]*\(HeapTie\|HeapTieL\|HeapTieL2\|HeapFns\).lean:[0-9]*' "$SCRATCH/last.log" | sed 's/error: //'); fi
  if [ "$res" = "FAIL(gen)" ]; then why="refused: $(tail -1 "$SCRATCH/gen.err" | cut -c1-190)"; changed="generation refused"; fi
  echo "$name: $desc"
  echo "    -> $changed; HeapTie build: $res  $why"
  if [ "$res" = "PASS" ] || [ "$changed" = "GENERATED TEXT UNCHANGED" ]; then echo "    !! MUTANT SURVIVED"; fail=1; fi
  rm -rf "$root"
}

mkdir -p "$SCRATCH"
echo "== original source ($ORIG)"
t0=$(date +%s); r=$(regen_and_build "$ORIG"); t1=$(date +%s)
echo "original: HeapTie build: $r ($((t1 - t0)) s)"
[ "$r" = "PASS" ] || { echo "!! the unedited source does not pass"; fail=1; }

echo "== route (1): Message.copy / AbstractSequence / Sequence.copy"
mutant m1_copy_is_self elements/message.py \
  'cpy = self\.__class__\(\s*message_type=self\.message_type,.*?key=self\.key\s*\)' 'cpy = self' \
  "Message.copy returns the message itself (cpy = self)"
mutant m2_field_swapped elements/message.py \
  'velocity=self\.velocity,' 'velocity=self.note,' \
  "Message.copy hands the note to the velocity parameter"
mutant m3_list_shared sequences/abstract_sequence.py \
  'self\._messages = \[\]\n\n\s+if messages is not None:\n\s+self\._messages\.extend\(messages\)' 'self._messages = messages' \
  "AbstractSequence.__init__ keeps the caller's list object instead of rebuilding it (must be refused: a shared list)"
mutant m4_messages_shared sequences/abstract_sequence.py \
  '\[msg\.copy\(\) for msg in self\._messages\]' '[msg for msg in self._messages]' \
  "AbstractSequence.copy: the new view holds the SAME message objects"
mutant m5_view_shared sequences/sequence.py \
  'cpy_rel = self\.rel\.copy\(\)' 'cpy_rel = self.rel' \
  "Sequence.copy: the copy holds the original's relative view object"
mutant m6_flag sequences/sequence.py \
  'self\._rel = relative_sequence\n(\s+)self\.invalidate_abs\(\)\n(\s+)self\._rel_stale = False' 'self._rel = relative_sequence\n\1self.invalidate_abs()\n\2self._rel_stale = True' \
  "Sequence.__init__(relative_sequence=…) leaves the relative view marked stale"
mutant m7_stale_copied sequences/sequence.py \
  'if not self\._abs_stale:\n(\s+)cpy_abs = self\.abs\.copy\(\)' 'if True:\n\1cpy_abs = self.abs.copy()' \
  "Sequence.copy copies the absolute view even when it is stale (regenerates it in the ORIGINAL: a write of the source)"
echo "== route (2): Sequence.split"
mutant s1_split_shared sequences/sequence.py \
  'Sequence\(relative_sequence=seq\.copy\(\)\) for seq in relative_sequences' 'Sequence(relative_sequence=seq) for seq in relative_sequences' \
  "Sequence.split wraps the pieces themselves, which share message objects with the source (the repair of D13 reverted)"
echo "== route (3): Bar"
mutant b1_same_sequence elements/bar.py \
  'cpy = self\.__class__\(self\.sequence\.copy\(\),' 'cpy = self.__class__(self.sequence,' \
  "Bar.copy constructs the new bar on the SAME Sequence object"
mutant b6_other_object elements/bar.py \
  'cpy = self\.__class__\(self\.sequence\.copy\(\),' 'cpy = self.__class__(Sequence(),' \
  "Bar.copy passes a different object than self.sequence.copy(): a new empty Sequence"
mutant b7_stored_channel elements/bar.py \
  '(self\.key_signature = key\n)' '\1        self.default_channel = default_channel\n' \
  "Bar.__init__ stores default_channel in an attribute the cells do not have (the first repair of D37, f9ef398; must be refused)"
mutant b9_copy_reads_abs elements/bar.py \
  'for msg in self\.sequence\.rel\._messages' 'for msg in self.sequence.abs._messages' \
  "Bar.copy looks for the time signature through the ABSOLUTE view (regenerates another view of the ORIGINAL: another write of the source)"
mutant b10_copy_no_read elements/bar.py \
  'time_signature = next\(\(msg for msg in self\.sequence\.rel\._messages\n\s+if msg\.message_type == MessageType\.TIME_SIGNATURE\), None\)' 'time_signature = None' \
  "Bar.copy does not read the relative view of the original (HeapOps.barCopy reads it: readRel)"
mutant b8_ts_channel elements/bar.py \
  'channel=default_channel,' 'channel=0,' \
  "the TIME_SIGNATURE message no longer takes its channel from default_channel (the oracle entry is keyed by the source text)"
mutant b2_no_copy_of_ts elements/bar.py \
  'self\.sequence\._abs_stale = True' 'pass' \
  "Bar.__init__ does not invalidate the absolute view at the end"
mutant b3_overwrite_shares elements/bar.py \
  'self\.sequence\.overwrite_relative_messages\(\[msg for msg in self\.sequence\.messages_rel\(\) if\n\s+msg\.message_type != MessageType\.TIME_SIGNATURE\]\)' 'self.sequence.overwrite_relative_messages([msg.copy() for msg in self.sequence.messages_rel() if msg.message_type != MessageType.TIME_SIGNATURE])' \
  "Bar.__init__ rebuilds the relative view from COPIES of the kept messages (fresh objects where the model keeps the old ones)"
mutant b4_index elements/bar.py \
  'denominator=self\.time_signature_denominator\), index=0\)' 'denominator=self.time_signature_denominator), index=None)' \
  "Bar.__init__ appends the TIME_SIGNATURE message instead of inserting it at index 0"
mutant b5_overwrite_alias sequences/sequence.py \
  'rel = RelativeSequence\(\)\n(\s+)for msg in messages:\n\s+rel\.add_message\(msg\)' 'rel = RelativeSequence()\n\1rel._messages = messages' \
  "overwrite_relative_messages takes over the caller's list object (must be refused: a shared list)"

echo "== route (3): Track / Composition"
mutant t1_bars_shared elements/track.py \
  '\[bar\.copy\(\) for bar in self\.bars\]' '[bar for bar in self.bars]' \
  "Track.copy: the new track holds the SAME bar objects"
mutant t2_list_and_bars_shared elements/track.py \
  'self\.__class__\(\[bar\.copy\(\) for bar in self\.bars\], self\.name\)' 'self.__class__(self.bars, self.name)' \
  "Track.copy hands the source's own list of bars to the constructor"
mutant t3_tracks_shared elements/composition.py \
  '\[track\.copy\(\) for track in self\.tracks\]' '[track for track in self.tracks]' \
  "Composition.copy: the new composition holds the SAME track objects"
mutant t4_to_sequence_copies elements/bar.py \
  'sequences\.append\(bar\.sequence\)' 'sequences.append(bar.sequence.copy())' \
  "Bar.to_sequence concatenates COPIES of the bars' sequences (fresh message objects where the model shares them)"
mutant t5_program_last elements/track.py \
  'self\.program = program_changes\[0\]\.program' 'self.program = program_changes[1].program' \
  "Track.__init__ takes the program of the second PROGRAM_CHANGE"

echo "== original source again (restores the generated file)"
r=$(regen_and_build "$ORIG")
echo "original: HeapTie build: $r"
[ "$r" = "PASS" ] || { echo "!! the unedited source does not pass"; fail=1; }
rm -rf "$SCRATCH"
[ $fail = 0 ] && echo "SELF-TEST OK: every edit changed the generated text (or was refused) and broke the build; the original passes" || echo "SELF-TEST FAILED"
exit $fail
