#!/venv/bin/python
"""Differential check of the TRANSLATOR (tools/py2lean.py): the generated Lean functions of Gen/ViewFns.lean are run
(`lake env lean`, kernel-independent `#eval`) on random inputs and compared with what the real implementation in
SCODA_REPO (default /repo) does on the same inputs — including inputs outside the domain of the hand models
(channel None, negative insert indices, empty lists, factors 0 and -2).

    /venv/bin/python tools/diff_py2lean.py [cases-per-function] [seed]

This is sampling, and it checks the translation conventions (pyGet, pyInsert, msgCopy, None handling, error mapping),
not the hand models: those are tied to the generated functions by the theorems of Props/ViewTie.lean.
"""
import os
import random
import subprocess
import sys

REPO = os.environ.get("SCODA_REPO", "/repo")
sys.path.insert(0, REPO)
HERE = os.path.join(os.path.dirname(os.path.abspath(__file__)), "..")

from scoda.elements.message import Message                      # noqa: E402
from scoda.enumerations.message_type import MessageType as T     # noqa: E402
from scoda.exceptions.sequence_exception import SequenceException  # noqa: E402
from scoda.misc.music_theory import Key                          # noqa: E402
from scoda.misc.util import binary_insort                        # noqa: E402
from scoda.sequences.absolute_sequence import AbsoluteSequence   # noqa: E402
from scoda.sequences.relative_sequence import RelativeSequence   # noqa: E402

KEYS = list(Key)
TYPES = list(T)


def camel(name):
    parts = name.lower().split("_")
    return parts[0] + "".join(p.capitalize() for p in parts[1:])


def L_int(v):
    if v is None:
        return "pyNone"
    return f"({v})" if v < 0 else str(v)


def L_msg(m):
    key = None if m.key is None else KEYS.index(m.key)
    return ("{ ty := MType.%s, ch := %s, time := %s, note := %s, vel := %s, ctl := %s, prog := %s, num := %s, den := %s, key := %s }"
            % (camel(m.message_type.name), L_int(m.channel), L_int(m.time), L_int(m.note), L_int(m.velocity),
               L_int(m.control), L_int(m.program), L_int(m.numerator), L_int(m.denominator), L_int(key)))


def L_list(ms):
    return "([" + ", ".join(L_msg(m) for m in ms) + "] : List Msg)"


def L_bool(b):
    return "true" if b else "false"


ERR = {IndexError: "indexError", ZeroDivisionError: "zeroDivisionError", SequenceException: "sequenceException",
       ValueError: "calleeRaised"}


def rand_msg(rng, absolute, wild=False):
    t = rng.choice(TYPES)
    ch = rng.choice([0, 1, 2, 3])
    m = Message(message_type=t, channel=ch)
    if t in (T.NOTE_ON, T.NOTE_OFF):
        m.note = rng.randint(-60, 200) if wild else rng.randint(20, 110)
        if t == T.NOTE_ON:
            m.velocity = rng.randint(1, 127)
    if t == T.KEY_SIGNATURE:
        m.key = rng.choice(KEYS)
    if t == T.TIME_SIGNATURE:
        m.numerator, m.denominator = rng.choice([(4, 4), (3, 4), (6, 8)])
    if absolute:
        m.time = rng.randint(0, 12)
    elif t == T.WAIT:
        m.time = rng.randint(0, 8)
    if rng.random() < 0.08:
        m.channel = None          # what set_channel(None) or a direct store produces
    return m


def rand_list(rng, absolute, wild=False, maxlen=7):
    return [rand_msg(rng, absolute, wild) for _ in range(rng.randint(0, maxlen))]


def copies(ms):
    out = []
    for m in ms:
        c = m.copy()
        c.channel = m.channel     # copy() turns a None channel into 0; the input of the run must be the same object state
        out.append(c)
    return out


def run(fn):
    """(kind, value): ("ok", v) | ("err", lean error name) | ("skip", reason)"""
    try:
        return "ok", fn()
    except tuple(ERR) as e:
        return "err", ERR[type(e)]
    except TypeError as e:       # arithmetic on None: outside the conventions of the translation
        return "skip", str(e)


def main():
    n = int(sys.argv[1]) if len(sys.argv) > 1 else 40
    rng = random.Random(int(sys.argv[2]) if len(sys.argv) > 2 else 20260930)
    cases = []   # (label, lean expression : Bool)

    def add(label, lean_call, kind, expected):
        if kind == "skip":
            return
        rhs = f"Except.ok {expected}" if kind == "ok" else f"Except.error PyErr.{expected}"
        cases.append((label, f"decide (Gen.View.{lean_call} = {rhs})"))

    for i in range(n):
        r = rand_list(rng, False)
        a = rand_list(rng, True)
        # pad
        k = rng.randint(0, 30)
        s = RelativeSequence(messages=copies(r))
        kind, _ = run(lambda: s.pad(k))
        add(f"pad#{i}", f"pad {L_list(r)} {L_int(k)}", kind, L_list(s._messages) if kind == "ok" else _)
        # set_channel
        c = rng.choice([0, 5, None])
        s = RelativeSequence(messages=copies(r))
        s.set_channel(c)
        add(f"set_channel#{i}", f"setChannel {L_list(r)} {L_int(c)}", "ok", L_list(s._messages))
        # concatenate
        others = [rand_list(rng, False, maxlen=3) for _ in range(rng.randint(0, 3))]
        s = RelativeSequence(messages=copies(r))
        s.concatenate([RelativeSequence(messages=copies(o)) for o in others])
        add(f"concatenate#{i}", f"concatenate {L_list(r)} [{', '.join(L_list(o) for o in others)}]", "ok", L_list(s._messages))
        # add_message
        m = rand_msg(rng, False)
        idx = rng.choice([None, 0, 1, 2, 9, -1, -2, -9])
        s = RelativeSequence(messages=copies(r))
        s.add_message(m, idx)
        add(f"add_message#{i}", f"addMessage {L_list(r)} {L_msg(m)} {'none' if idx is None else '(some ' + L_int(idx) + ')'}",
            "ok", L_list(s._messages))
        # to_absolute_sequence
        s = RelativeSequence(messages=copies(r))
        kind, v = run(lambda: s.to_absolute_sequence())
        add(f"to_absolute_sequence#{i}", f"toAbsoluteSequence {L_list(r)}", kind, L_list(v._messages) if kind == "ok" else v)
        # scale
        f = rng.choice([1, 2, 3, 7, 0, -2])
        s = RelativeSequence(messages=copies(r))
        kind, v = run(lambda: s.scale(f))
        add(f"scale#{i}", f"scale {L_list(r)} {L_int(f)}", kind, L_list(s._messages) if kind == "ok" else v)
        # transpose
        rw = rand_list(rng, False, wild=True)
        by = rng.choice([0, 1, -1, 5, 12, -13, 40, -40])
        s = RelativeSequence(messages=copies(rw))
        kind, v = run(lambda: s.transpose(by))
        add(f"transpose#{i}", f"transpose {L_list(rw)} {L_int(by)}", kind,
            f"({L_list(s._messages)}, {L_bool(v)})" if kind == "ok" else v)
        # is_empty
        add(f"is_empty#{i}", f"isEmpty {L_list(r)}", "ok", L_bool(RelativeSequence(messages=copies(r)).is_empty()))
        # to_relative_sequence
        s = AbsoluteSequence(messages=copies(a))
        kind, v = run(lambda: s.to_relative_sequence())
        add(f"to_relative_sequence#{i}", f"toRelativeSequence {L_list(a)}", kind, L_list(v._messages) if kind == "ok" else v)
        # get_sequence_duration
        s = AbsoluteSequence(messages=copies(a))
        kind, v = run(lambda: s.get_sequence_duration())
        add(f"get_sequence_duration#{i}", f"getSequenceDuration {L_list(a)}", kind, L_int(v) if kind == "ok" else v)
        # is_channel_consistent
        add(f"is_channel_consistent#{i}", f"isChannelConsistent {L_list(a)}", "ok",
            L_bool(AbsoluteSequence(messages=copies(a)).is_channel_consistent()))
        # binary_insort / add_message on a sorted list
        srt = sorted(copies(a), key=lambda x: x.time)
        m = rand_msg(rng, True)
        coll = copies(srt)
        binary_insort(coll, m)
        add(f"binary_insort#{i}", f"binaryInsort {L_list(srt)} {L_msg(m)}", "ok", L_list(coll))
        coll2 = copies(a)          # unsorted input: the bisection is what it is
        binary_insort(coll2, m)
        add(f"binary_insort_unsorted#{i}", f"absAddMessage {L_list(a)} {L_msg(m)}", "ok", L_list(coll2))

        # get_sequence_channel
        s = AbsoluteSequence(messages=copies(a))
        kind, v = run(lambda: s.get_sequence_channel())
        add(f"get_sequence_channel#{i}", f"getSequenceChannel {L_list(a)}", kind, L_int(v) if kind == "ok" else v)
        # to_midi_track().to_mido_track(), mido messages encoded as MidiEv like harness/pyimpl.py op_toMido
        s = RelativeSequence(messages=copies(r))

        def mido_events():
            out = []
            for mm in s.to_midi_track().to_mido_track():
                e = Message(message_type={"note_on": T.NOTE_ON, "note_off": T.NOTE_OFF, "time_signature": T.TIME_SIGNATURE,
                                          "key_signature": T.KEY_SIGNATURE, "control_change": T.CONTROL_CHANGE}[mm.type])
                e.time = mm.time
                e.channel = None if mm.is_meta else mm.channel
                if mm.type in ("note_on", "note_off"):
                    e.note, e.velocity = mm.note, mm.velocity
                elif mm.type == "time_signature":
                    e.numerator, e.denominator = mm.numerator, mm.denominator
                elif mm.type == "key_signature":
                    e.key = Key(mm.key)
                else:
                    e.control, e.velocity = mm.control, mm.value
                out.append(e)
            return out
        try:
            kind, v = run(mido_events)
        except AttributeError:
            kind, v = "err", "attributeError"
        if not (kind == "err" and v == "calleeRaised"):       # ValueError here = mido's own range validation
            add(f"to_mido#{i}", f"toMidiTrack {L_list(r)} >>= Gen.View.toMidoTrack", kind, L_list(v) if kind == "ok" else v)

    # merge needs the linked sort: only inputs without channel None (sort key maps None to -1, the model keeps pyNone = -1 too)
    for i in range(n):
        a = rand_list(rng, True)
        others = [rand_list(rng, True, maxlen=3) for _ in range(rng.randint(0, 3))]
        s = AbsoluteSequence(messages=copies(a))
        s.merge([AbsoluteSequence(messages=copies(o)) for o in others])
        add(f"merge#{i}", f"merge {L_list(a)} [{', '.join(L_list(o) for o in others)}]", "ok", L_list(s._messages))

    out_dir = os.path.join(HERE, "lean", ".difftest")
    os.makedirs(out_dir, exist_ok=True)
    path = os.path.join(out_dir, "Diff.lean")
    with open(path, "w") as fh:
        fh.write("import SCoda.Lemmas.ViewTieL\nopen SCoda SCoda.Gen.View SCoda.ViewTieL\n")
        chunks = [cases[i:i + 150] for i in range(0, len(cases), 150)]
        for ci, chunk in enumerate(chunks):
            fh.write(f"def cases{ci} : List (String × Bool) := [\n")
            fh.write(",\n".join(f'  ("{lab}", {expr})' for lab, expr in chunk))
            fh.write("]\n")
        fh.write("def cases : List (String × Bool) := " + " ++ ".join(f"cases{ci}" for ci in range(len(chunks))) + "\n")
        fh.write('#eval IO.println s!"DIFF total={cases.length} failed={(cases.filter (fun c => !c.2)).map (·.1)}"\n')
    res = subprocess.run(["lake", "env", "lean", ".difftest/Diff.lean"], cwd=os.path.join(HERE, "lean"),
                         capture_output=True, text=True)
    print(res.stdout[-3000:], res.stderr[-3000:])
    ok = "failed=[]" in res.stdout and res.returncode == 0
    import shutil
    shutil.rmtree(out_dir, ignore_errors=True)
    sys.exit(0 if ok else 1)


if __name__ == "__main__":
    main()
