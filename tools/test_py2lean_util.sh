#!/bin/bash
# Mutation self-test of the util tie (tools/py2lean_util.py + lean/SCoda/Props/UtilTie.lean).
#
# For each small semantic edit of a scratch COPY of /repo/scoda: regenerate lean/SCoda/Gen/*.lean from the copy
# (SCODA_REPO=<copy> tools/gen_lean.py), check that Gen/UtilFns.lean changed, and check that
# `lake build SCoda.Props.UtilTie` FAILS (or that generation fails loudly).  On the unedited source it must PASS (checked
# first and last; the last run also restores the generated files).  /repo and /verif are never written; scratch copies are removed.
#
#   usage: tools/test_py2lean_util.sh            (from anywhere; works on the copy of the framework it lives in)
set -u
HERE="$(cd "$(dirname "$0")/.." && pwd)"
SCRATCH="${SCRATCH:-$(cd "$HERE/.." && pwd)/scratch_mut_util}"
PY=/venv/bin/python
ORIG=/repo
fail=0

regen_and_build() {   # $1 = repo root to translate; prints PASS / FAIL(gen) / FAIL(build); log in $SCRATCH/last.log
  ( cd "$HERE" && SCODA_REPO="$1" $PY tools/gen_lean.py > "$SCRATCH/gen.json" 2>&1 )
  if $PY - "$SCRATCH/gen.json" <<'EOF'
import json, sys
r = json.load(open(sys.argv[1]))
sys.exit(0 if any(e["file"] == "UtilFns.lean" for e in r["errors"]) else 1)
EOF
  then echo "FAIL(gen)"; return; fi
  if ( cd "$HERE/lean" && lake build SCoda.Props.UtilTie > "$SCRATCH/last.log" 2>&1 ); then echo "PASS"; else echo "FAIL(build)"; fi
}

mutant() {   # $1 = name, $2 = file below scoda/, $3 = python regex, $4 = replacement, $5 = description
  local name="$1" file="$2" pat="$3" rep="$4" desc="$5"
  local root="$SCRATCH/$name"
  rm -rf "$root"; mkdir -p "$root"; cp -r "$ORIG/scoda" "$root/scoda"
  if ! $PY - "$root/scoda/$file" "$pat" "$rep" <<'EOF'
import re, sys
path, pat, rep = sys.argv[1:4]
src = open(path).read()
new, n = re.subn(pat, rep, src, count=1, flags=re.S)
if n != 1 or new == src:
    sys.exit(1)
open(path, "w").write(new)
EOF
  then echo "$name: the edit did not apply (source changed?)"; fail=1; return; fi
  cp "$HERE/lean/SCoda/Gen/UtilFns.lean" "$SCRATCH/UtilFns.before"
  local res; res=$(regen_and_build "$root")
  local changed="generated text changed"
  cmp -s "$SCRATCH/UtilFns.before" "$HERE/lean/SCoda/Gen/UtilFns.lean" && changed="GENERATED TEXT UNCHANGED"
  local why=""
  if [ "$res" = "FAIL(build)" ]; then why=$(grep -m1 -o 'error: [^ ]*\(UtilTie\|UtilTieL\|UtilFns\|UtilLib\).lean:[0-9]*' "$SCRATCH/last.log" | sed 's/error: //'); fi
  if [ "$res" = "FAIL(gen)" ]; then why=$($PY -c "import json;print([e['error'] for e in json.load(open('$SCRATCH/gen.json'))['errors'] if e['file']=='UtilFns.lean'][0][:170])"); fi
  echo "$name: $desc"
  echo "    -> $changed; UtilTie build: $res  $why"
  if [ "$res" = "PASS" ] || [ "$changed" = "GENERATED TEXT UNCHANGED" ]; then echo "    !! MUTANT SURVIVED"; fail=1; fi
  rm -rf "$root"
}

mkdir -p "$SCRATCH"
echo "== original source"
t0=$(date +%s); r=$(regen_and_build "$ORIG"); t1=$(date +%s)
echo "original: UtilTie build: $r ($((t1 - t0)) s)"
[ "$r" = "PASS" ] || { echo "!! the unedited source does not pass"; fail=1; }

echo "== semantic edits of scoda/misc/util.py (each must fail)"
mutant m1_bins_floordiv misc/util.py \
  '\+ bin_size / 2\)' '+ bin_size // 2)' \
  "get_velocity_bins: bin_size / 2  ->  bin_size // 2  (same bins for the even default bin size 16; other bin counts move)"
mutant m2_durations_gt misc/util.py \
  'while i >= 1:' 'while i > 1:' \
  "get_note_durations: while i >= 1  ->  while i > 1  (the base value itself is dropped)"
mutant m3_tuplet_no_int misc/util.py \
  'tuplet_durations\.append\(int\(\(note_duration \* ratio_denominator\) / ratio_numerator\)\)' 'tuplet_durations.append((note_duration * ratio_denominator) / ratio_numerator)' \
  "get_tuplet_durations: int(...) dropped  (float-typed ticks: same values 16.0, 8.0, 4.0 — only the type changes)"
mutant m4_dotted_exponent misc/util.py \
  '2 \*\* \(dotted_note_iteration \+ 1\)' '2 ** (dotted_note_iteration + 2)' \
  "get_dotted_note_durations: exponent +1 -> +2"
mutant m5_fmd_le misc/util.py \
  'if candidate_distance < distance:' 'if candidate_distance <= distance:' \
  "find_minimal_distance:  <  ->  <=  (ties go to the LATER element)"
mutant m6_from_bin_index misc/util.py \
  'int\(min\(VELOCITY_MAX, \(bin_index \+ 1\) \* bin_size\)\)' 'int(min(VELOCITY_MAX, bin_index * bin_size))' \
  "velocity_from_bin: (bin_index + 1) -> bin_index"
mutant m7_bins_round_int misc/util.py \
  'bin_size = round\(velocity_max / velocity_bins\)\n    bins' 'bin_size = int(velocity_max / velocity_bins)\n    bins' \
  "get_velocity_bins: round(...) -> int(...)  (15.875 -> 15 instead of 16)"
mutant m8_step_sizes_lower misc/util.py \
  '4\*2\*\*lower_bound_shift' '2*2**lower_bound_shift' \
  "get_default_step_sizes: lower bound 4*2**s -> 2*2**s"
mutant m9_minmax_ge misc/util.py \
  'if value > maximum:' 'if value >= maximum:' \
  "minmax:  >  ->  >=  (same values; the TYPE of the result differs for minmax(1, 2.0, 2))"
mutant m10_regress_order misc/util.py \
  'r \+= c \* t\n(\s*)t \*= x' 't *= x\n\1r += c * t' \
  "regress: the two loop statements swapped (coefficients shifted by one power)"

echo "== edits outside the subset or of a pinned fact (generation or the pinned-facts theorem must fail)"
mutant m11_digitize_left misc/util.py \
  'right=True' 'right=False' \
  "bin_velocity: np.digitize(..., right=False)  (only right=True is modelled: generation must fail loudly)"
mutant m12_log2 misc/util.py \
  'j \*= 2' 'j = 2 ** (math.log2(j) + 1)' \
  "get_note_durations: j *= 2 written with math.log2 (no exact rational semantics: generation must fail loudly)"
mutant m13_default_base misc/util.py \
  'base_value: int = PPQN' 'base_value: int = 48' \
  "get_note_durations: default base_value PPQN -> 48 (defaults are pinned by translated_functions)"
mutant m14_decorator misc/util.py \
  'def get_default_note_values\(\):' '@functools.cache\ndef get_default_note_values():' \
  "get_default_note_values gets a decorator (refused)"

echo "== Message.equivalent (scoda/elements/message.py)"
mutant m15_equiv_nonmessage elements/message.py \
  'if not isinstance\(other, Message\):\n(\s*)return False' 'if not isinstance(other, Message):\n\1return True' \
  "Message.equivalent: an object that is not a Message is reported equivalent"
mutant m16_equiv_field elements/message.py \
  'if not self_field == other_field:\n(\s*)return False' 'if not self_field == other_field:\n\1return True' \
  "Message.equivalent: the first differing field answers True"
mutant m17_equiv_slice elements/message.py \
  'zip\(list\(self\.__dict__\.values\(\)\), list\(other\.__dict__\.values\(\)\)\)' 'zip(list(self.__dict__.values())[1:], list(other.__dict__.values())[1:])' \
  "Message.equivalent: the message type is skipped (a slice: outside the subset, generation must fail loudly)"

echo "== original source again (restores the generated files)"
r=$(regen_and_build "$ORIG")
echo "original: UtilTie build: $r"
[ "$r" = "PASS" ] || { echo "!! the unedited source does not pass"; fail=1; }
rm -rf "$SCRATCH"
[ $fail = 0 ] && echo "SELF-TEST OK: every edit changed the generated text and broke the build (or generation); the original passes" || echo "SELF-TEST FAILED"
exit $fail
