#!/bin/bash
# usage (from a snapshot of /verif, e.g. `vp run --with-repo -- tools/soak_here.sh thorough 1 2`): build here, then run every check of the
# given tier with the given seeds against $VP_RUN_REPO (or /repo); prints every non-zero exit.  Independent of edits to /verif and /repo.
tier=$1; shift
export SCODA_REPO=${VP_RUN_REPO:-/repo}
here=$(pwd)
/venv/bin/python tools/gen_lean.py > /dev/null || echo "gen failed"
(cd lean && lake build SCoda driver heapdriver 2>&1 | tail -1)
for seed in "$@"; do
  for p in C01 C02 C03 C04 C05 C06 C07 C08 C09 C10 C11 C12 C13 C14 C15 C16 C17 C18 C19 C20; do
    s=$(date +%s)
    out=$(VERIF_SEED=$seed ./check $p --tier $tier 2>&1); rc=$?
    echo "seed=$seed $p rc=$rc $(( $(date +%s) - s ))s $(echo "$out" | grep -c KNOWN-FINDING)kf"
    [ $rc -ne 0 ] && { echo "$out" | tail -4; cp -r evidence/replay "$here/replay_$seed_$p" 2>/dev/null; }
  done
  echo "seed $seed done"
done
