#!/bin/bash
# Apply every seeded change in turn to /repo, run the check(s) named in its meta.json, undo. Prints one line per (seeded, check).
cd /verif
test -z "$(git -C /repo status --porcelain)" || { echo "/repo has uncommitted changes — refusing"; exit 2; }
for d in seeded/*/; do
  id=$(basename $d)
  props=$(python3 -c "import json;m=json.load(open('$d/meta.json'));d=m['detected_by'];d=d if isinstance(d,list) else [d];print(' '.join(x['check'].split()[-1] for x in d if 'not reported' not in x.get('result','')))")
  git -C /repo apply /verif/${d}patch.diff || { echo "$id: patch does not apply"; continue; }
  for p in $props; do
    out=$(./check $p ${TIER:+--tier $TIER} 2>&1 | grep -E "^VIOLATION" | head -1 | sed 's/replay=.*replay\//replay=/')
    echo "$id $p -> ${out:-MISSED}"
  done
  git -C /repo checkout -- .
done
