#!/usr/bin/env python3
"""Writes MANIFEST.json from the property modules (levels as declared there)."""
import importlib
import json
import os
import sys

HERE = os.path.dirname(os.path.dirname(os.path.abspath(__file__)))
sys.path.insert(0, os.path.join(HERE, "harness"))
os.environ.setdefault("SCODA_REPO", "/repo")

TECH = {
    "proof": "machine-checked proof in Lean 4: theorems over the model for all inputs/histories (kernel-checked, #print axioms audited on every run) + checked tie to /repo on every run "
             "(translators regenerate Gen/*.lean from the source and equality theorems tie them to the models; differential correspondence for the rest) + oracle search on the real "
             "implementation for a replayable failing input",
    "translation_validation": "Lean 4 executable model tied to the code by differential correspondence; property theorems in progress (see evidence.coverage.clauses); oracle search for a replay",
}


def main():
    checks = []
    for i in range(1, 21):
        pid = f"C{i:02d}"
        mod = importlib.import_module(f"props.{pid}")
        clauses = mod.CLAUSES
        proved = [c for c, t in clauses if t]
        level = "proof" if len(proved) == len(clauses) else "translation_validation"
        text = (f"{len(proved)}/{len(clauses)} clauses of the property have a machine-checked Lean theorem"
                + ("; all clauses proved for every input over the model, the model is tied to /repo on every run" if level == "proof" else
                   "; the remaining clauses are decided by model/implementation correspondence plus an independent oracle search, so the claim is translation validation, not proof")
                + ". " + "; ".join(f"[{'thm ' + ','.join(x.split('.')[-1] for x in ([t] if isinstance(t, str) else t)) if t else 'no theorem yet'}] {c}" for c, t in clauses))
        checks.append({
            "property_id": pid,
            "quick_cmd": f"./check {pid} --tier quick",
            "thorough_cmd": f"./check {pid} --tier thorough",
            "evidence_file": f"/verif/evidence/{pid}.json",
            "replay_cmd_template": f"./check {pid} --replay {{path}}",
            "engine": "lean4-model+correspondence",
            "level_claimed": {"category": level, "text": text, "design_ref": f"DESIGN.md §4 {pid}"},
            "level_note": "Trusted: Lean 4.33 kernel; axioms ⊆ {propext, Classical.choice, Quot.sound} (audited per theorem on every run); tools/gen_lean.py and the "
                          "translators it calls (conventions and link tables: DESIGN 9.2c); harness/protocol.py + lean/Driver.lean; hand-written models of untranslated "
                          "functions are tied to the code only by the correspondence check, translated ones are proved equal to their models on every run. "
                          + " ".join(getattr(mod, "ASSUMPTIONS", [])),
            "technique": TECH[level],
        })
    manifest = {
        "version": 1,
        "setup_cmd": "cd /verif && /venv/bin/python tools/gen_lean.py > /dev/null && cd lean && lake build SCoda driver heapdriver",
        "hooks": {"guard": "SCODA_VERIF", "enable": "no source hooks are needed: the harness reads stale flags, message lists and object identities directly; SCODA_VERIF=1 is set by ./check and is unused by /repo",
                  "baseline_off_cmd": "cd /repo && /venv/bin/python -m pytest -ra -q -p no:cacheprovider --timeout=900 --continue-on-collection-errors",
                  "source_commits": [], "add_only": True},
        "engines": [{"name": "lean4-model+correspondence", "path": "/verif/lean", "serves_properties": [c["property_id"] for c in checks],
                     "kind_free_text": "Lean 4 models (SCoda/Model), generated tables and translated functions (SCoda/Gen), property theorems (SCoda/Props), line-protocol driver; Python harness runs the real implementation in-process"}],
        "checks": checks,
        "not_applicable": [],
        "notes": "All 20 properties are claimed. Known findings (genuine defects recorded, not repaired) are in known_findings.json; fix: commits in /repo repair 13 defects (see DESIGN.md §1/§6).",
    }
    with open(os.path.join(HERE, "MANIFEST.json"), "w") as f:
        json.dump(manifest, f, indent=1)
    print("wrote MANIFEST.json:", {c["property_id"]: c["level_claimed"]["category"] for c in checks})


if __name__ == "__main__":
    main()
