#!/usr/bin/env python3
"""Writes MANIFEST.json from the property modules (levels as declared there)."""
import importlib
import json
import os
import sys

HERE = os.path.dirname(os.path.dirname(os.path.abspath(__file__)))
sys.path.insert(0, os.path.join(HERE, "harness"))
os.environ.setdefault("SCODA_REPO", "/repo")

TECH = {
    "proof": "machine-checked proof in Lean 4: every clause listed in level_claimed.text is backed by kernel-checked theorems over the model (each theorem holds for all "
             "inputs / histories that meet the hypotheses written in its statement — well-formedness and domain conditions of the property, and carve-outs that are exactly "
             "the recorded known findings, each refuted by a `_statement_false` theorem replayed on the code); `#print axioms` and 'is a theorem' audited per cited name on "
             "every run; the model is tied to /repo on every run: translators regenerate Gen/*.lean from the source and equality theorems tie the translations to the hand "
             "models, a conventions fingerprint guards what the translators do not translate, a sampled differential correspondence covers the remaining functions; an "
             "oracle search on the real implementation produces the replayable failing input",
    "translation_validation": "Lean 4 executable model tied to the code by differential correspondence; property theorems in progress (see evidence.coverage.clauses); oracle search for a replay",
}
TIE_NAMES = {"WrapTie": "Sequence wrapper", "ViewTie": "view-level methods", "ElemTie": "Bar/Track/Composition", "RelTie2": "normalise_relative + split",
             "StaticTie": "sequences_split_bars / load / save / MidiFile.convert / mido parsers", "TokTie": "the tokeniser class",
             "AbsTie2": "pairings / equals / cutoff / quantise / quantise_note_lengths", "UtilTie": "util.py numeric helpers", "StaticLink": "get_message_times_of_type link",
             "C04d": "histories through the translated wrapper", "C20": "music_theory.py"}


def per_property(mod, pid, known):
    mods = mod.LEAN_MODULE if isinstance(mod.LEAN_MODULE, list) else [mod.LEAN_MODULE]
    ties = [f"{m.split('.')[-1]} ({TIE_NAMES[m.split('.')[-1]]})" for m in mods if m.split(".")[-1] in TIE_NAMES]
    thms = [x for _, t in mod.CLAUSES for x in ([t] if isinstance(t, str) else (t or []))]
    partial = sorted({x for x in thms if x.endswith("_partial")})
    refuted = sorted({x for x in thms if x.endswith("_statement_false")})
    opened = [k["id"] for k in known if k["property"] == pid and k["status"] == "open"]
    return (f" For {pid}: functions tied by translation through {', '.join(ties) if ties else 'no translation tie (hand model + correspondence only)'}; "
            f"{len(set(thms))} theorems cited, of which {len(partial)} are `_partial` (proved on the complement of a finding) and {len(refuted)} are refutations of the "
            f"unrestricted statement; open known findings: {', '.join(opened) if opened else 'none'}.")


def main():
    with open(os.path.join(HERE, "known_findings.json")) as f:
        known = json.load(f)["findings"]
    checks = []
    for i in range(1, 21):
        pid = f"C{i:02d}"
        mod = importlib.import_module(f"props.{pid}")
        clauses = mod.CLAUSES
        proved = [c for c, t in clauses if t]
        level = "proof" if len(proved) == len(clauses) else "translation_validation"
        text = (f"{len(proved)}/{len(clauses)} clauses of the property have a machine-checked Lean theorem"
                + ("; each theorem is stated with explicit hypotheses (see the clause texts and evidence.coverage.clauses); the model is tied to /repo on every run" if level == "proof" else
                   "; the remaining clauses are decided by model/implementation correspondence plus an independent oracle search, so the claim is translation validation, not proof")
                + ". " + "; ".join(f"[{'thm ' + ','.join(x.split('.')[-1] for x in ([t] if isinstance(t, str) else t)) if t else 'no theorem yet'}] {c}" for c, t in clauses))
        checks.append({
            "property_id": pid,
            "quick_cmd": f"./check {pid} --tier quick",
            "thorough_cmd": f"./check {pid} --tier thorough",
            "evidence_file": f"/verif/evidence/{pid}.json",
            "replay_cmd_template": f"./check {pid} --replay {{path}}",
            "engine": "lean4-model+correspondence",
            "level_claimed": {"category": level, "text": text, "design_ref": f"DESIGN.md §4 {pid}"},
            "level_note": "Trusted: Lean 4.33 kernel; axioms ⊆ {propext, Classical.choice, Quot.sound} (audited per theorem on every run); tools/gen_lean.py and the "
                          "translators it calls (conventions: tools/conventions.py + DESIGN 9.2c; link tables Model/ViewLib, ElemLib, StaticLib, TokLib, UtilLib); the known-finding predicates and the oracles' domain skips (they decide VIOLATION / KNOWN-FINDING / not judged); harness/protocol.py + lean/Driver.lean; hand-written models of untranslated "
                          "functions are tied to the code only by the correspondence check, translated ones are proved equal to their models on every run. "
                          + " ".join(getattr(mod, "ASSUMPTIONS", [])),
            "technique": TECH[level] + per_property(mod, pid, known),
        })
    manifest = {
        "version": 1,
        "setup_cmd": "cd /verif && /venv/bin/python tools/gen_lean.py > /dev/null && cd lean && lake build SCoda driver heapdriver",
        "hooks": {"guard": "SCODA_VERIF", "enable": "no source hooks are needed: the harness reads stale flags, message lists and object identities directly; SCODA_VERIF=1 is set by ./check and is unused by /repo",
                  "baseline_off_cmd": "cd /repo && /venv/bin/python -m pytest -ra -q -p no:cacheprovider --timeout=900 --continue-on-collection-errors",
                  "source_commits": [], "add_only": True},
        "engines": [{"name": "lean4-model+correspondence", "path": "/verif/lean", "serves_properties": [c["property_id"] for c in checks],
                     "kind_free_text": "Lean 4 models (SCoda/Model), generated tables and translated functions (SCoda/Gen), property theorems (SCoda/Props), line-protocol driver; Python harness runs the real implementation in-process"}],
        "checks": checks,
        "not_applicable": [],
        "notes": "All 20 properties are claimed. Known findings (genuine defects recorded, not repaired) are in known_findings.json; fix: commits in /repo repair the defects listed as fixed in known_findings.json (18 commits) (see DESIGN.md §1/§6).",
    }
    with open(os.path.join(HERE, "MANIFEST.json"), "w") as f:
        json.dump(manifest, f, indent=1)
    print("wrote MANIFEST.json:", {c["property_id"]: c["level_claimed"]["category"] for c in checks})


if __name__ == "__main__":
    main()
