#!/bin/bash
# Mutation self-test of the static tie (tools/py2lean_static.py + lean/SCoda/Props/StaticTie.lean).
#
# For each small semantic edit of a scratch COPY of the S-Coda source: regenerate lean/SCoda/Gen/*.lean from the copy
# (SCODA_REPO=<copy> tools/gen_lean.py), check that Gen/StaticFns.lean changed (or that generation failed loudly), and check
# that `lake build SCoda.Props.StaticTie` FAILS.  On the unedited source it must PASS (checked first and last; the last run
# also restores the generated files).  /repo and /verif are never written; scratch copies are removed.
#
#   usage: [ORIG=<source root, default /repo>] tools/test_py2lean_static.sh      (works on the copy of the framework it lives in)
set -u
HERE="$(cd "$(dirname "$0")/.." && pwd)"
SCRATCH="${SCRATCH:-/root/work/t4static/scratch_mut}"
PY=/venv/bin/python
ORIG="${ORIG:-/repo}"
fail=0

regen_and_build() {   # $1 = repo root to translate; prints PASS / FAIL(gen) / FAIL(build); log in $SCRATCH/last.log
  ( cd "$HERE" && SCODA_REPO="$1" $PY tools/gen_lean.py > "$SCRATCH/gen.json" 2>&1 )
  if $PY - "$SCRATCH/gen.json" <<'PYEOF'
import json, sys
r = json.load(open(sys.argv[1]))
sys.exit(0 if any(e["file"] == "StaticFns.lean" for e in r["errors"]) else 1)
PYEOF
  then echo "FAIL(gen)"; return; fi
  if ( cd "$HERE/lean" && lake build SCoda.Props.StaticTie > "$SCRATCH/last.log" 2>&1 ); then echo "PASS"; else echo "FAIL(build)"; fi
}

mutant() {   # $1 = name, $2 = file below scoda/, $3 = python regex, $4 = replacement, $5 = description
  local name="$1" file="$2" pat="$3" rep="$4" desc="$5"
  local root="$SCRATCH/$name"
  rm -rf "$root"; mkdir -p "$root"; cp -r "$ORIG/scoda" "$root/scoda"
  if ! $PY - "$root/scoda/$file" "$pat" "$rep" <<'PYEOF'
import re, sys
path, pat, rep = sys.argv[1:4]
src = open(path).read()
new, n = re.subn(pat, rep, src, count=1, flags=re.S)
if n != 1 or new == src:
    sys.exit(1)
open(path, "w").write(new)
PYEOF
  then echo "$name: the edit did not apply (source changed?)"; fail=1; return; fi
  cp "$HERE/lean/SCoda/Gen/StaticFns.lean" "$SCRATCH/StaticFns.before"
  local res; res=$(regen_and_build "$root")
  local changed="generated text changed"
  cmp -s "$SCRATCH/StaticFns.before" "$HERE/lean/SCoda/Gen/StaticFns.lean" && changed="GENERATED TEXT UNCHANGED"
  local why=""
  if [ "$res" = "FAIL(build)" ]; then why=$(grep -m1 -o 'error: [^ ]*\(StaticTie\|StaticTieL\|StaticFns\).lean:[0-9]*' "$SCRATCH/last.log" | sed 's/error: //'); fi
  if [ "$res" = "FAIL(gen)" ]; then why=$($PY -c "import json;print([e['error'] for e in json.load(open('$SCRATCH/gen.json'))['errors'] if e['file']=='StaticFns.lean'][0][:170])"); fi
  echo "$name: $desc"
  echo "    -> $changed; StaticTie build: $res  $why"
  if [ "$res" = "PASS" ] || [ "$changed" = "GENERATED TEXT UNCHANGED" ]; then echo "    !! MUTANT SURVIVED"; fail=1; fi
  rm -rf "$root"
}

mkdir -p "$SCRATCH"
echo "== original source ($ORIG)"
t0=$(date +%s); r=$(regen_and_build "$ORIG"); t1=$(date +%s)
echo "original: StaticTie build: $r ($((t1 - t0)) s)"
[ "$r" = "PASS" ] || { echo "!! the unedited source does not pass"; fail=1; }

echo "== sequences_split_bars"
mutant s1_due_lt sequences/sequence.py \
  'time_signature_timings if timing\[0\] <= current_point_in_time' 'time_signature_timings if timing[0] < current_point_in_time' \
  "a signature is due only strictly before the bar start ( <=  ->  < )"
mutant s2_two_pieces sequences/sequence.py \
  'if len\(split_up\) > 1:' 'if len(split_up) >= 1:' \
  "end-of-track test  > 1  ->  >= 1"
mutant s3_requant_extend sequences/sequence.py \
  'sequence_to_add\.quantise_note_lengths\(do_not_extend=True\)' 'sequence_to_add.quantise_note_lengths()' \
  "re-quantisation of the piece may extend notes (do_not_extend dropped)"
mutant s4_len_swap sequences/sequence.py \
  'int\(PPQN \* \(current_ts_numerator / \(current_ts_denominator / 4\)\)\)' 'int(PPQN * (current_ts_denominator / (current_ts_numerator / 4)))' \
  "bar length: numerator and denominator swapped"
mutant s5_key_not_popped sequences/sequence.py \
  'key_signature_timings\.pop\(0\)\n' 'pass\n' \
  "the consumed key signature stays in the queue"
mutant s6_placeholder sequences/sequence.py \
  'sequences\[i\] = Sequence\(\)\n' 'sequences[i] = split_up[0]\n' \
  "a finished track keeps its last piece instead of the placeholder (also: the piece is then shared with the bar — generation must refuse or the proof must fail)"
mutant s7_alias_after_move sequences/sequence.py \
  '(\s+)(tracks_bars\[i\]\.append\(\n\s+Bar\(sequence_to_add, current_ts_numerator, current_ts_denominator,\n\s+Key\(current_key\) if current_key is not None else None\)\))' '\1\2\1sequences[i] = sequence_to_add' \
  "the sequence handed to Bar(…) is read again afterwards (object identity: generation must fail loudly)"
mutant s8_times_of_type sequences/sequence.py \
  'read_only_message_times\.append\(\(time, ReadOnlyMessage\(msg\)\)\)' 'read_only_message_times.insert(0, (time, ReadOnlyMessage(msg)))' \
  "get_message_times_of_type builds its list in reverse (outside the subset: generation must fail loudly)"

echo "== mido parsers"
mutant p1_vel_ge midi/midi_message.py \
  'mido_message\.type == "note_on" and mido_message\.velocity > 0' 'mido_message.type == "note_on" and mido_message.velocity >= 0' \
  "note_on with velocity 0 is a NOTE_ON ( >  ->  >= )"
mutant p2_cc_value midi/midi_message.py \
  'msg\.velocity = mido_message\.value' 'msg.velocity = mido_message.control' \
  "control change: the value is read from .control"
mutant p3_track_order midi/midi_track.py \
  'track\.messages\.append\(MidiMessage\.parse_mido_message\(msg\)\)' 'track.messages.append(MidiMessage.parse_mido_message(mido_track[0]))' \
  "parse_mido_track parses the first message over and over (subscript of the parameter: a different translation)"

echo "== MidiFile.convert / load glue"
mutant c1_first_group midi/midi_file.py \
  'group_indices = next\(array for array in track_indices if i in array\)' 'group_indices = [array for array in track_indices if i in array][-1]' \
  "a track listed in two groups goes to the LAST group (negative subscript of a comprehension: a different translation)"
mutant c2_round_before_scale midi/midi_file.py \
  'current_point_in_time \+= \(msg\.time \* scaling_factor\)' 'current_point_in_time += round(msg.time * scaling_factor)' \
  "every delta is rounded before it is accumulated (the rounding error accumulates)"
mutant c3_cc_to_track midi/midi_file.py \
  'elif msg\.message_type == MessageType\.CONTROL_CHANGE:\n(\s+)meta_sequence\.add_absolute_message' 'elif msg.message_type == MessageType.CONTROL_CHANGE:\n\1current_sequence.add_absolute_message' \
  "control changes stay on their own track instead of going to the meta sequence"
mutant c4_no_normalise midi/midi_file.py \
  'for seq in sequences_to_merge:\n(\s+)seq\.normalise\(\)' 'for seq in sequences_to_merge:\n\1pass' \
  "the sequences of a group are merged without being normalised first"
mutant c5_default_ts midi/midi_file.py \
  'if not any\(timing_tuple\[0\] == 0 for timing_tuple in' 'if not any(timing_tuple[0] >= 0 for timing_tuple in' \
  "the default 4/4 is added only if there is no time signature at all ( == 0  ->  >= 0 )"
mutant c6_meta_index midi/midi_file.py \
  'if 0 > meta_track_index or meta_track_index >= len\(merged_sequences\):' 'if 0 > meta_track_index or meta_track_index > len(merged_sequences):' \
  "off-by-one in the meta index check ( >=  ->  > : IndexError instead of ValueError)"
mutant c7_default_channel midi/midi_file.py \
  'if default_channel is None and msg\.channel is not None:' 'if msg.channel is not None:' \
  "default_channel is the LAST channel seen instead of the first"
mutant c8_alias_meta midi/midi_file.py \
  'meta_track\.merge\(\[meta_sequence\]\)\n' 'meta_track.merge([meta_sequence])\n        meta_sequence.normalise()\n' \
  "meta_sequence is used again after it was handed to merge (object identity: generation must fail loudly)"
mutant l1_default_groups sequences/sequence.py \
  'track_indices = \[\[i\] for i, _ in enumerate\(midi_file\.tracks\)\]' 'track_indices = [[i for i, _ in enumerate(midi_file.tracks)]]' \
  "sequences_load: by default all tracks are merged into one sequence"
mutant v1_save_abs sequences/sequence.py \
  'return self\.rel\.to_midi_track\(\)' 'return self.abs.to_midi_track()' \
  "to_midi_track hands over the absolute view (no link for that view: generation must fail loudly)"
mutant v2_save_order sequences/sequence.py \
  'midi_file\.tracks\.append\(sequence\.to_midi_track\(\)\)' 'midi_file.tracks.insert(0, sequence.to_midi_track())' \
  "sequences_save writes the tracks in reverse order (insert: outside the subset, generation must fail loudly)"
mutant l2_ppqn midi/midi_file.py \
  'self\.PPQN = mido_midi_file\.ticks_per_beat' 'self.PPQN = PPQN' \
  "parse_mido ignores the resolution of the file"

echo "== original source again (restores the generated files)"
r=$(regen_and_build "$ORIG")
echo "original: StaticTie build: $r"
[ "$r" = "PASS" ] || { echo "!! the unedited source does not pass"; fail=1; }
rm -rf "$SCRATCH"
[ $fail = 0 ] && echo "SELF-TEST OK: every edit changed the generated text (or was refused) and broke the build; the original passes" || echo "SELF-TEST FAILED"
exit $fail
