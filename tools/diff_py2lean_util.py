#!/venv/bin/python
"""Differential check of the TRANSLATOR tools/py2lean_util.py: the generated Lean functions of Gen/UtilFns.lean are evaluated
(`lake env lean`, `#eval`) on several hundred argument tuples and compared with what the real scoda/misc/util.py in SCODA_REPO
(default /repo) returns on the same arguments — the VALUE and the int/float TYPE of every element, or the exception class.

    /venv/bin/python tools/diff_py2lean_util.py [seed]

Arguments include the unusual ones: velocity_bins 1..64, 0, negative, float; bases / ppqn 1..960, 0, negative, dyadic floats;
descending / non-monotonic / empty bin lists; zero tuplet numerators; negative shifts; empty collections; for
`Message.equivalent` copies, one-field edits (None against a value) and objects that are not Messages.
Floats are dyadic rationals (exactly representable); a float result is compared exactly (`float.as_integer_ratio`).  Three outcomes
are counted apart: DIFFERENT (a translation error), `rounding` (both floats, equal to 1e-12 relative: IEEE rounding, which the
rational model does not have — can only occur in `regress` / `simple_regression`), and `declined` (the model answered
UErr.inexact for `x ** <non-integral>`).  This is sampling of the translation conventions; the hand models are tied to the
generated functions by the theorems of Props/UtilTie.lean.
"""
import math
import os
import random
import subprocess
import sys
from fractions import Fraction

REPO = os.environ.get("SCODA_REPO", "/repo")
sys.path.insert(0, REPO)
HERE = os.path.abspath(os.path.join(os.path.dirname(os.path.abspath(__file__)), ".."))
SCRATCH = os.environ.get("SCRATCH", os.path.abspath(os.path.join(HERE, "..", "scratch_diff")))

from scoda.misc import util as U  # noqa: E402

ERR = {ZeroDivisionError: "ZeroDivisionError", TypeError: "TypeError", ValueError: "ValueError", IndexError: "IndexError",
       OverflowError: "OverflowError"}


def L(v):
    """Lean source of a Python argument"""
    if v is None:
        return "none"
    if isinstance(v, bool):
        raise ValueError(v)
    if isinstance(v, int):
        return f"(PyNum.int ({v}))"
    if isinstance(v, float):
        n, d = v.as_integer_ratio()
        return f"(PyNum.float (({n} : Rat) / {d}))"
    if isinstance(v, list):
        return "[" + ", ".join(L(x) for x in v) + "]"
    raise ValueError(v)


def Lopt(v):
    return "none" if v is None else f"(some {L(v)})"


def show(v):
    if type(v) is int:
        return f"i:{v}"
    if type(v) is float:
        if math.isinf(v) or math.isnan(v):
            return f"f:{v}"
        n, d = v.as_integer_ratio()
        return f"f:{n}/{d}"
    if type(v) is list:
        return "[" + ", ".join(show(x) for x in v) + "]"
    return f"?{type(v).__name__}:{v!r}"


def run_py(f, args, kwargs=None):
    try:
        return show(f(*args, **(kwargs or {})))
    except tuple(ERR) as e:
        return "!" + ERR[type(e)]
    except AttributeError:
        return "!AttributeError"


def close(a, b):
    """both results floats (or lists with floats) that differ only by IEEE rounding"""
    def parse(s):
        out = []
        for tok in s.strip("[]").split(", "):
            if not tok:
                continue
            k, v = tok.split(":")
            out.append((k, Fraction(v)))
        return out
    try:
        pa, pb = parse(a), parse(b)
    except Exception:
        return False
    if len(pa) != len(pb):
        return False
    for (ka, va), (kb, vb) in zip(pa, pb):
        if ka != kb:
            return False
        if va != vb and not (ka == "f" and abs(va - vb) <= Fraction(1, 10 ** 12) * max(1, abs(va), abs(vb))):
            return False
    return True


def main():
    seed = int(sys.argv[1]) if len(sys.argv) > 1 else 1
    rng = random.Random(seed)
    cases = []   # (label, lean expression printing a string, python result)

    def add(label, lean, py):
        cases.append((label, lean, py))

    def num(lo, hi, pfloat=0.15):
        if rng.random() < pfloat:
            return rng.randint(lo * 4, hi * 4) / rng.choice([1, 2, 4, 8])
        return rng.randint(lo, hi)

    # ---- get_velocity_bins
    for n in list(range(1, 65)) + [0, -1, -5, 100, 127, 128, 200, 2.0, 8.0, 2.5]:
        add(f"get_velocity_bins(velocity_bins={n})", f"showRes showList (getVelocityBins none (some {L(n)}))",
            run_py(U.get_velocity_bins, [], {"velocity_bins": n}))
    add("get_velocity_bins()", "showRes showList (getVelocityBins)", run_py(U.get_velocity_bins, []))
    for _ in range(60):
        vmax, n = num(-5, 300), rng.choice([rng.randint(-2, 70), rng.randint(1, 16), rng.choice([2.0, 3.5])])
        if rng.random() < 0.9 and isinstance(n, float):
            n = int(n)
        add(f"get_velocity_bins({vmax}, {n})", f"showRes showList (getVelocityBins (some {L(vmax)}) (some {L(n)}))",
            run_py(U.get_velocity_bins, [vmax, n]))
    # ---- bin_velocity
    for v in list(range(-3, 135, 3)) + [0.0, 24.0, 24.5, 127.5]:
        add(f"bin_velocity({v})", f"showRes showNum (binVelocity {L(v)})", run_py(U.bin_velocity, [v]))
    for _ in range(70):
        k = rng.randint(0, 8)
        bins = [num(0, 130) for _ in range(k)]
        mode = rng.random()
        if mode < 0.5:
            bins.sort()
        elif mode < 0.75:
            bins.sort(reverse=True)
        v = num(-5, 140)
        if bins and rng.random() < 0.3:
            v = rng.choice(bins)
        add(f"bin_velocity({v}, {bins})", f"showRes showNum (binVelocity {L(v)} (some {L(bins)}))", run_py(U.bin_velocity, [v, bins]))
    # ---- velocity_from_bin / digitise_velocity
    for b in list(range(-4, 24)) + [0.5, 2.0, -1.5, 7.25]:
        add(f"velocity_from_bin({b})", f"showRes showNum (velocityFromBin {L(b)})", run_py(U.velocity_from_bin, [b]))
    for v in list(range(-3, 135, 2)) + [0.0, 1.5, 127.5, 300]:
        add(f"digitise_velocity({v})", f"showRes showNum (digitiseVelocity {L(v)})", run_py(U.digitise_velocity, [v]))
    # ---- find_minimal_distance
    for _ in range(90):
        k = rng.choice([0, 1, 2, 3, 5, 8, 12])
        coll = [num(-20, 60, 0.1) for _ in range(k)]
        e = num(-25, 65, 0.1)
        if coll and rng.random() < 0.25:
            e = rng.choice(coll)
        add(f"find_minimal_distance({e}, {coll})", f"showRes showNum (findMinimalDistance {L(e)} {L(coll)})",
            run_py(U.find_minimal_distance, [e, coll]))
    # ---- get_note_durations
    ubs = [1, 2, 4, 8, 16, 3, 5, 6, 7, 0, -1, -4, 0.5, 1.5, 2.0, 4.0, 1.0, 0.25, 12, 100]
    lbs = [1, 2, 4, 8, 16, 32, 64, 3, 5, 9, 0, -2, 4.0, 8.0, 2.5, 1.0, 128]
    bases = [1, 2, 3, 5, 7, 12, 24, 48, 96, 100, 192, 384, 480, 960, 0, -24, -7, 24.0, 12.5, 0.5, -0.25]
    for ub in ubs:
        for lb in lbs:
            if rng.random() < 0.35:
                base = rng.choice(bases + [rng.randint(1, 960) for _ in range(20)])
                add(f"get_note_durations({ub}, {lb}, {base})", f"showRes showList (getNoteDurations {L(ub)} {L(lb)} {L(base)})",
                    run_py(U.get_note_durations, [ub, lb, base]))
    for base in range(1, 961, 7):
        add(f"get_note_durations(8, 32, {base})", f"showRes showList (getNoteDurations {L(8)} {L(32)} {L(base)})",
            run_py(U.get_note_durations, [8, 32, base]))
    add("get_note_durations(1, 4)", "showRes showList (getNoteDurations (PyNum.int 1) (PyNum.int 4))", run_py(U.get_note_durations, [1, 4]))
    add("get_note_durations(960, 960, 960)", f"showRes showList (getNoteDurations {L(960)} {L(960)} {L(960)})",
        run_py(U.get_note_durations, [960, 960, 960]))
    # ---- get_tuplet_durations
    for _ in range(80):
        nds = [num(-10, 960, 0.1) for _ in range(rng.randint(0, 7))]
        rn = rng.choice([3, 3, 5, 7, 2, 1, 0, -3, 1.5, 3.0, 6])
        rd = rng.choice([2, 2, 4, 1, 0, -2, 2.0, 0.5, 3])
        add(f"get_tuplet_durations({nds}, {rn}, {rd})", f"showRes showList (getTupletDurations {L(nds)} {L(rn)} {L(rd)})",
            run_py(U.get_tuplet_durations, [nds, rn, rd]))
    # ---- get_dotted_note_durations
    for _ in range(80):
        nds = [num(-10, 960, 0.1) for _ in range(rng.randint(0, 7))]
        it = rng.choice([0, 1, 1, 2, 2, 3, 4, 6, -1, 1.0, 2.5])
        add(f"get_dotted_note_durations({nds}, {it})", f"showRes showList (getDottedNoteDurations {L(nds)} {L(it)})",
            run_py(U.get_dotted_note_durations, [nds, it]))
    # ---- defaults
    for us in [0, 1, 2, 3, 5, -1, -2, 1.0, 0.5]:
        for ls in [0, 1, 2, 3, 6, -1, -2, -3, 2.0, 0.5]:
            add(f"get_default_step_sizes({us}, {ls})", f"showRes showList (getDefaultStepSizes {L(us)} {L(ls)})",
                run_py(U.get_default_step_sizes, [us, ls]))
    add("get_default_step_sizes()", "showRes showList (getDefaultStepSizes)", run_py(U.get_default_step_sizes, []))
    add("get_default_step_sizes(lower_bound_shift=1)", "showRes showList (getDefaultStepSizes (lowerBoundShift := PyNum.int 1))",
        run_py(U.get_default_step_sizes, [], {"lower_bound_shift": 1}))
    add("get_default_note_values()", "showRes showList (getDefaultNoteValues)", run_py(U.get_default_note_values, []))
    # ---- minmax / regress / simple_regression
    for _ in range(50):
        a, b, c = num(-50, 150), num(-50, 150), num(-50, 150)
        add(f"minmax({a}, {b}, {c})", f"showRes showNum (minmax {L(a)} {L(b)} {L(c)})", run_py(U.minmax, [a, b, c]))
    for _ in range(50):
        x = num(-6, 6, 0.4)
        terms = [num(-9, 9, 0.3) for _ in range(rng.randint(0, 5))]
        add(f"regress({x}, {terms})", f"showRes showNum (regress {L(x)} {L(terms)})", run_py(U.regress, [x, terms]))
    for _ in range(60):
        a = [num(-8, 8, 0.3) for _ in range(5)]
        if rng.random() < 0.15:
            a[2] = a[0]
        add(f"simple_regression{tuple(a)}", f"showRes showNum (simpleRegression {' '.join(L(x) for x in a)})",
            run_py(U.simple_regression, a))
    add("simple_regression(1, 1, 0, 0.5, 100/127)  [the only call site: sequence.py:604]",
        f"showRes showNum (simpleRegression {L(1)} {L(1)} {L(0)} {L(0.5)} {L(100 / 127)})", run_py(U.simple_regression, [1, 1, 0, 0.5, 100 / 127]))

    # ---- Message.equivalent
    from scoda.elements.message import Message
    from scoda.enumerations.message_type import MessageType as T
    from scoda.misc.music_theory import Key
    KEYS, TYPES = list(Key), list(T)

    def camel(name):
        parts = name.lower().split("_")
        return parts[0] + "".join(q.capitalize() for q in parts[1:])

    def Li(v):
        return "pyNone" if v is None else (f"({v})" if v < 0 else str(v))

    def Lmsg(m):
        key = None if m.key is None else KEYS.index(m.key)
        return ("{ ty := MType.%s, ch := %s, time := %s, note := %s, vel := %s, ctl := %s, prog := %s, num := %s, den := %s, key := %s }"
                % (camel(m.message_type.name), Li(m.channel), Li(m.time), Li(m.note), Li(m.velocity), Li(m.control), Li(m.program),
                   Li(m.numerator), Li(m.denominator), Li(key)))

    def rand_msg():
        def f():
            return rng.choice([None, None, 0, 1, 2, 60])
        return Message(message_type=rng.choice(TYPES), channel=rng.choice([None, 0, 1]), time=f(), note=f(), velocity=f(), control=f(),
                       numerator=f(), denominator=f(), key=rng.choice([None, None] + KEYS[:3]), program=f())

    for _ in range(80):
        a = rand_msg()
        r = rng.random()
        if r < 0.35:
            b = a.copy()
        elif r < 0.7:
            b = a.copy()
            fld = rng.choice(["message_type", "channel", "time", "note", "velocity", "control", "program", "numerator", "denominator", "key"])
            setattr(b, fld, getattr(rand_msg(), fld))
        else:
            b = rand_msg()
        res = a.equivalent(b)
        add(f"Message.equivalent({a!r}, {b!r})", f"showRes (fun (b : Bool) => toString b) (equivalent {Lmsg(a)} (some {Lmsg(b)}))",
            "true" if res is True else "false" if res is False else repr(res))
    for other in [None, 3, "x", [1]]:
        a = rand_msg()
        res = a.equivalent(other)
        add(f"Message.equivalent({a!r}, {other!r})  [not a Message]", f"showRes (fun (b : Bool) => toString b) (equivalent {Lmsg(a)} none)",
            "true" if res is True else "false" if res is False else repr(res))

    os.makedirs(SCRATCH, exist_ok=True)
    path = os.path.join(SCRATCH, "DiffUtil.lean")
    with open(path, "w") as f:
        f.write("import SCoda.Gen.UtilFns\nopen SCoda SCoda.Util SCoda.Gen.Util\n")
        for _, lean, _ in cases:
            f.write(f"#eval IO.println ({lean})\n")
    r = subprocess.run(["lake", "env", "lean", path], cwd=os.path.join(HERE, "lean"), capture_output=True, text=True)
    out = [l for l in r.stdout.split("\n") if l != ""]
    if r.returncode != 0 or len(out) != len(cases):
        print(r.stdout[-3000:], r.stderr[-3000:])
        print(f"lean failed or printed {len(out)} lines for {len(cases)} cases")
        return 2
    diff = rounding = declined = 0
    per = {}
    for (label, _, py), got in zip(cases, out):
        fn = label.split("(")[0].strip()
        per.setdefault(fn, [0, 0])
        per[fn][0] += 1
        if got == py:
            continue
        if got == "!INEXACT":
            declined += 1
            print(f"declined  {label}: python {py}, model answers INEXACT (non-integral exponent)")
        elif close(got, py):
            rounding += 1
            print(f"rounding  {label}: python {py}, lean {got}")
        else:
            diff += 1
            per[fn][1] += 1
            print(f"DIFFERENT {label}: python {py}, lean {got}")
    for fn, (n, d) in per.items():
        print(f"  {fn:28s} {n:4d} cases, {d} different")
    print(f"{len(cases)} cases, {diff} DIFFERENT, {rounding} equal up to float rounding, {declined} declined (inexact operator)")
    return 1 if diff else 0


if __name__ == "__main__":
    sys.exit(main())
