#!/bin/bash
# For every fix: commit in /repo, reverse-apply it, run the check of the property it repairs, restore.
# Expectation: every reverted fix is detected (exit 1 with a VIOLATION line).
cd /repo || exit 2
declare -A MAP=( [ade1d61]="C20 C14" [81aa2c4]="C13" [f10aca0]="C02 C01" [25f155d]="C01 C02" [8f70340]="C17" [f6b31c7]="C07" [1ceef1e]="C07" [264b238]="C08" [1e4a5d3]="C10 C11" [de62d31]="C05" [610e605]="C05" [2dc35f3]="C04" [e7ca3ce]="C16" )
for c in "${!MAP[@]}"; do
  git diff $c~1 $c > /tmp/rev_$c.diff
  git apply -R /tmp/rev_$c.diff || { echo "cannot revert $c"; continue; }
  for p in ${MAP[$c]}; do
    out=$(cd /verif && ./check $p ${SELFTEST_ARGS:-} 2>&1 | grep -E "^VIOLATION" | head -1)
    echo "$c $p -> ${out:-MISSED}"
  done
  git checkout -- .
  rm -f /tmp/rev_$c.diff
done
