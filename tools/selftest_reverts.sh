#!/bin/bash
# For every fix: commit in /repo: reverse-apply it in the scratch worktree (/repo itself is never patched), run the check of the
# property it repairs against that worktree (SCODA_REPO), restore.  Expectation: every reverted fix is detected (VIOLATION line).
MUT=${MUTREPO:-/root/work/mutrepo}
[ -d "$MUT" ] || git -C /repo worktree add -q --detach "$MUT" HEAD
git -C "$MUT" checkout -q --detach "$(git -C /repo rev-parse HEAD)"
git -C "$MUT" checkout -q -- .
declare -A MAP=( [ade1d61]="C20 C14" [81aa2c4]="C13" [f10aca0]="C02 C01" [25f155d]="C01 C02" [8f70340]="C17" [f6b31c7]="C07" [1ceef1e]="C07" [264b238]="C08" [1e4a5d3]="C10 C11" [de62d31]="C05" [610e605]="C05" [2dc35f3]="C04" [e7ca3ce]="C16" [1462441]="C17" [7886526]="C10 C16" [71016ec]="C02" [f7c79e5]="C05" [7886526+f9ef398]="C10 C16" )
# a key `A+B` reverts A, then B (newest first): f9ef398 (first step of the D37 repair) cannot be reverted alone since 7886526 rewrote its lines;
# reverting both gives the unrepaired Bar.copy
for c in "${!MAP[@]}"; do
  ok=1
  for one in ${c//+/ }; do
    git -C /repo diff $one~1 $one | git -C "$MUT" apply -R || { ok=0; break; }
  done
  [ $ok = 1 ] || { echo "cannot revert $c"; git -C "$MUT" checkout -q -- .; continue; }
  for p in ${MAP[$c]}; do
    out=$(cd ${VERIF_ROOT:-/verif} && SCODA_REPO="$MUT" ./check $p ${SELFTEST_ARGS:-} 2>&1 | grep -E "^VIOLATION" | head -1)
    echo "$c $p -> ${out:-MISSED}"
  done
  git -C "$MUT" checkout -q -- .
done
( cd ${VERIF_ROOT:-/verif} && /venv/bin/python tools/gen_lean.py > /dev/null 2>&1 )     # generated files back to /repo's source
