#!/venv/bin/python
"""Differential check of the TRANSLATOR tools/py2lean_abs2.py: the generated Lean functions of Gen/AbsFns2.lean are run
(`lake env lean`, `#eval`) on random inputs and compared with what the real implementation in SCODA_REPO (default /repo)
does on the same inputs — including ill-formed ones (orphan note-offs, double note-ons, zero-length notes, ties, several
channels, step sizes 0 / negative / empty, duplicate note values, …).

    /venv/bin/python tools/diff_py2lean_abs2.py [cases-per-function] [seed]

What is compared (object identity included): the heap is the list of the input messages, `_messages` = [0, …, n-1].
After the call:  the final state of every ORIGINAL message object (stores through aliases are visible there), the final
`_messages` as values, and for every entry of `_messages` / of a returned pairing which original object it is (its tag, -1 for
an object created by the call).  This is sampling; it checks the translation conventions, not the hand models (those are
tied to the generated functions by the theorems of Props/AbsTie2.lean).
"""
import os
import random
import subprocess
import sys

REPO = os.environ.get("SCODA_REPO", "/repo")
sys.path.insert(0, REPO)
HERE = os.path.join(os.path.dirname(os.path.abspath(__file__)), "..")

from scoda.elements.message import Message                      # noqa: E402
from scoda.enumerations.message_type import MessageType as T     # noqa: E402
from scoda.exceptions.sequence_exception import SequenceException  # noqa: E402
from scoda.misc.music_theory import Key                          # noqa: E402
from scoda.misc.util import binary_insort, find_minimal_distance  # noqa: E402
from scoda.sequences.absolute_sequence import AbsoluteSequence   # noqa: E402

import logging  # noqa: E402
logging.disable(logging.CRITICAL)
KEYS = list(Key)
TYPES = list(T)


def camel(name):
    parts = name.lower().split("_")
    return parts[0] + "".join(p.capitalize() for p in parts[1:])


def L_int(v):
    if v is None:
        return "pyNone"
    return f"({v})" if v < 0 else str(v)


def L_msg(m):
    key = None if m.key is None else KEYS.index(m.key)
    return ("{ ty := MType.%s, ch := %s, time := %s, note := %s, vel := %s, ctl := %s, prog := %s, num := %s, den := %s, key := %s }"
            % (camel(m.message_type.name), L_int(m.channel), L_int(m.time), L_int(m.note), L_int(m.velocity),
               L_int(m.control), L_int(m.program), L_int(m.numerator), L_int(m.denominator), L_int(key)))


def L_msgs(ms):
    return "([" + ", ".join(L_msg(m) for m in ms) + "] : List Msg)"


def L_ints(xs):
    return "([" + ", ".join(L_int(x) for x in xs) + "] : List Int)"


def L_bool(b):
    return "true" if b else "false"


def L_types(ts):
    return "([" + ", ".join("MType." + camel(t.name) for t in ts) + "] : List MType)"


def L_opt(x, f):
    return "none" if x is None else f"(some {f(x)})"


ERR = {IndexError: "indexError", KeyError: "keyError", ValueError: "valueError", ZeroDivisionError: "zeroDivisionError",
       AttributeError: "attributeError", AssertionError: "assertionError", SequenceException: "sequenceException"}


def rand_msg(rng, notes_only=False):
    r = rng.random()
    if r < 0.42:
        t = T.NOTE_ON
    elif r < 0.84:
        t = T.NOTE_OFF
    elif notes_only:
        t = rng.choice([T.NOTE_ON, T.NOTE_OFF])
    else:
        t = rng.choice([T.TIME_SIGNATURE, T.KEY_SIGNATURE, T.CONTROL_CHANGE, T.PROGRAM_CHANGE, T.INTERNAL])
    m = Message(message_type=t, channel=rng.choice([0, 0, 1, 2]), time=rng.randint(0, 40))
    if t in (T.NOTE_ON, T.NOTE_OFF):
        m.note = rng.choice([60, 60, 61, 72])
        if t == T.NOTE_ON:
            m.velocity = rng.choice([64, 100])
    if t == T.KEY_SIGNATURE:
        m.key = rng.choice(KEYS[:4])
    if t == T.TIME_SIGNATURE:
        m.numerator, m.denominator = rng.choice([(4, 4), (3, 4)])
    if t == T.CONTROL_CHANGE:
        m.control, m.velocity = 7, rng.randint(0, 127)
    if t == T.PROGRAM_CHANGE:
        m.program = rng.randint(0, 5)
    return m


def rand_wild(rng, maxlen=9):
    """ill-formed on purpose: unsorted, orphans, doubles, ties, zero lengths"""
    return [rand_msg(rng) for _ in range(rng.randint(0, maxlen))]


def rand_tidy(rng, maxnotes=5):
    """proper notes (possibly overlapping / touching, several channels) plus a few signatures"""
    out = []
    for _ in range(rng.randint(0, maxnotes)):
        ch, note = rng.choice([0, 0, 1]), rng.choice([60, 60, 62, 65])
        t0 = rng.randint(0, 50)
        d = rng.choice([1, 2, 3, 5, 6, 7, 11, 12, 13, 24, 30])
        out.append(Message(message_type=T.NOTE_ON, channel=ch, note=note, velocity=rng.choice([64, 90]), time=t0))
        out.append(Message(message_type=T.NOTE_OFF, channel=ch, note=note, time=t0 + d))
    if rng.random() < 0.5:
        out.append(Message(message_type=T.TIME_SIGNATURE, numerator=3, denominator=4, time=rng.choice([0, 12])))
    if rng.random() < 0.3:
        out.append(Message(message_type=T.KEY_SIGNATURE, key=KEYS[2], time=rng.choice([0, 7])))
    out.sort(key=lambda m: m.time)
    if rng.random() < 0.3:
        rng.shuffle(out)
    return out


def rand_seq(rng):
    return rand_tidy(rng) if rng.random() < 0.5 else rand_wild(rng)


def copies(ms):
    out = []
    for m in ms:
        c = m.copy()
        c.channel = m.channel
        out.append(c)
    return out


class Skip(Exception):
    pass


def run(fn):
    try:
        return "ok", fn()
    except tuple(ERR) as e:
        return "err", ERR[type(e)]
    except TypeError as e:
        return "skip", str(e)


def state(objs, seq_lists):
    """Lean text of the observable final state: original objects, and every sequence as (values, tags)"""
    ids = {id(m): i for i, m in enumerate(objs)}
    parts = [L_msgs(objs)]
    for ms in seq_lists:
        parts.append(L_msgs(ms))
        parts.append(L_ints([ids.get(id(m), -1) for m in ms]))
    return parts, ids


def main():
    n = int(sys.argv[1]) if len(sys.argv) > 1 else 40
    rng = random.Random(int(sys.argv[2]) if len(sys.argv) > 2 else 20260930)
    cases = []   # (label, lean expression : Bool)
    stats = {}

    def add(label, expr, kind):
        base = label.split("#")[0]
        stats.setdefault(base, {"ok": 0, "err": 0, "skip": 0})[kind] += 1
        if kind != "skip":
            cases.append((label, expr))

    def refs(lo, hi):
        return "([" + ", ".join(str(i) for i in range(lo, hi)) + "] : List Nat)"

    for i in range(n):
        # ---------------------------------------------------------------- find_minimal_distance
        coll = [rng.randint(-20, 40) for _ in range(rng.randint(0, 6))]
        e = rng.randint(-10, 30)
        add(f"find_minimal_distance#{i}", f"decide (findMinimalDistance {L_int(e)} {L_ints(coll)} = Except.ok {L_int(find_minimal_distance(e, coll))})", "ok")

        a = rand_seq(rng)
        na = len(a)
        H = L_msgs(a)
        R = refs(0, na)

        # ---------------------------------------------------------------- get_message_times_of_type
        ts = rng.sample(TYPES, rng.randint(0, 3))
        objs = copies(a)
        s = AbsoluteSequence(messages=objs)
        kind, v = run(lambda: s.get_message_times_of_type(ts))
        ids = {id(m): k for k, m in enumerate(objs)}
        exp = "[" + ", ".join(f"({L_int(t)}, ({ids[id(m)]} : Nat))" for t, m in v) + "]"
        add(f"get_message_times_of_type#{i}", f"decide (getMessageTimesOfType {H} {R} {L_types(ts)} = Except.ok {exp})", kind)

        # ---------------------------------------------------------------- binary_insort / add_message (sorted and unsorted input)
        m = rand_msg(rng)
        for label, base in (("add_message_sorted", sorted(copies(a), key=lambda x: x.time)), ("add_message_unsorted", copies(a))):
            objs = copies(base) + [m.copy()]
            s = AbsoluteSequence(messages=objs[:-1])
            kind, v = run(lambda: s.add_message(objs[-1]))
            ids = {id(x): k for k, x in enumerate(objs)}
            exp = "[" + ", ".join(str(ids[id(x)]) for x in s._messages) + "]"
            add(f"{label}#{i}", f"decide (absAddMessage {L_msgs(base + [m])} {refs(0, len(base))} {len(base)} = Except.ok {exp})", kind)

        # ---------------------------------------------------------------- get_message_pairings / interleaved
        mts = rng.choice([None, None, [T.NOTE_ON, T.NOTE_OFF], [T.NOTE_ON, T.NOTE_OFF, T.TIME_SIGNATURE, T.KEY_SIGNATURE],
                          [T.TIME_SIGNATURE], [T.NOTE_OFF], [T.NOTE_ON], []])
        std = rng.choice([24, 5, 0])
        imp = rng.random() < 0.75
        objs = copies(a)
        s = AbsoluteSequence(messages=objs)
        kind, v = run(lambda: s.get_message_pairings(message_types=mts, standard_length=std, impute_notes=imp))
        call = f"getMessagePairings {H} {R} {L_opt(mts, L_types)} {L_int(std)} {L_bool(imp)}"
        if kind == "ok":
            parts, ids = state(objs, [s._messages])
            vals = "[" + ", ".join(f"({L_int(ch)}, [" + ", ".join(L_msgs(p) for p in ps) + "])" for ch, ps in v.items()) + "]"
            tags = "[" + ", ".join(f"({L_int(ch)}, [" + ", ".join(L_ints([ids.get(id(x), -1) for x in p]) for p in ps) + "])"
                                   for ch, ps in v.items()) + "]"
            add(f"get_message_pairings#{i}", f"chkPairings ({call}) {na} {parts[0]} {parts[1]} {parts[2]} {vals} {tags}", kind)
        else:
            add(f"get_message_pairings#{i}", f"isErr ({call}) PyErr.{v}", kind)

        objs = copies(a)
        s = AbsoluteSequence(messages=objs)
        kind, v = run(lambda: s.get_interleaved_message_pairings(message_types=mts, standard_length=std, impute_notes=imp))
        call = f"getInterleavedMessagePairings {H} {R} {L_opt(mts, L_types)} {L_int(std)} {L_bool(imp)}"
        if kind == "ok":
            parts, ids = state(objs, [s._messages])
            vals = "[" + ", ".join(f"({L_int(ch)}, {L_msgs(p)})" for ch, p in v) + "]"
            tags = "[" + ", ".join(f"({L_int(ch)}, {L_ints([ids.get(id(x), -1) for x in p])})" for ch, p in v) + "]"
            add(f"get_interleaved_message_pairings#{i}", f"chkInterleaved ({call}) {na} {parts[0]} {parts[1]} {parts[2]} {vals} {tags}", kind)
        else:
            add(f"get_interleaved_message_pairings#{i}", f"isErr ({call}) PyErr.{v}", kind)

        # ---------------------------------------------------------------- cutoff
        mx, rd = rng.choice([0, 3, 5, 10, 12]), rng.choice([0, 1, 3, 5, 12, 20])
        objs = copies(a)
        s = AbsoluteSequence(messages=objs)
        kind, v = run(lambda: s.cutoff(mx, rd))
        call = f"cutoff {H} {R} {L_int(mx)} {L_int(rd)}"
        if kind == "ok":
            parts, _ = state(objs, [s._messages])
            add(f"cutoff#{i}", f"chkSeq ({call}) {na} {parts[0]} {parts[1]} {parts[2]}", kind)
        else:
            add(f"cutoff#{i}", f"isErr ({call}) PyErr.{v}", kind)

        # ---------------------------------------------------------------- equals
        mode = rng.random()
        if mode < 0.35:
            b = copies(a)
            rng.shuffle(b)
        elif mode < 0.7 and a:
            b = copies(a)
            k = rng.randrange(len(b))
            what = rng.choice(["time", "note", "vel", "chan", "drop", "num", "key"])
            if what == "time":
                b[k].time += rng.choice([1, -1, 5])
            elif what == "note" and b[k].note is not None:
                b[k].note += 1
            elif what == "vel" and b[k].velocity is not None:
                b[k].velocity += 1
            elif what == "chan":
                b[k].channel = (b[k].channel or 0) + 1
            elif what == "num" and b[k].numerator is not None:
                b[k].numerator += 1
            elif what == "key" and b[k].key is not None:
                b[k].key = KEYS[5]
            else:
                del b[k]
        else:
            b = rand_seq(rng)
        fl = [rng.random() < 0.3 for _ in range(4)]
        oa, ob = copies(a), copies(b)
        sa, sb = AbsoluteSequence(messages=oa), AbsoluteSequence(messages=ob)
        kind, v = run(lambda: sa.equals(sb, *fl))
        call = f"equals {L_msgs(a + b)} {R} {refs(na, na + len(b))} " + " ".join(L_bool(x) for x in fl)
        if kind == "ok":
            parts, _ = state(oa + ob, [sa._messages, sb._messages])
            add(f"equals#{i}", f"chkEquals ({call}) {na + len(b)} {parts[0]} {parts[1]} {parts[2]} {parts[3]} {parts[4]} {L_bool(v)}", kind)
        else:
            add(f"equals#{i}", f"isErr ({call}) PyErr.{v}", kind)

        # ---------------------------------------------------------------- merge
        others = [rand_wild(rng, 3) for _ in range(rng.randint(0, 3))]
        oa = copies(a)
        oo = [copies(o) for o in others]
        s = AbsoluteSequence(messages=oa)
        s.merge([AbsoluteSequence(messages=o) for o in oo])
        allobjs = oa + [x for o in oo for x in o]
        ids = {id(x): k for k, x in enumerate(allobjs)}
        lo = na
        orefs = []
        for o in others:
            orefs.append(refs(lo, lo + len(o)))
            lo += len(o)
        add(f"merge#{i}", f"decide (merge {L_msgs(a + [x for o in others for x in o])} {R} [{', '.join(orefs)}] = "
                          f"Except.ok [{', '.join(str(ids[id(x)]) for x in s._messages)}])", "ok")

        # ---------------------------------------------------------------- quantise
        steps = rng.choice([None, None, [6], [4, 6], [24, 12], [5], [12, 8], [0], [-4], [], [3, 0], [7, 7]])
        objs = copies(a)
        s = AbsoluteSequence(messages=objs)
        kind, v = run(lambda: s.quantise(steps))
        call = f"quantise {H} {R} {L_opt(steps, L_ints)}"
        if kind == "ok":
            parts, _ = state(objs, [s._messages])
            add(f"quantise#{i}", f"chkSeq ({call}) {na} {parts[0]} {parts[1]} {parts[2]}", kind)
        else:
            add(f"quantise#{i}", f"isErr ({call}) PyErr.{v}", kind)

        # ---------------------------------------------------------------- quantise_note_lengths
        vals_ = rng.choice([None, None, [6, 12], [4], [], [6, 6], [12, -3], [3, 6, 12, 24], [24], [1]])
        std = rng.choice([24, 5, 12])
        dne = rng.random() < 0.5
        objs = copies(a)
        s = AbsoluteSequence(messages=objs)
        kind, v = run(lambda: s.quantise_note_lengths(vals_, std, dne))
        call = f"quantiseNoteLengths {H} {R} {L_opt(vals_, L_ints)} {L_int(std)} {L_bool(dne)}"
        if kind == "ok":
            parts, _ = state(objs, [s._messages])
            add(f"quantise_note_lengths#{i}", f"chkSeq ({call}) {na} {parts[0]} {parts[1]} {parts[2]}", kind)
        else:
            add(f"quantise_note_lengths#{i}", f"isErr ({call}) PyErr.{v}", kind)

    out_dir = os.path.join(HERE, "lean", ".difftest2")
    os.makedirs(out_dir, exist_ok=True)
    path = os.path.join(out_dir, "Diff2.lean")
    with open(path, "w") as fh:
        fh.write(r'''import SCoda.Gen.AbsFns2
open SCoda SCoda.Gen.Abs2

instance {ε α : Type} [DecidableEq ε] [DecidableEq α] : DecidableEq (Except ε α)
  | .ok a, .ok b => if h : a = b then isTrue (h ▸ rfl) else isFalse (fun h' => h (by cases h'; rfl))
  | .error a, .error b => if h : a = b then isTrue (h ▸ rfl) else isFalse (fun h' => h (by cases h'; rfl))
  | .ok _, .error _ => isFalse (by intro h; cases h)
  | .error _, .ok _ => isFalse (by intro h; cases h)

def tagOf (n : Nat) (r : Nat) : Int := if r < n then (r : Int) else -1
def isErr {α} (x : Except PyErr α) (e : PyErr) : Bool := match x with | .error e' => e' == e | .ok _ => false
/-- final state of the original objects, final `_messages` as values and as tags -/
def seqOk (h : Heap) (s : List Nat) (n : Nat) (orig sv : List Msg) (st : List Int) : Bool :=
  h.take n == orig && s.map (hGet h) == sv && s.map (tagOf n) == st
def chkSeq (x : Except PyErr (Heap × List Nat)) (n : Nat) (orig sv : List Msg) (st : List Int) : Bool :=
  match x with | .ok (h, s) => seqOk h s n orig sv st | .error _ => false
def chkPairings (x : Except PyErr (Heap × List Nat × Assoc Int (List (List Nat)))) (n : Nat) (orig sv : List Msg) (st : List Int)
    (vals : List (Int × List (List Msg))) (tags : List (Int × List (List Int))) : Bool :=
  match x with
  | .ok (h, s, p) => seqOk h s n orig sv st && p.map (fun c => (c.1, c.2.map (·.map (hGet h)))) == vals
                      && p.map (fun c => (c.1, c.2.map (·.map (tagOf n)))) == tags
  | .error _ => false
def chkInterleaved (x : Except PyErr (Heap × List Nat × List (Int × List Nat))) (n : Nat) (orig sv : List Msg) (st : List Int)
    (vals : List (Int × List Msg)) (tags : List (Int × List Int)) : Bool :=
  match x with
  | .ok (h, s, p) => seqOk h s n orig sv st && p.map (fun c => (c.1, c.2.map (hGet h))) == vals
                      && p.map (fun c => (c.1, c.2.map (tagOf n))) == tags
  | .error _ => false
def chkEquals (x : Except PyErr (Heap × List Nat × List Nat × Bool)) (n : Nat) (orig sv : List Msg) (st : List Int)
    (ov : List Msg) (ot : List Int) (b : Bool) : Bool :=
  match x with
  | .ok (h, s, o, r) => seqOk h s n orig sv st && o.map (hGet h) == ov && o.map (tagOf n) == ot && r == b
  | .error _ => false
''')
        chunks = [cases[i:i + 100] for i in range(0, len(cases), 100)]
        for ci, chunk in enumerate(chunks):
            fh.write(f"def cases{ci} : List (String × Bool) := [\n")
            fh.write(",\n".join(f'  ("{lab}", {expr})' for lab, expr in chunk))
            fh.write("]\n")
        fh.write("def cases : List (String × Bool) := " + " ++ ".join(f"cases{ci}" for ci in range(len(chunks))) + "\n")
        fh.write('#eval IO.println s!"DIFF total={cases.length} failed={(cases.filter (fun c => !c.2)).map (·.1)}"\n')
    b = subprocess.run(["lake", "build", "SCoda.Gen.AbsFns2"], cwd=os.path.join(HERE, "lean"), capture_output=True, text=True)
    if b.returncode != 0:
        print("lake build SCoda.Gen.AbsFns2 failed\n", b.stdout[-2000:], b.stderr[-2000:])
        sys.exit(1)
    res = subprocess.run(["lake", "env", "lean", ".difftest2/Diff2.lean"], cwd=os.path.join(HERE, "lean"),
                         capture_output=True, text=True)
    print(res.stdout[-3000:], res.stderr[-3000:])
    print("per function (python side): " + ", ".join(f"{k}: {v['ok']} ok / {v['err']} raised / {v['skip']} skipped" for k, v in stats.items()))
    ok = "failed=[]" in res.stdout and res.returncode == 0
    if ok and not os.environ.get("KEEP_DIFF"):
        import shutil
        shutil.rmtree(out_dir, ignore_errors=True)
    sys.exit(0 if ok else 1)


if __name__ == "__main__":
    main()
