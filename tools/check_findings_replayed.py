#!/usr/bin/env python3
"""check_findings_replayed.py — bookkeeping self-test (audit round 5, item 4): every OPEN finding of known_findings.json was printed as a
KNOWN-FINDING line by the last run of its property's check (evidence/<id>.json: coverage.known_findings_printed), i.e. its recorded example
is run first by `generate`; and every FIXED finding's commit occurs in tools/selftest_reverts.sh.  Exit 1 with the exceptions listed."""
import json
import os
import re
import sys

V = os.path.dirname(os.path.dirname(os.path.abspath(__file__)))
k = json.load(open(os.path.join(V, "known_findings.json")))
fs = k["findings"] if isinstance(k, dict) else k
bad = []
selftest = open(os.path.join(V, "tools", "selftest_reverts.sh")).read()
for f in fs:
    if f.get("status") == "open":
        ev = os.path.join(V, "evidence", f["property"] + ".json")
        try:
            printed = json.load(open(ev))["coverage"].get("known_findings_printed", [])
        except Exception as e:
            bad.append(f"{f['id']}: evidence of {f['property']} unreadable ({e})")
            continue
        if f["id"] not in printed:
            bad.append(f"{f['id']} ({f['property']}): open, but the last run of ./check {f['property']} did not print it")
    elif f.get("status") == "fixed":
        c = (f.get("commit") or "")[:7]
        if not c or c not in selftest:
            bad.append(f"{f['id']}: fixed by {c or '?'} which tools/selftest_reverts.sh does not revert")
for b in bad:
    print(b)
print(f"{sum(1 for f in fs if f.get('status') == 'open')} open, {sum(1 for f in fs if f.get('status') == 'fixed')} fixed, {len(bad)} exceptions")
sys.exit(1 if bad else 0)
