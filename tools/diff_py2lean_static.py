#!/venv/bin/python
"""Differential check of the TRANSLATOR tools/py2lean_static.py: the generated functions of Gen/StaticFns.lean are run
(`lake env lean`, `#eval`) on random inputs and compared with what the real implementation in SCODA_REPO (default /repo)
does on the same inputs — including ill-formed ones (orphan note-offs, zero-length notes, odd signatures, out-of-range
meta indices, tracks listed in two groups, unknown mido kinds, unknown key names, …).

    /venv/bin/python tools/diff_py2lean_static.py [cases-per-function] [seed]

This is sampling; it checks the translation conventions, not the hand models (those are tied to the generated functions
by the theorems of Props/StaticTie.lean).  Skipped: inputs on which Python raises an exception that the translation's
conventions exclude (ZeroDivisionError: total division; TypeError: arithmetic on None) or does not terminate within 2 s
(a bar of length 0: the translation answers `Err.fuel`, which is checked).
"""
import os
import random
import signal
import subprocess
import sys

REPO = os.environ.get("SCODA_REPO", "/repo")
sys.path.insert(0, REPO)
HERE = os.path.join(os.path.dirname(os.path.abspath(__file__)), "..")

import mido                                                      # noqa: E402
from scoda.elements.message import Message                      # noqa: E402
from scoda.enumerations.message_type import MessageType as T     # noqa: E402
from scoda.exceptions.bar_exception import BarException          # noqa: E402
from scoda.exceptions.sequence_exception import SequenceException  # noqa: E402
from scoda.midi.midi_file import MidiFile                        # noqa: E402
from scoda.midi.midi_message import MidiMessage                  # noqa: E402
from scoda.midi.midi_track import MidiTrack                      # noqa: E402
from scoda.misc.music_theory import Key                          # noqa: E402
from scoda.sequences.relative_sequence import RelativeSequence   # noqa: E402
from scoda.sequences.sequence import Sequence                    # noqa: E402
from scoda.settings.settings import PPQN                         # noqa: E402

import logging                                                   # noqa: E402
logging.disable(logging.CRITICAL)
KEYS = list(Key)
KINDS = {}
TYPES = list(T)


def camel(name):
    parts = name.lower().split("_")
    return parts[0] + "".join(p.capitalize() for p in parts[1:])


def L_int(v):
    if v is None:
        return "pyNone"
    v = int(v)
    return f"({v})" if v < 0 else str(v)


def L_msg(m, none_type="sequenceControl"):
    key = None if m.key is None else KEYS.index(m.key)
    ty = none_type if m.message_type is None else camel(m.message_type.name)
    return ("{ ty := MType.%s, ch := %s, time := %s, note := %s, vel := %s, ctl := %s, prog := %s, num := %s, den := %s, key := %s }"
            % (ty, L_int(m.channel), L_int(m.time), L_int(m.note), L_int(m.velocity),
               L_int(m.control), L_int(m.program), L_int(m.numerator), L_int(m.denominator), L_int(key)))


def L_list(ms):
    return "([" + ", ".join(L_msg(m) for m in ms) + "] : List Msg)"


def L_bool(b):
    return "true" if b else "false"


def L_nats(l):
    return "[" + ", ".join(str(x) for x in l) + "]"


class Timeout(Exception):
    pass


def _alarm(*_):
    raise Timeout()


ERR = {IndexError: "indexError", BarException: "barError", KeyError: "keyError", ValueError: "valueError"}


def run(fn):
    """("ok", v) | ("err", lean error) | ("skip", reason) | ("loop", None)"""
    signal.signal(signal.SIGALRM, _alarm)
    signal.alarm(2)
    try:
        return "ok", fn()
    except Timeout:
        return "loop", None
    except SequenceException as e:
        return "err", ("sequenceStale" if "stale" in str(e) else "sequenceError")
    except tuple(ERR) as e:
        return "err", ERR[type(e)]
    except (ZeroDivisionError, TypeError) as e:
        return "skip", repr(e)
    finally:
        signal.alarm(0)


# ------------------------------------------------------------------------------------------ sequences

def rand_rel(rng, wild):
    """a relative message list: mostly well-formed notes in bars, sometimes ill-formed"""
    out = []
    opened = []
    n = rng.randint(0, 10)
    for _ in range(n):
        k = rng.random()
        ch = rng.choice([0, 0, 0, 1])
        if k < 0.30:
            out.append(Message(message_type=T.WAIT, channel=ch, time=rng.choice([1, 2, 3, 6, 12, 12, 24, 24, 48, 96, 5, 7]
                                                                                 + ([0, -3] if wild else []))))
        elif k < 0.55:
            p = rng.randint(58, 64)
            out.append(Message(message_type=T.NOTE_ON, channel=ch, note=p, velocity=rng.randint(1, 127)))
            opened.append((ch, p))
        elif k < 0.75:
            if opened and rng.random() < 0.85:
                c, p = opened.pop(rng.randrange(len(opened)))
            else:
                c, p = ch, rng.randint(58, 64)       # orphan
            out.append(Message(message_type=T.NOTE_OFF, channel=c, note=p))
        elif k < 0.85:
            num, den = rng.choice([(4, 4), (3, 4), (6, 8), (2, 2), (5, 4), (7, 8), (1, 4), (12, 8)]
                                  + ([(4, 3), (0, 4), (4, 0), (3, 16), (1, 128)] if wild else []))
            out.append(Message(message_type=T.TIME_SIGNATURE, channel=ch, numerator=num, denominator=den))
        elif k < 0.92:
            out.append(Message(message_type=T.KEY_SIGNATURE, channel=ch, key=rng.choice(KEYS)))
        elif k < 0.96:
            out.append(Message(message_type=T.CONTROL_CHANGE, channel=ch, control=rng.randint(0, 100), velocity=rng.randint(0, 127)))
        else:
            out.append(Message(message_type=T.PROGRAM_CHANGE, channel=ch, program=rng.randint(0, 100)))
    if rng.random() < 0.7:
        out.append(Message(message_type=T.WAIT, channel=0, time=rng.choice([1, 12, 24, 48, 96, 100])))
    return out


def copies(ms):
    return [m.copy() for m in ms]


def make_seq(rel, state):
    """a Sequence holding `rel`, in one of the wrapper states, and the Lean `Seq` literal of that state"""
    s = Sequence(relative_sequence=RelativeSequence(messages=copies(rel)))
    if state == "rel":                      # relative view fresh, absolute view never computed
        return s, f"(Seq.ofRel {L_list(rel)})"
    a = s.abs                               # both fresh
    if state == "both":
        return s, f"({{ abs := {L_list(a._messages)}, rel := {L_list(rel)}, absStale := false, relStale := false }} : Seq)"
    s2 = Sequence(absolute_sequence=a.copy() if hasattr(a, "copy") else a)   # absolute view only
    return s2, f"(Seq.ofAbs {L_list(s2.abs._messages)})"


def bar_obs(b):
    s = b.sequence
    key = None if b.key_signature is None else KEYS.index(b.key_signature)
    return (f"⟨{L_list(s._rel._messages)}, {L_bool(s._abs_stale)}, {L_bool(s._rel_stale)}, "
            f"{L_int(b.time_signature_numerator)}, {L_int(b.time_signature_denominator)}, {L_int(key)}⟩")


OBS_BARS = "obsBars"
PRELUDE = """
structure BarObs where
  rel : List Msg
  absStale : Bool
  relStale : Bool
  num : Int
  den : Int
  key : Int
  deriving DecidableEq
structure SeqObs where
  absStale : Bool
  relStale : Bool
  abs : List Msg
  rel : List Msg
  deriving DecidableEq
def obsSeq (s : Seq) : SeqObs := ⟨s.absStale, s.relStale, if s.absStale then [] else s.abs, if s.relStale then [] else s.rel⟩
def obsBars (tb : List (List GBar)) : List (List BarObs) :=
  tb.map (fun bs => bs.map (fun (g : GBar) => ⟨g.sequence.rel, g.sequence.absStale, g.sequence.relStale, g.num, g.den, g.key⟩))
"""


def split_bars_cases(rng, n, add):
    for i in range(n):
        wild = rng.random() < 0.25
        k = rng.randint(1, 3)
        rels = [rand_rel(rng, wild) for _ in range(k)]
        states = [rng.choice(["rel", "rel", "both", "abs"]) for _ in range(k)]
        meta = rng.choice([0] * 8 + [k - 1, k, k + 2])
        if rng.random() < 0.8:      # signatures only where the splitter looks for them (otherwise most inputs end in BarException)
            rels = [r if j == meta else [m for m in r if m.message_type != T.TIME_SIGNATURE] for j, r in enumerate(rels)]
        requant = rng.random() < 0.6
        pairs = [make_seq(r, st) for r, st in zip(rels, states)]
        seqs = [p[0] for p in pairs]
        kind, v = run(lambda: Sequence.sequences_split_bars(seqs, meta_track_index=meta, quantise_note_lengths=requant))
        KINDS[("split_bars", kind if kind != "err" else v)] = KINDS.get(("split_bars", kind if kind != "err" else v), 0) + 1
        call = f"sequencesSplitBars genEnv [{', '.join(p[1] for p in pairs)}] {meta} {L_bool(requant)}"
        if kind == "ok":
            exp = "[" + ", ".join("[" + ", ".join(bar_obs(b) for b in bars) + "]" for bars in v) + "]"
            add(f"split_bars#{i}", f"decide ({OBS_BARS} <$> Gen.Static.{call} = Except.ok {exp})")
        elif kind == "err":
            add(f"split_bars#{i}", f"decide ({OBS_BARS} <$> Gen.Static.{call} = Except.error Err.{v})")
        elif kind == "loop":
            add(f"split_bars_loop#{i}", f"decide ({OBS_BARS} <$> Gen.Static.{call} = Except.error Err.fuel)")


def main():
    n = int(sys.argv[1]) if len(sys.argv) > 1 else 120
    rng = random.Random(int(sys.argv[2]) if len(sys.argv) > 2 else 20260930)
    cases = []
    stats = {}

    def add(label, expr):
        cases.append((label, expr))
        stats[label.split("#")[0]] = stats.get(label.split("#")[0], 0) + 1

    split_bars_cases(rng, n, add)
    for extra in EXTRA:
        extra(rng, n, add)

    out_dir = os.path.join(HERE, "lean", ".difftest_static")
    os.makedirs(out_dir, exist_ok=True)
    path = os.path.join(out_dir, "Diff.lean")
    with open(path, "w") as fh:
        fh.write("import SCoda.Gen.StaticFns\nimport SCoda.Model.BarOps\nopen SCoda\n")
        fh.write("""instance {ε α : Type} [DecidableEq ε] [DecidableEq α] : DecidableEq (Except ε α)
  | .ok a, .ok b => if h : a = b then isTrue (h ▸ rfl) else isFalse (fun h' => h (by cases h'; rfl))
  | .error a, .error b => if h : a = b then isTrue (h ▸ rfl) else isFalse (fun h' => h (by cases h'; rfl))
  | .ok _, .error _ => isFalse (by intro h; cases h)
  | .error _, .ok _ => isFalse (by intro h; cases h)
""")
        fh.write(PRELUDE)
        chunks = [cases[i:i + 60] for i in range(0, len(cases), 60)]
        for ci, chunk in enumerate(chunks):
            fh.write(f"def cases{ci} : List (String × Bool) := [\n")
            fh.write(",\n".join(f'  ("{lab}", {expr})' for lab, expr in chunk))
            fh.write("]\n")
        fh.write("def cases : List (String × Bool) := " + " ++ ".join(f"cases{ci}" for ci in range(len(chunks))) + "\n")
        fh.write('#eval IO.println s!"DIFF total={cases.length} failed={(cases.filter (fun c => !c.2)).map (·.1)}"\n')
    res = subprocess.run(["lake", "env", "lean", ".difftest_static/Diff.lean"], cwd=os.path.join(HERE, "lean"),
                         capture_output=True, text=True)
    print("cases per function:", stats)
    print("outcomes on the real code:", KINDS)
    print(res.stdout[-3000:], res.stderr[-3000:])
    ok = "failed=[]" in res.stdout and res.returncode == 0
    if ok and not os.environ.get("KEEP_DIFF"):
        import shutil
        shutil.rmtree(out_dir, ignore_errors=True)
    sys.exit(0 if ok else 1)


# ------------------------------------------------------------------------------------------ mido parsers

MIDO_KINDS = {"note_on": "noteOn", "note_off": "noteOff", "time_signature": "timeSignature", "key_signature": "keySignature",
              "control_change": "controlChange", "program_change": "programChange"}
MIDO_KEYS = ["C", "G", "D", "A", "E", "B", "F#", "C#", "F", "Bb", "Eb", "Ab", "Db", "Gb", "Cb",
             "Am", "Em", "Bm", "F#m", "C#m", "G#m", "D#m", "A#m", "Dm", "Gm", "Cm", "Fm", "Bbm", "Ebm", "Abm"]


class Duck:
    """an object with the attributes of a mido message (for kinds / key names that mido itself would refuse to build)"""

    def __init__(self, **kw):
        self.__dict__.update(kw)


def rand_mido(rng, wild):
    """(python object, Lean `MidoMsg` literal)"""
    t = rng.randint(0, 400)
    k = rng.random()
    ch = rng.randint(0, 15)
    if k < 0.25:
        note, vel = rng.randint(0, 127), rng.choice([0, 0, rng.randint(1, 127)])
        return (mido.Message("note_on", channel=ch, note=note, velocity=vel, time=t),
                f"{{ type := .noteOn, time := {t}, channel := some {ch}, note := {note}, velocity := {vel} }}")
    if k < 0.40:
        note, vel = rng.randint(0, 127), rng.randint(0, 127)
        return (mido.Message("note_off", channel=ch, note=note, velocity=vel, time=t),
                f"{{ type := .noteOff, time := {t}, channel := some {ch}, note := {note}, velocity := {vel} }}")
    if k < 0.52:
        n, d = rng.choice([(4, 4), (3, 4), (6, 8), (2, 2), (7, 8), (5, 16)])
        return (mido.MetaMessage("time_signature", numerator=n, denominator=d, time=t),
                f"{{ type := .timeSignature, time := {t}, numerator := {n}, denominator := {d} }}")
    if k < 0.64:
        if wild and rng.random() < 0.4:
            key = rng.choice(["H", "", "c", "A#", "Fb"])
            return Duck(type="key_signature", key=key, time=t), f'{{ type := .keySignature, time := {t}, key := "{key}" }}'
        key = rng.choice(MIDO_KEYS)
        return mido.MetaMessage("key_signature", key=key, time=t), f'{{ type := .keySignature, time := {t}, key := "{key}" }}'
    if k < 0.74:
        c, v = rng.randint(0, 127), rng.randint(0, 127)
        return (mido.Message("control_change", channel=ch, control=c, value=v, time=t),
                f"{{ type := .controlChange, time := {t}, channel := some {ch}, control := {c}, value := {v} }}")
    if k < 0.84:
        pr = rng.randint(0, 127)
        return (mido.Message("program_change", channel=ch, program=pr, time=t),
                f"{{ type := .programChange, time := {t}, channel := some {ch}, program := {pr} }}")
    if k < 0.90:
        return mido.MetaMessage("set_tempo", tempo=rng.randint(100000, 900000), time=t), f"{{ type := .other, time := {t} }}"
    if k < 0.94:
        return mido.Message("pitchwheel", channel=ch, pitch=rng.randint(-100, 100), time=t), f"{{ type := .other, time := {t}, channel := some {ch} }}"
    if k < 0.97:
        return mido.MetaMessage("track_name", name="x", time=t), f"{{ type := .other, time := {t} }}"
    # a channel message without a channel attribute / a note_on seen through a duck (ill-formed)
    note, vel = rng.randint(0, 127), rng.randint(0, 127)
    return Duck(type="note_on", note=note, velocity=vel, time=t), f"{{ type := .noteOn, time := {t}, note := {note}, velocity := {vel} }}"


def L_midi_ev(m):
    return L_msg(m)      # a MidiMessage has the field names of Message; message_type None is .sequenceControl


def parser_cases(rng, n, add):
    for i in range(n):
        obj, lean = rand_mido(rng, wild=True)
        kind, v = run(lambda: MidiMessage.parse_mido_message(obj))
        KINDS[("parse_mido_message", kind if kind != "err" else v)] = KINDS.get(("parse_mido_message", kind if kind != "err" else v), 0) + 1
        call = f"Gen.Static.parseMidoMessage genEnv ({lean} : MidoMsg)"
        if kind == "ok":
            add(f"parse_mido_message#{i}", f"decide ({call} = Except.ok ({L_midi_ev(v)} : MidiEv))")
        elif kind == "err":
            add(f"parse_mido_message#{i}", f"decide ({call} = Except.error Err.{v})")
    for i in range(max(1, n // 4)):
        msgs = [rand_mido(rng, wild=rng.random() < 0.15) for _ in range(rng.randint(0, 6))]
        kind, v = run(lambda: MidiTrack.parse_mido_track([m[0] for m in msgs]))
        KINDS[("parse_mido_track", kind if kind != "err" else v)] = KINDS.get(("parse_mido_track", kind if kind != "err" else v), 0) + 1
        call = f"Gen.Static.parseMidoTrack genEnv ([{', '.join(m[1] for m in msgs)}] : List MidoMsg)"
        if kind == "ok":
            add(f"parse_mido_track#{i}", f"decide ({call} = Except.ok ([{', '.join(L_midi_ev(x) for x in v.messages)}] : List MidiEv))")
        elif kind == "err":
            add(f"parse_mido_track#{i}", f"decide ({call} = Except.error Err.{v})")


# ------------------------------------------------------------------------------------------ MidiFile.convert / sequences_load

from fractions import Fraction    # noqa: E402
import tempfile                   # noqa: E402


def encode_mido(m):
    """any mido message (or duck) as a Lean `MidoMsg` literal"""
    kind = MIDO_KINDS.get(m.type, "other")
    f = [f"type := .{kind}", f"time := {L_int(m.time)}"]
    if hasattr(m, "channel"):
        f.append(f"channel := some {m.channel}")
    for attr in ("note", "velocity", "numerator", "denominator", "control", "value", "program"):
        if hasattr(m, attr) and kind != "other":
            f.append(f"{attr} := {L_int(getattr(m, attr))}")
    if kind == "keySignature":
        f.append(f'key := "{m.key}"')
    return "{ " + ", ".join(f) + " }"


def rand_midi_track(rng):
    """a list of mido messages with small delta times: notes, meta events, unknown kinds"""
    out = []
    for _ in range(rng.randint(0, 7)):
        obj, _ = rand_mido(rng, wild=False)
        if isinstance(obj, Duck):
            continue
        obj.time = rng.choice([0, 0, 1, 5, 10, 20, 40, 60, 120, 240, 480, 7, 13])
        out.append(obj)
    return out


def has_tie(tracks, ppq):
    """does any cumulative position land exactly between two library ticks?  (there IEEE doubles and exact rationals may round
    differently: the idealisation of DESIGN §5 / §9.3b; such inputs are skipped)"""
    for tr in tracks:
        cur = Fraction(0)
        for m in tr:
            cur += Fraction(m.time) * Fraction(PPQN, ppq)
            if (cur * 2).denominator == 1 and cur.denominator == 2:
                return True
    return False


def seq_obs(s):
    a = "[]" if s._abs_stale else L_list(s._abs._messages)
    r = "[]" if s._rel_stale else L_list(s._rel._messages)
    return f"⟨{L_bool(s._abs_stale)}, {L_bool(s._rel_stale)}, {a}, {r}⟩"


def L_groups(g):
    return "[" + ", ".join(L_nats(x) for x in g) + "]"


def rand_routing(rng, ntracks):
    pool = list(range(ntracks + 1))
    k = rng.random()
    if k < 0.45:
        groups = [[i] for i in range(ntracks)]
    elif k < 0.6:
        groups = [list(range(ntracks))] if ntracks else []
    else:
        groups = [[rng.choice(pool) for _ in range(rng.choice([0, 1, 1, 2, 3]))] for _ in range(rng.choice([0, 1, 1, 2, 3]))]
    metas = [i for i in pool if rng.random() < 0.5]
    return groups, metas


def convert_cases(rng, n, add):
    for i in range(n):
        ppq = rng.choice([24, 24, 48, 96, 120, 480, 480, 100, 7, 12])
        mido_tracks = [rand_midi_track(rng) for _ in range(rng.choice([0, 1, 1, 2, 2, 3, 3]))]
        if has_tie(mido_tracks, ppq):
            KINDS[("convert", "tie skipped")] = KINDS.get(("convert", "tie skipped"), 0) + 1
            continue
        mf = MidiFile()
        mf.PPQN = ppq
        mf.tracks = [MidiTrack.parse_mido_track(t) for t in mido_tracks]
        lean_file = ("({ tracks := [" + ", ".join("[" + ", ".join(L_midi_ev(m) for m in t.messages) + "]" for t in mf.tracks)
                     + f"], ppqn := {ppq} }} : GMidiFile)")
        groups, metas = rand_routing(rng, len(mido_tracks))
        target = rng.choice([0] * 6 + [max(0, len(groups) - 1)] * 3 + [len(groups), -1, 5])
        kind, v = run(lambda: mf.convert(groups, metas, meta_track_index=target))
        KINDS[("convert", kind if kind != "err" else v)] = KINDS.get(("convert", kind if kind != "err" else v), 0) + 1
        call = f"Gen.Static.convert genEnv {lean_file} {L_groups(groups)} {L_nats(metas)} {L_int(target)}"
        if kind == "ok":
            add(f"convert#{i}", f"decide ((fun r => r.2.map obsSeq) <$> {call} = Except.ok [{', '.join(seq_obs(x) for x in v)}])")
        elif kind == "err":
            add(f"convert#{i}", f"decide ((fun r => r.2.map obsSeq) <$> {call} = Except.error Err.{v})")


def load_cases(rng, n, add):
    tmp = tempfile.mkdtemp()
    for i in range(n):
        ppq = rng.choice([24, 48, 96, 480, 120])
        mido_tracks = [rand_midi_track(rng) for _ in range(rng.choice([0, 1, 1, 2, 2, 3, 3]))]
        f = mido.MidiFile()
        f.ticks_per_beat = ppq
        for t in mido_tracks:
            tr = mido.MidiTrack()
            tr.extend(t)
            f.tracks.append(tr)
        path = os.path.join(tmp, f"x{i}.mid")
        f.save(path)
        back = mido.MidiFile(path)                      # what the parser is handed (the codec adds end_of_track)
        if has_tie([list(t) for t in back.tracks], back.ticks_per_beat):
            KINDS[("sequences_load", "tie skipped")] = KINDS.get(("sequences_load", "tie skipped"), 0) + 1
            continue
        lean_file = ("({ ticksPerBeat := %d, tracks := [%s] } : MidoFile)"
                     % (back.ticks_per_beat, ", ".join("[" + ", ".join(encode_mido(m) for m in t) + "]" for t in back.tracks)))
        mode = rng.random()
        if mode < 0.5:
            groups, metas, lg, lm = None, None, "none", "none"
        else:
            groups, metas = rand_routing(rng, len(back.tracks))
            lg, lm = f"(some {L_groups(groups)})", f"(some {L_nats(metas)})"
        target = rng.choice([0] * 8 + [1, -1, 3])
        use_file = rng.random() < 0.5
        if use_file:
            mf = MidiFile.open(path)
            kind, v = run(lambda: Sequence.sequences_load(midi_file=mf, track_indices=groups, meta_track_indices=metas,
                                                          target_meta_track_index=target))
            arg = f"none (some ((Gen.Static.midiFileOpen genEnv (some {lean_file})).toOption.getD default))"
        else:
            kind, v = run(lambda: Sequence.sequences_load(file_path=path, track_indices=groups, meta_track_indices=metas,
                                                          target_meta_track_index=target))
            arg = f"(some {lean_file}) none"
        KINDS[("sequences_load", kind if kind != "err" else v)] = KINDS.get(("sequences_load", kind if kind != "err" else v), 0) + 1
        call = f"Gen.Static.sequencesLoad genEnv {arg} {lg} {lm} {L_int(target)}"
        if kind == "ok":
            add(f"sequences_load#{i}", f"decide ((fun r => r.map obsSeq) <$> {call} = Except.ok [{', '.join(seq_obs(x) for x in v)}])")
        elif kind == "err":
            add(f"sequences_load#{i}", f"decide ((fun r => r.map obsSeq) <$> {call} = Except.error Err.{v})")
    # no file at all: mido.MidiFile(None) is an empty file
    kind, v = run(lambda: Sequence.sequences_load())
    if kind == "err":
        add("sequences_load#none", f"decide ((fun r => r.map obsSeq) <$> Gen.Static.sequencesLoad genEnv none none none none 0 = Except.error Err.{v})")
    import shutil
    shutil.rmtree(tmp, ignore_errors=True)


def save_cases(rng, n, add):
    """sequences_save: the returned MidiFile object (the write to disk is replaced by a no-op: the codec is not modelled)"""
    real_save = MidiFile.save
    MidiFile.save = lambda self, path: None
    try:
        for i in range(n):
            k = rng.randint(0, 3)
            rels = [rand_rel(rng, rng.random() < 0.2) for _ in range(k)]
            states = [rng.choice(["rel", "both", "abs"]) for _ in range(k)]
            pairs = [make_seq(r, st) for r, st in zip(rels, states)]
            kind, v = run(lambda: Sequence.sequences_save([p[0] for p in pairs], "unused.mid"))
            KINDS[("sequences_save", kind if kind != "err" else v)] = KINDS.get(("sequences_save", kind if kind != "err" else v), 0) + 1
            call = f"Gen.Static.sequencesSave genEnv [{', '.join(p[1] for p in pairs)}] ()"
            if kind == "ok":
                exp = ("({ tracks := [" + ", ".join("[" + ", ".join(L_midi_ev(m) for m in t.messages) + "]" for t in v.tracks)
                       + f"], ppqn := {v.PPQN} }} : GMidiFile)")
                add(f"sequences_save#{i}", f"decide ({call} = Except.ok {exp})")
            elif kind == "err":
                add(f"sequences_save#{i}", f"decide ({call} = Except.error Err.{v})")
    finally:
        MidiFile.save = real_save


EXTRA = [parser_cases, convert_cases, load_cases, save_cases]

if __name__ == "__main__":
    main()
