#!/venv/bin/python
"""py2lean_sort: translation of the ONE link every other translator uses by name — `AbsoluteSequence.sort`
(`self._messages.sort(key=lambda x: (…))`, scoda/sequences/absolute_sequence.py) and `MessageType.__lt__`
(scoda/enumerations/message_type.py) — into Lean 4.

    gen_sort_fns() -> str      text of lean/SCoda/Gen/SortFns.lean   (namespace SCoda.Gen.Sort)

`lean/SCoda/Props/SortTie.lean` proves the generated `sort` EQUAL to the hand model `SCoda.sortAbs` (Model/Sort.lean) on the
domain where Python does not raise, and (`sortOf_eq_isort`) to `isort keyLe` through any projection — which is the link
`list.sort ↦ sortAbs` of tools/py2lean.py and `sortRefs` of tools/py2lean_abs2.py.  So a semantic edit of the key lambda, of
`__lt__`, of the order of the enum members or of the `sort(...)` call changes the generated text and the theorems stop building.

The translator knows Python constructs, not these two functions.  Anything outside the subset raises `Untranslatable`.

SUBSET AND CONVENTIONS (hand-written prelude: lean/SCoda/Model/SortLib.lean — a model of the Python LANGUAGE: `==`/`<` on
None / int / enum members, tuple comparison, `list.index`, `list.sort`)
  enum      `class MessageType(enum.Enum)`: the members are the class-level assignments `NAME = <constant>` in source order
            (`messageTypeMembers`, constructor of `MType` = camelCase of NAME; a new / renamed member does not compile; the tie
            proves the names equal to `Gen.messageTypeOrder`, which gen_lean.py dumps by RUNNING the code — that catches
            aliases, i.e. two names with one value).  The class may define no comparison / hashing special method other than
            the translated `__lt__` (then `==` is identity and `>`/`<=`/`>=` are not supported, as in SortLib).
  values    everything that can occur in a key is a `KVal` (`none | int i | mtype t`).  `x.<field>` of a message reads
            `KVal.ofField x.<f>` (None is `pyNone`, as in every model: an int `-1` and `None` are THE SAME model value —
            for `time` and `note` that is the domain restriction stated in Props/SortTie.lean) or `KVal.mtype x.ty`.
            Inside `MessageType.__lt__`, `self` is a member and `other` is ANY key value (Python calls the method
            whatever the right operand is: `MessageType.X < None` is a ValueError of `.index`, not a TypeError).
  exprs     int constants, `-<int>`, `None`, `e is None` / `is not None`, `a if c else b`, `==` / `!=` on key values,
            `<` `<=` `>` `>=` on list positions, `and` / `or` / `not`, tuples of key values, `l.index(x)` (ValueError),
            `[e for e in <Enum>]` / `list(<Enum>)` (the members in declaration order).  Evaluation order is Python's.
  lambda    one parameter (the message); the body is a key value or a tuple of key values, no call.  The generated `keyLt`
            is `tupleLt` (tuple body) or `KVal.lt` (single value) with the translated `MessageType.__lt__` plugged in.
  sort      `self._messages.sort(key=<lambda>[, reverse=<bool constant>])` ↦ `pyListSort` (SortLib: stable insertion sort
            in `Except`; the theorem `stable_sort_unique` shows any stable sort is this function).  No positional
            arguments, no other keywords, `key` is required (a `Message` has no `__lt__`).
"""
import ast
import os

from py2lean import FIELD, Untranslatable, camel, check_message_class

REPO = os.environ.get("SCODA_REPO", "/repo")
ABS = "scoda/sequences/absolute_sequence.py"
MTY = "scoda/enumerations/message_type.py"
MSGPY = "scoda/elements/message.py"

KVAL, IDX, BOOL, LKVAL, TUPLE, MSG, MTYPE = "KVal", "Idx", "Bool", "List KVal", "Tuple", "Msg", "MType"
COMPARISON_SPECIALS = {"__eq__", "__ne__", "__lt__", "__le__", "__gt__", "__ge__", "__hash__", "__bool__", "__getattribute__",
                       "__getattr__", "__class_getitem__", "__new__", "__init__", "_missing_", "__iter__"}


def parse(rel):
    with open(os.path.join(REPO, rel)) as f:
        return ast.parse(f.read())


def find_class(tree, name, rel):
    cs = [c for c in tree.body if isinstance(c, ast.ClassDef) and c.name == name]
    if len(cs) != 1:
        raise Untranslatable(f"class {name} not found (or not unique) in {rel}")
    return cs[0]


def is_doc(s):
    return isinstance(s, ast.Expr) and isinstance(s.value, ast.Constant) and isinstance(s.value.value, str)


def lean_int(n):
    return f"({n})" if n < 0 else str(n)


class E:
    """a translated expression: Lean text, type, whether it contains a monadic `←`"""

    def __init__(self, text, ty, mon=False, n=None):
        self.text, self.ty, self.mon, self.n = text, ty, mon, n


class ExprTranslator:
    def __init__(self, qual, env, enum_name, allow_monadic):
        self.qual, self.env, self.enum_name, self.allow_monadic = qual, dict(env), enum_name, allow_monadic

    def bad(self, what, node=None):
        src = f": `{ast.unparse(node)}`" if node is not None else ""
        raise Untranslatable(f"{self.qual}: {what}{src}")

    def as_kval(self, e, node):
        if e.ty == KVAL:
            return e
        if e.ty == MTYPE:
            return E(f"(KVal.mtype {e.text})", KVAL, e.mon)
        self.bad(f"a value of type {e.ty} where a key value (None / int / MessageType member) is needed", node)

    def expr(self, n):
        if isinstance(n, ast.Constant):
            if n.value is None:
                return E("KVal.none", KVAL)
            if isinstance(n.value, bool):
                return E("true" if n.value else "false", BOOL)
            if isinstance(n.value, int):
                return E(f"(KVal.int {lean_int(n.value)})", KVAL)
            self.bad("constant outside the subset (only ints, None, booleans)", n)
        if isinstance(n, ast.UnaryOp) and isinstance(n.op, ast.USub) and isinstance(n.operand, ast.Constant) \
                and isinstance(n.operand.value, int) and not isinstance(n.operand.value, bool):
            return E(f"(KVal.int {lean_int(-n.operand.value)})", KVAL)
        if isinstance(n, ast.UnaryOp) and isinstance(n.op, ast.Not):
            a = self.expr(n.operand)
            if a.ty != BOOL:
                self.bad("`not` of a non-boolean (truthiness is not modelled)", n)
            return E(f"(!{a.text})", BOOL, a.mon)
        if isinstance(n, ast.Name):
            if n.id not in self.env:
                self.bad(f"unknown name {n.id}", n)
            lean, ty = self.env[n.id]
            return E(lean, ty)
        if isinstance(n, ast.Attribute):
            base = self.expr(n.value)
            if base.ty != MSG:
                self.bad(f"attribute of a value of type {base.ty}", n)
            if n.attr not in FIELD:
                self.bad(f"`{n.attr}` is not a stored attribute of Message", n)
            f, fty = FIELD[n.attr]
            if fty == "MType":
                return E(f"(KVal.mtype {base.text}.{f})", KVAL)
            return E(f"(KVal.ofField {base.text}.{f})", KVAL)
        if isinstance(n, ast.IfExp):
            c, a, b = self.expr(n.test), self.expr(n.body), self.expr(n.orelse)
            if c.ty != BOOL:
                self.bad("condition is not a boolean (truthiness is not modelled)", n.test)
            if c.mon or a.mon or b.mon:
                self.bad("a call that can raise inside a conditional expression (evaluation order)", n)
            a, b = self.as_kval(a, n.body), self.as_kval(b, n.orelse)
            return E(f"(if {c.text} then {a.text} else {b.text})", KVAL)
        if isinstance(n, ast.BoolOp):
            vs = [self.expr(v) for v in n.values]
            if any(v.ty != BOOL for v in vs):
                self.bad("`and` / `or` of non-booleans", n)
            if any(v.mon for v in vs[1:]):
                self.bad("a call that can raise behind a short-circuit operator", n)
            op = " && " if isinstance(n.op, ast.And) else " || "
            return E("(" + op.join(v.text for v in vs) + ")", BOOL, vs[0].mon)
        if isinstance(n, ast.Compare):
            if len(n.ops) != 1:
                self.bad("chained comparison", n)
            op, l, r = n.ops[0], self.expr(n.left), self.expr(n.comparators[0])
            mon = l.mon or r.mon
            if isinstance(op, (ast.Is, ast.IsNot)):
                if not (isinstance(n.comparators[0], ast.Constant) and n.comparators[0].value is None):
                    self.bad("`is` with something other than None", n)
                l = self.as_kval(l, n.left)
                t = f"(KVal.isNone {l.text})"
                return E(t if isinstance(op, ast.Is) else f"(!{t})", BOOL, mon)
            if isinstance(op, (ast.Eq, ast.NotEq)):
                if l.ty == IDX and r.ty == IDX:
                    t = f"(decide ({l.text} = {r.text}))"
                else:
                    l, r = self.as_kval(l, n.left), self.as_kval(r, n.comparators[0])
                    t = f"(KVal.eq {l.text} {r.text})"
                return E(t if isinstance(op, ast.Eq) else f"(!{t})", BOOL, mon)
            sym = {ast.Lt: "<", ast.LtE: "≤", ast.Gt: ">", ast.GtE: "≥"}.get(type(op))
            if sym is None:
                self.bad("comparison operator outside the subset", n)
            if l.ty != IDX or r.ty != IDX:
                self.bad(f"ordering comparison of {l.ty} and {r.ty} (only list positions are ordered inside a translated function; "
                         "`<` between key values is what is being defined)", n)
            return E(f"(decide ({l.text} {sym} {r.text}))", BOOL, mon)
        if isinstance(n, ast.Tuple):
            cs = [self.as_kval(self.expr(c), c) for c in n.elts]
            if any(c.mon for c in cs):
                self.bad("a call that can raise inside a key tuple", n)
            return E("[" + ", ".join(c.text for c in cs) + "]", TUPLE, False, len(cs))
        if isinstance(n, ast.ListComp):
            if len(n.generators) == 1 and not n.generators[0].ifs and not n.generators[0].is_async \
                    and isinstance(n.generators[0].target, ast.Name) and isinstance(n.elt, ast.Name) \
                    and n.elt.id == n.generators[0].target.id and self.is_enum(n.generators[0].iter):
                return E("(messageTypeMembers.map KVal.mtype)", LKVAL)
            self.bad("list comprehension outside the subset (only `[e for e in <the enum>]`)", n)
        if isinstance(n, ast.Call):
            if isinstance(n.func, ast.Name) and n.func.id == "list" and len(n.args) == 1 and not n.keywords and self.is_enum(n.args[0]):
                return E("(messageTypeMembers.map KVal.mtype)", LKVAL)
            if isinstance(n.func, ast.Attribute) and n.func.attr == "index" and len(n.args) == 1 and not n.keywords:
                recv = self.expr(n.func.value)
                if recv.ty != LKVAL:
                    self.bad(f".index on a value of type {recv.ty}", n)
                if not self.allow_monadic:
                    self.bad("a call that can raise inside the key function", n)
                a = self.as_kval(self.expr(n.args[0]), n.args[0])
                return E(f"(← pyIndex KVal.eq {recv.text} {a.text})", IDX, True)
            self.bad("call outside the subset", n)
        self.bad(f"expression outside the subset ({type(n).__name__})", n)

    def is_enum(self, n):
        return isinstance(n, ast.Name) and n.id == self.enum_name and n.id not in self.env


# ----------------------------------------------------------------------------------------------- MessageType

def enum_members(cls):
    """class-level assignments in source order; everything else at class level is refused"""
    if [ast.unparse(b) for b in cls.bases] not in (["enum.Enum"], ["Enum"]) or cls.keywords or cls.decorator_list:
        raise Untranslatable(f"{cls.name}: bases / decorators changed ({[ast.unparse(b) for b in cls.bases]}): only a plain enum.Enum is modelled")
    members, methods = [], []
    for s in cls.body:
        if is_doc(s):
            continue
        if isinstance(s, ast.Assign) and len(s.targets) == 1 and isinstance(s.targets[0], ast.Name) and isinstance(s.value, ast.Constant):
            name = s.targets[0].id
            if name.startswith("_"):
                raise Untranslatable(f"{cls.name}: class-level name {name} (sunder / private names change how Enum builds the class)")
            members.append((name, s.value.value))
        elif isinstance(s, ast.FunctionDef):
            methods.append(s)
        else:
            raise Untranslatable(f"{cls.name}: class-level statement outside the subset: `{ast.unparse(s)[:60]}`")
    if len({v for _, v in members}) != len(members):
        raise Untranslatable(f"{cls.name}: two members share a value (the second is an alias and is skipped by iteration)")
    if len({n for n, _ in members}) != len(members):
        raise Untranslatable(f"{cls.name}: a member name is assigned twice")
    return members, methods


def translate_lt(cls, methods):
    others = [m.name for m in methods if m.name in COMPARISON_SPECIALS and m.name != "__lt__"]
    if others:
        raise Untranslatable(f"{cls.name} defines {others}: `==`, hashing or the other orderings would no longer be Enum's defaults")
    lts = [m for m in methods if m.name == "__lt__"]
    if len(lts) != 1:
        raise Untranslatable(f"{cls.name}.__lt__ not found (or not unique)")
    fn = lts[0]
    if fn.decorator_list:
        raise Untranslatable(f"{cls.name}.__lt__ carries a decorator")
    a = fn.args
    if [x.arg for x in a.args] != ["self", "other"] or a.defaults or a.vararg or a.kwarg or a.kwonlyargs or a.posonlyargs:
        raise Untranslatable(f"{cls.name}.__lt__: signature is not (self, other)")
    qual = f"{cls.name}.__lt__"
    tr = ExprTranslator(qual, {"self": ("self_", MTYPE), "other": ("other", KVAL)}, cls.name, True)
    lines = []
    body = [s for s in fn.body if not is_doc(s)]
    for i, s in enumerate(body):
        if isinstance(s, ast.Assign) and len(s.targets) == 1 and isinstance(s.targets[0], ast.Name):
            v = s.targets[0].id
            if v in tr.env:
                raise Untranslatable(f"{qual}: {v} is assigned twice (or shadows a parameter)")
            e = tr.expr(s.value)
            if e.ty == TUPLE:
                raise Untranslatable(f"{qual}: a tuple stored in a local")
            lean_ty = {KVAL: "KVal", IDX: "Nat", BOOL: "Bool", LKVAL: "List KVal", MTYPE: "MType"}[e.ty]
            lines.append(f"  let {camel(v)} : {lean_ty} := {e.text}")
            tr.env[v] = (camel(v), e.ty)
        elif isinstance(s, ast.Return) and s.value is not None and i == len(body) - 1:
            e = tr.expr(s.value)
            if e.ty != BOOL:
                raise Untranslatable(f"{qual}: returns a value of type {e.ty}, not a boolean (truthiness of the result of `<` is not modelled)")
            lines.append(f"  return {e.text}")
        else:
            raise Untranslatable(f"{qual}: statement outside the subset: `{ast.unparse(s)[:70]}`")
    if not body or not isinstance(body[-1], ast.Return):
        raise Untranslatable(f"{qual}: does not end in `return` (would answer None)")
    return fn, lines


# ----------------------------------------------------------------------------------------------- AbsoluteSequence.sort

def translate_sort():
    tree = parse(ABS)
    cls = find_class(tree, "AbsoluteSequence", ABS)
    fns = [f for f in cls.body if isinstance(f, ast.FunctionDef) and f.name == "sort"]
    if len(fns) != 1:
        raise Untranslatable("AbsoluteSequence.sort not found (or not unique)")
    fn = fns[0]
    if fn.decorator_list:
        raise Untranslatable("AbsoluteSequence.sort carries a decorator")
    a = fn.args
    if [x.arg for x in a.args] != ["self"] or a.vararg or a.kwarg or a.kwonlyargs or a.posonlyargs:
        raise Untranslatable("AbsoluteSequence.sort: signature is not (self)")
    body = [s for s in fn.body if not is_doc(s)]
    if len(body) != 1 or not isinstance(body[0], ast.Expr) or not isinstance(body[0].value, ast.Call):
        raise Untranslatable("AbsoluteSequence.sort: the body is not a single call statement: " + "; ".join(ast.unparse(s)[:50] for s in body))
    call = body[0].value
    f = call.func
    if not (isinstance(f, ast.Attribute) and f.attr == "sort" and ast.unparse(f.value) == "self._messages"):
        raise Untranslatable(f"AbsoluteSequence.sort: the call is not `self._messages.sort(…)`: `{ast.unparse(f)}`")
    if call.args:
        raise Untranslatable("AbsoluteSequence.sort: list.sort takes no positional arguments")
    kws = {k.arg: k.value for k in call.keywords}
    if None in kws or set(kws) - {"key", "reverse"} or len(kws) != len(call.keywords):
        raise Untranslatable(f"AbsoluteSequence.sort: keywords {[k.arg for k in call.keywords]}")
    if "key" not in kws:
        raise Untranslatable("AbsoluteSequence.sort: no key function (Message defines no `__lt__`: every comparison would raise)")
    reverse = False
    if "reverse" in kws:
        r = kws["reverse"]
        if not (isinstance(r, ast.Constant) and isinstance(r.value, bool)):
            raise Untranslatable(f"AbsoluteSequence.sort: reverse=`{ast.unparse(r)}` is not a boolean constant")
        reverse = r.value
    lam = kws["key"]
    if not isinstance(lam, ast.Lambda):
        raise Untranslatable(f"AbsoluteSequence.sort: key=`{ast.unparse(lam)[:40]}` is not a lambda")
    la = lam.args
    if len(la.args) != 1 or la.defaults or la.vararg or la.kwarg or la.kwonlyargs or la.posonlyargs:
        raise Untranslatable("AbsoluteSequence.sort: the key lambda does not take exactly one parameter")
    p = la.args[0].arg
    tr = ExprTranslator("AbsoluteSequence.sort key", {p: (camel(p), MSG)}, "MessageType", False)
    e = tr.expr(lam.body)
    if e.ty == TUPLE:
        key_ty, klt = "List KVal", "tupleLt (KVal.lt messageTypeLt) KVal.eq a b"
    else:
        e = tr.as_kval(e, lam.body)
        key_ty, klt = "KVal", "KVal.lt messageTypeLt a b"
    return dict(fn=fn, param=camel(p), key=e.text, key_ty=key_ty, klt=klt, reverse=reverse, lam_src=" ".join(ast.unparse(lam).split()),
                call_src=" ".join(ast.unparse(body[0]).split()), arity=e.n)


def gen_sort_fns():
    check_message_class()
    mtree = parse(MTY)
    cls = find_class(mtree, "MessageType", MTY)
    members, methods = enum_members(cls)
    ltfn, ltlines = translate_lt(cls, methods)
    s = translate_sort()
    L = []
    L.append("/- GENERATED by tools/py2lean_sort.py (through tools/gen_lean.py) from /repo — do not edit.")
    L.append("   Translation of `AbsoluteSequence.sort` (its `list.sort` call and key lambda) and of `MessageType.__lt__`,")
    L.append("   expression by expression; Python's `==` / `<` on None / int / enum members, tuple comparison, `list.index` and")
    L.append("   `list.sort` are the hand-written language model lean/SCoda/Model/SortLib.lean (conventions: docstring of")
    L.append("   tools/py2lean_sort.py).  Tied to the hand model `SCoda.sortAbs` / `SCoda.keyLe` by lean/SCoda/Props/SortTie.lean.")
    L.append("   ASSUMPTION: CPython's list.sort is a stable comparison sort (SortLib.pyListSort; Lemmas/SortTieL.stable_sort_unique).")
    L.append("-/")
    L.append("import SCoda.Model.SortLib")
    L.append("set_option linter.unusedVariables false")
    L.append("namespace SCoda.Gen.Sort")
    L.append("")
    L.append("open SCoda SCoda.SortLib")
    L.append("")
    L.append(f"/-- the members of `{cls.name}` in declaration order ({MTY}:{cls.lineno}): what `[e for e in {cls.name}]` lists -/")
    L.append("def messageTypeMembers : List MType := [" + ", ".join("." + camel(n.lower()) for n, _ in members) + "]")
    L.append("/-- their Python names (compared with `Gen.messageTypeOrder`, which is dumped by running the code) -/")
    L.append("def messageTypeMemberNames : List String := [" + ", ".join('"' + n + '"' for n, _ in members) + "]")
    L.append("")
    L.append(f"/-- `{cls.name}.__lt__` ({MTY}:{ltfn.lineno}-{ltfn.end_lineno}); `other` is whatever stands right of `<` -/")
    L.append("def messageTypeLt (self_ : MType) (other : KVal) : Except SortErr Bool := do")
    L.extend(ltlines)
    L.append("")
    L.append(f"/-- the key function of `AbsoluteSequence.sort` ({ABS}:{s['fn'].lineno}-{s['fn'].end_lineno}):")
    L.append(f"    `{s['lam_src']}` -/")
    L.append(f"def sortKey ({s['param']} : Msg) : {s['key_ty']} :=")
    L.append(f"  {s['key']}")
    L.append("")
    L.append("/-- Python `a < b` on two keys -/")
    L.append(f"def keyLt (a b : {s['key_ty']}) : Except SortErr Bool := {s['klt']}")
    L.append("")
    L.append(f"/-- `AbsoluteSequence.sort` ({ABS}:{s['fn'].lineno}-{s['fn'].end_lineno}) on a list of anything that HOLDS a message (`msgOf`: the")
    L.append("    message itself, a reference into a heap, a message with an identity tag); returns the new `self._messages` -/")
    L.append("def sortOf {α : Type} (msgOf : α → Msg) (messages : List α) : Except SortErr (List α) := do")
    L.append("  let mut messages := messages")
    L.append(f"  -- {s['call_src']}")
    L.append(f"  messages ← pyListSort (fun x => sortKey (msgOf x)) keyLt {'true' if s['reverse'] else 'false'} messages")
    L.append("  return messages")
    L.append("")
    L.append("/-- `AbsoluteSequence.sort` on the message list itself -/")
    L.append("def sort (messages : List Msg) : Except SortErr (List Msg) := sortOf id messages")
    L.append("")
    L.append("/-- the (Python name, Lean name) pairs translated above (tools/translation_coverage.py reads this) -/")
    L.append('def translated : List (String × String) := [("AbsoluteSequence.sort", "sortOf"), ("MessageType.__lt__", "messageTypeLt")]')
    L.append("")
    L.append("end SCoda.Gen.Sort")
    return "\n".join(L) + "\n"


if __name__ == "__main__":
    print(gen_sort_fns())
