"""Translator for the element layer (scoda/elements/bar.py, track.py, composition.py).

`gen_elem_fns()` re-reads the current source of `Bar`, `Track`, `Composition` and emits
`lean/SCoda/Gen/ElemFns.lean` (namespace `SCoda.Gen.Elem`): one Lean `do` block in `Except Err` per method,
translated statement by statement on top of the translated `Sequence` wrapper (`Gen.Wrap.*`).
`Props/ElemTie.lean` proves the generated `Bar` functions equal to the hand model (`mkBar`, `Bar.copy`,
`barsToSeq`, … of Model/Bar.lean) that the C10 / C09 / C14 theorems are about.

Representation (hand-written `Model/ElemLib.lean`): a `Bar` object is `GBar` (its `Sequence` as a wrapper state
`Seq`, numerator, denominator, key index or `pyNone`), a `Track` is `GTrack` (bars, program), a `Composition` is
`GComposition` (tracks).  Objects are values; state changes of an object reached through a *loop or
comprehension variable* are not written back (such code only reads: `bar.sequence`, `bar.copy()`).

Python subset: field stores and reads, calls of translated `Sequence` methods on a field or local
(`self.sequence.pad(capacity)`), calls of translated element methods, constructors, `Message(…)`, `Sequence()`,
`int(<arithmetic>)` through the `PyNum` int/float tower (so `/` vs `//` and a missing `int()` change the
translation), `sum` / `all` / `len`, generator expressions and list comprehensions with a filter, `next(<generator>, None)`
(the first element or `None`: an `Option`), `<a> if <x> is not None else <b>` on such an `Option`, the view properties
`<sequence>.rel` / `<sequence>.abs` (the translated property `Wrap.getRel` / `Wrap.getAbs`: a stale view is regenerated
and the new wrapper state is written back) and `._messages` of the view they return, `for` over a
list or over `range(0, len(x))`, subscripts (IndexError when out of range), `if`, `raise`, `return`.
Links (assumptions): `Key.transpose_key` ↦ `e.tk`, `Sequence.sequences_split_bars` ↦ `View.seq_split_bars`
(Model/ElemLib.lean, in terms of the model `splitBars`).  Anything else raises `Untranslatable`.
"""
import ast
import os

from py2lean_wrap import (Untranslatable, camel, class_methods, gen_wrap_fns_ctx, LEAN_OF as WRAP_LEAN_OF, check_decorators, defaults_of,
                          check_pinned)

REPO = os.environ.get("SCODA_REPO", "/repo")

CLASSES = {
    "Bar": {
        "file": "scoda/elements/bar.py", "lean": "GBar",
        "fields": {"sequence": ("sequence", "Seq"), "time_signature_numerator": ("num", "Int"),
                   "time_signature_denominator": ("den", "Int"), "key_signature": ("key", "Key")},
        "methods": [("__init__", "barInit"), ("copy", "barCopy"), ("is_empty", "barIsEmpty"),
                    ("transpose", "barTranspose"), ("to_sequence", "barsToSequence")],
    },
    "Track": {
        "file": "scoda/elements/track.py", "lean": "GTrack",
        "fields": {"bars": ("bars", "List GBar"), "program": ("program", "Int"), "name": None},
        "methods": [("__init__", "trackInit"), ("copy", "trackCopy"), ("to_sequence", "trackToSequence")],
    },
    "Composition": {
        "file": "scoda/elements/composition.py", "lean": "GComposition",
        "fields": {"tracks": ("tracks", "List GTrack")},
        "methods": [("__init__", "compInit"), ("copy", "compCopy"), ("from_sequences", "compFromSequences"),
                    ("to_sequences", "compToSequences")],
    },
}
LEAN_CLASS = {v["lean"]: k for k, v in CLASSES.items()}
# Sequence methods whose only effect on their receiver is the refresh of a cached view (safe to call on an object that is not written back)
READ_ONLY_SEQ_METHODS = {"copy", "is_empty", "get_sequence_duration", "messages_rel", "messages_abs"}
# element methods that may be called on an object reached through a loop variable (they only read it / refresh caches)
READ_ONLY_ELEM_METHODS = {"copy", "to_sequence", "is_empty"}
EXC = {"BarException": "Err.barError", "TrackException": "Err.sequenceError"}
MSG_FIELDS = {"message_type": ("ty", "MType"), "channel": ("ch", "Int"), "time": ("time", "Int"), "note": ("note", "Int"),
              "velocity": ("vel", "Int"), "control": ("ctl", "Int"), "program": ("prog", "Int"),
              "numerator": ("num", "Int"), "denominator": ("den", "Int"), "key": ("key", "Key")}
MTYPES = {"INTERNAL": "internal", "SEQUENCE_CONTROL": "sequenceControl", "KEY_SIGNATURE": "keySignature",
          "TIME_SIGNATURE": "timeSignature", "CONTROL_CHANGE": "controlChange", "PROGRAM_CHANGE": "programChange",
          "NOTE_OFF": "noteOff", "NOTE_ON": "noteOn", "WAIT": "wait"}
PARAM_TYPES = {  # (class, method, param) -> lean type; None default of an Int/Key-typed parameter is pyNone
    ("Bar", "__init__", "sequence"): "Seq", ("Bar", "__init__", "numerator"): "Int", ("Bar", "__init__", "denominator"): "Int",
    ("Bar", "__init__", "key"): "Key", ("Bar", "__init__", "default_channel"): "Int",
    ("Bar", "transpose", "transpose_by"): "Int", ("Bar", "to_sequence", "bars"): "List GBar",
    ("Track", "__init__", "bars"): "List GBar", ("Track", "__init__", "name"): "Name",
    ("Composition", "__init__", "tracks"): "List GTrack",
    ("Composition", "from_sequences", "sequences"): "List Seq", ("Composition", "from_sequences", "meta_track_index"): "Nat",
}


def paren(t):
    return f"({t})" if " " in t else t


def elem_of(t):
    if not t.startswith("List "):
        raise Untranslatable(f"not a list type: {t}")
    inner = t[5:]
    return inner[1:-1] if inner.startswith("(") and inner.endswith(")") else inner


class ElemTranslator:
    def __init__(self, cls, fn, G):
        self.cls, self.fn, self.G = cls, fn, G
        self.cfg = CLASSES[cls]
        self.lines = []
        self.types = {}
        self.tmp = 0
        self.ret_type = None
        self.decl_fixups = {}     # local list name -> index of its declaration line
        decos = [ast.unparse(d) for d in fn.decorator_list]
        self.static = "staticmethod" in decos
        self.is_init = fn.name == "__init__"

    def fresh(self, base="t"):
        self.tmp += 1
        return f"{base}{self.tmp}"

    def emit(self, ind, text, src=None):
        if src is not None:
            self.lines.append(f"{ind}-- {src}")
        self.lines.append(ind + text)

    def lname(self, py):
        return camel(py) + "_"

    # ------------------------------------------------------------------ expressions
    def is_self(self, n):
        return isinstance(n, ast.Name) and n.id == "self" and not self.static

    def lvalue(self, n):
        """an assignable Seq/GBar-valued place: self.<field>, a local. Returns (read text, type, setter)"""
        if isinstance(n, ast.Attribute) and self.is_self(n.value):
            if n.attr not in self.cfg["fields"]:
                raise Untranslatable(f"unknown field {n.attr}")
            f = self.cfg["fields"][n.attr]
            if f is None:
                return "()", "Name", None        # a field outside the model (Track.name)
            lean_f, ty = f
            return f"self_.{lean_f}", ty, (lambda v: f"self_ := {{ self_ with {lean_f} := {v} }}")
        if isinstance(n, ast.Name) and n.id in self.types:
            v = self.lname(n.id)
            if n.id in self.readonly:
                return v, self.types[n.id], None
            return v, self.types[n.id], (lambda val: f"{v} := {val}")
        if isinstance(n, ast.Attribute):
            base, bt, _ = self.lvalue(n.value)
            fld = self.obj_field(bt, n.attr)
            return f"{base}.{fld[0]}", fld[1], None
        raise Untranslatable(f"not a place: {ast.unparse(n)}")

    def obj_field(self, ty, attr):
        if ty in LEAN_CLASS:
            f = CLASSES[LEAN_CLASS[ty]]["fields"].get(attr)
            if f is None:
                raise Untranslatable(f"{ty} has no field {attr}")
            return f
        if ty == "Msg":
            if attr not in MSG_FIELDS:
                raise Untranslatable(f"Message has no field {attr}")
            return MSG_FIELDS[attr]
        raise Untranslatable(f"attribute {attr} of {ty}")

    def pynum(self, n, ind):
        """arithmetic inside int(...): Python's int/float tower"""
        if isinstance(n, ast.BinOp):
            a, b = self.pynum(n.left, ind), self.pynum(n.right, ind)
            if isinstance(n.op, ast.Mult):
                return f"(PyNum.mul {a} {b})"
            if isinstance(n.op, ast.Div):
                return f"(PyNum.truediv {a} {b})"
            raise Untranslatable(f"operator {type(n.op).__name__} in a numeric expression")
        v, t = self.expr(n, ind)
        if t != "Int":
            raise Untranslatable(f"numeric leaf {ast.unparse(n)} : {t}")
        return f"(PyNum.int {v})"

    def cmp_int(self, op, a, b):
        sym = {ast.Eq: "=", ast.NotEq: "≠", ast.Lt: "<", ast.LtE: "≤", ast.Gt: ">", ast.GtE: "≥"}.get(type(op))
        if sym is None:
            raise Untranslatable(f"comparison {type(op).__name__}")
        return f"decide ({a} {sym} {b})"

    def expr(self, n, ind):
        if isinstance(n, ast.Constant):
            if n.value is True:
                return "true", "Bool"
            if n.value is False:
                return "false", "Bool"
            if n.value is None:
                return "pyNone", "NoneT"
            if isinstance(n.value, int):
                return (f"({n.value})" if n.value < 0 else str(n.value)), "Int"
            raise Untranslatable(f"constant {n.value!r}")
        if isinstance(n, ast.Name):
            if n.id == "PPQN":
                return "e.ppqn", "Int"
            if n.id not in self.types:
                raise Untranslatable(f"unknown name {n.id}")
            return self.lname(n.id), self.types[n.id]
        if isinstance(n, ast.Attribute):
            if isinstance(n.value, ast.Name) and n.value.id == "MessageType":
                if n.attr not in MTYPES:
                    raise Untranslatable(f"MessageType.{n.attr}")
                return f"MType.{MTYPES[n.attr]}", "MType"
            if n.attr in ("rel", "abs"):
                prop = self.view_property(n, ind)
                if prop is not None:
                    return prop
            if n.attr == "_messages":
                # the message list of a view object (RelativeSequence / AbsoluteSequence): the view itself in the value model
                v, t = self.expr(n.value, ind)
                if t not in ("RelView", "AbsView"):
                    raise Untranslatable(f"._messages of {t}: {ast.unparse(n)}")
                return v, "List Msg"
            try:
                v, t, _ = self.lvalue(n)
                return v, t
            except Untranslatable:
                base, bt = self.expr(n.value, ind)
                fld = self.obj_field(bt, n.attr)
                return f"{base}.{fld[0]}", fld[1]
        if isinstance(n, ast.UnaryOp) and isinstance(n.op, ast.Not):
            v, t = self.expr(n.operand, ind)
            if t != "Bool":
                raise Untranslatable("not of a non-bool")
            return f"(!{v})", "Bool"
        if isinstance(n, ast.BoolOp):
            vs = [self.expr(v, ind) for v in n.values]
            if any(t != "Bool" for _, t in vs):
                raise Untranslatable("bool op of non-bools")
            return "(" + (" && " if isinstance(n.op, ast.And) else " || ").join(v for v, _ in vs) + ")", "Bool"
        if isinstance(n, ast.Compare):
            if len(n.ops) != 1:
                raise Untranslatable("chained comparison")
            op, right = n.ops[0], n.comparators[0]
            if isinstance(op, (ast.Is, ast.IsNot)) and isinstance(right, ast.Constant) and right.value is None:
                v, t = self.expr(n.left, ind)
                if t not in ("Key", "Int"):
                    raise Untranslatable(f"`is None` on {t}")
                return (f"decide ({v} = pyNone)" if isinstance(op, ast.Is) else f"decide ({v} ≠ pyNone)"), "Bool"
            a, ta = self.expr(n.left, ind)
            b, tb = self.expr(right, ind)
            if ta == tb == "MType" and isinstance(op, (ast.Eq, ast.NotEq)):
                return (f"({a} == {b})" if isinstance(op, ast.Eq) else f"({a} != {b})"), "Bool"
            if {ta, tb} <= {"Int", "Nat"} and ta == tb:
                return self.cmp_int(op, a, b), "Bool"
            raise Untranslatable(f"comparison of {ta} and {tb}: {ast.unparse(n)}")
        if isinstance(n, ast.IfExp):
            return self.ifexp(n, ind)
        if isinstance(n, ast.Subscript):
            v, t = self.expr(n.value, ind)
            i, ti = self.expr(n.slice, ind)
            et = elem_of(t)
            tmp = self.fresh("x")
            if ti == "Nat":
                self.emit(ind, f"let {tmp} ← pyGetNat {v} {i}")
            elif ti == "Int":
                self.emit(ind, f"let {tmp} ← pyGetInt {v} {i}")
            else:
                raise Untranslatable(f"subscript index of type {ti}")
            return tmp, et
        if isinstance(n, (ast.ListComp, ast.GeneratorExp)):
            return self.comprehension(n, ind)
        if isinstance(n, ast.List) and not n.elts:
            return "[]", "List ?"
        if isinstance(n, ast.Call):
            return self.call(n, ind)
        raise Untranslatable(f"expression {ast.unparse(n)}")

    def view_property(self, n, ind):
        """`<Seq place>.rel` / `.abs`: the translated property (sequence.py `rel` / `abs`) — a stale view is regenerated from the
        other one (SequenceException when both are stale), the flag is cleared, and the wrapper state is written back to the place
        it was read from; the value is the view.  None if the receiver is not a Sequence-valued place."""
        try:
            recv, rt, setter = self.lvalue(n.value)
        except Untranslatable:
            return None
        if rt != "Seq":
            return None
        getter = {"rel": "getRel", "abs": "getAbs"}[n.attr]
        t = self.fresh("r")
        self.emit(ind, f"let {t} ← Wrap.{getter} e {recv}")
        if setter is not None:
            self.emit(ind, setter(f"{t}.1"))
        # (for a place without a setter — a loop variable or parameter — the refresh of the cache is not written back: the
        #  property only regenerates a cached view, as the methods of READ_ONLY_SEQ_METHODS do)
        return f"{t}.2", ("RelView" if n.attr == "rel" else "AbsView")

    def ifexp(self, n, ind):
        """`<a> if <x> is not None else <b>` / `<b> if <x> is None else <a>` for a local `x : Option T`: a `match` in which `x` is
        the unwrapped value inside `<a>`; other conditional expressions: `if c then a else b` on a Bool condition."""
        tst = n.test
        if isinstance(tst, ast.Compare) and len(tst.ops) == 1 and isinstance(tst.ops[0], (ast.Is, ast.IsNot)) \
                and isinstance(tst.comparators[0], ast.Constant) and tst.comparators[0].value is None \
                and isinstance(tst.left, ast.Name) and self.types.get(tst.left.id, "").startswith("Option "):
            name = tst.left.id
            some_branch, none_branch = (n.body, n.orelse) if isinstance(tst.ops[0], ast.IsNot) else (n.orelse, n.body)
            opt_t = self.types[name]
            inner = opt_t[len("Option "):]
            inner = inner[1:-1] if inner.startswith("(") else inner
            mark = len(self.lines)
            nv, nt = self.expr(none_branch, ind)
            # inside the `some` branch the name denotes the unwrapped value
            saved_ro = name in self.readonly
            self.types[name] = inner
            self.readonly.add(name)
            try:
                sv, st = self.expr(some_branch, ind)
            finally:
                self.types[name] = opt_t
                if not saved_ro:
                    self.readonly.discard(name)
            if len(self.lines) != mark:
                raise Untranslatable(f"conditional expression with effects: {ast.unparse(n)}")
            if st != nt:
                nv = self.coerce(nv, nt, st)
            ln = self.lname(name)
            return f"(match {ln} with | some {ln} => {sv} | none => {nv})", st
        c, ct = self.expr(tst, ind)
        if ct != "Bool":
            raise Untranslatable(f"condition of {ast.unparse(n)} : {ct}")
        mark = len(self.lines)
        a, ta = self.expr(n.body, ind)
        b, tb = self.expr(n.orelse, ind)
        if len(self.lines) != mark:
            raise Untranslatable(f"conditional expression with effects: {ast.unparse(n)}")
        if ta != tb:
            b = self.coerce(b, tb, ta)
        return f"(if {c} then {a} else {b})", ta

    def comprehension(self, n, ind):
        if len(n.generators) != 1 or not isinstance(n.generators[0].target, ast.Name):
            raise Untranslatable(f"comprehension {ast.unparse(n)}")
        g = n.generators[0]
        it, it_t = self.expr(g.iter, ind)
        et = elem_of(it_t)
        var = g.target.id
        saved = (self.types.get(var), var in self.readonly)
        self.types[var] = et
        self.readonly.add(var)
        try:
            mark = len(self.lines)
            conds = []
            for c in g.ifs:
                cv, ct = self.expr(c, ind + "    ")
                if ct != "Bool":
                    raise Untranslatable("comprehension filter is not a bool")
                conds.append(cv)
            if len(self.lines) != mark:
                raise Untranslatable("comprehension filter with effects")
            src = it if not conds else f"({it}.filter (fun {self.lname(var)} => {' && '.join(conds)}))"
            ev, etype = self.expr(n.elt, ind + "    ")
            body = self.lines[mark:]
            del self.lines[mark:]
            if not body:
                if isinstance(n.elt, ast.Name) and n.elt.id == var:
                    return src, f"List {paren(et)}"
                return f"({src}.map (fun {self.lname(var)} => {ev}))", f"List {paren(etype)}"
            t = self.fresh("vs")
            self.emit(ind, f"let {t} ← {src}.mapM (fun {self.lname(var)} => do")
            self.lines.extend(body)
            self.emit(ind + "    ", f"pure ({ev}))")
            return t, f"List {paren(etype)}"
        finally:
            if saved[0] is None:
                self.types.pop(var, None)
            else:
                self.types[var] = saved[0]
            if not saved[1]:
                self.readonly.discard(var)

    def bind_args(self, sig, call, ind, what):
        names = [p[0] for p in sig]
        given = {}
        for i, a in enumerate(call.args):
            if i >= len(names):
                raise Untranslatable(f"too many arguments in {ast.unparse(call)}")
            given[names[i]] = a
        for kw in call.keywords:
            if kw.arg not in names or kw.arg in given:
                raise Untranslatable(f"keyword {kw.arg} in {ast.unparse(call)}")
            given[kw.arg] = kw.value
        out = []
        for name, default, ty in sig:
            node = given.get(name, default)
            if node is None:
                raise Untranslatable(f"missing argument {name} of {what}")
            v, t = self.expr(node, ind)
            out.append(self.coerce(v, t, ty))
        return out

    def coerce(self, v, t, want):
        if t == want:
            return v
        if t == "NoneT" and want in ("Key", "Int", "Name"):
            return "pyNone" if want != "Name" else "()"
        if t == "NoneT" and want.startswith("Option"):
            return "none"
        if want == f"Option ({t})" or want == f"Option {t}":
            return f"(some {v})"
        if want == "Option (Nat)" and t == "Int" and v.isdigit():
            return f"(some {v})"
        if t == "List ?" and want.startswith("List"):
            return "[]"
        if t == "Int" and want == "Key":
            return v
        raise Untranslatable(f"type mismatch: {v} : {t}, expected {want}")

    def call(self, n, ind):
        f = n.func
        src = ast.unparse(n)
        if isinstance(f, ast.Name):
            if f.id == "super":
                return "()", "Unit"
            if f.id == "len" and len(n.args) == 1:
                v, t = self.expr(n.args[0], ind)
                elem_of(t)
                return f"({v}.length : Int)", "Int"
            if f.id == "int" and len(n.args) == 1:
                return f"(pyIntOf {self.pynum(n.args[0], ind)})", "Int"
            if f.id == "sum" and len(n.args) == 1:
                v, t = self.expr(n.args[0], ind)
                if t != "List Int":
                    raise Untranslatable(f"sum over {t}")
                return f"{v}.sum", "Int"
            if f.id == "next":
                # next(<iterable>, None): the first element, or None when there is none.  (Without a default the call raises
                # StopIteration on an empty iterable: refused.)  The generator is lazy in Python; its filter has no effects (checked in
                # `comprehension`), so the first element of the filtered list is what the generator yields first.
                if len(n.args) != 2 or n.keywords or not (isinstance(n.args[1], ast.Constant) and n.args[1].value is None):
                    raise Untranslatable(f"next without a None default: {src}")
                if not isinstance(n.args[0], ast.GeneratorExp):
                    raise Untranslatable(f"next of something that is not a generator expression: {src}")
                v, t = self.expr(n.args[0], ind)
                return f"{v}.head?", f"Option {paren(elem_of(t))}"
            if f.id == "all" and len(n.args) == 1:
                v, t = self.expr(n.args[0], ind)
                if t != "List Bool":
                    raise Untranslatable(f"all over {t}")
                return f"({v}.all id)", "Bool"
            if f.id == "range" and len(n.args) == 2 and isinstance(n.args[0], ast.Constant) and n.args[0].value == 0 \
                    and isinstance(n.args[1], ast.Call) and isinstance(n.args[1].func, ast.Name) and n.args[1].func.id == "len":
                v, t = self.expr(n.args[1].args[0], ind)
                elem_of(t)
                return f"(List.range {v}.length)", "List Nat"
            if f.id == "Sequence" and not n.args and not n.keywords:
                return "Seq.new", "Seq"
            if f.id == "Message":
                return self.message(n, ind)
            if f.id in CLASSES:
                return self.construct(f.id, n, ind)
            raise Untranslatable(f"call {src}")
        if isinstance(f, ast.Attribute):
            # super().__init__()
            if f.attr == "__init__" and isinstance(f.value, ast.Call) and isinstance(f.value.func, ast.Name) and f.value.func.id == "super":
                return "()", "Unit"
            # self.__class__(args)
            if f.attr == "__class__":
                raise Untranslatable("bare __class__")
            if isinstance(f.value, ast.Attribute) and f.value.attr == "__class__" and self.is_self(f.value.value):
                pass
            # static / class-level calls
            if isinstance(f.value, ast.Name) and f.value.id == "Key" and f.attr == "transpose_key" and len(n.args) == 2:
                k, tk = self.expr(n.args[0], ind)
                b, tb = self.expr(n.args[1], ind)
                if tk != "Key" or tb != "Int":
                    raise Untranslatable(f"transpose_key argument types {tk}, {tb}")
                return f"(e.tk {k} {b})", "Key"
            if isinstance(f.value, ast.Name) and f.value.id == "Sequence" and f.attr == "sequences_split_bars":
                sig = [("sequences_input", None, "List Seq"), ("meta_track_index", ast.Constant(0), "Nat"),
                       ("quantise_note_lengths", ast.Constant(True), "Bool")]
                args = self.bind_args(sig, n, ind, "sequences_split_bars")
                t = self.fresh("r")
                self.emit(ind, f"let {t} ← View.seq_split_bars e {' '.join(args)}")
                return t, "List (List GBar)"
            if isinstance(f.value, ast.Name) and f.value.id in CLASSES and f.value.id not in self.types:
                cls = f.value.id
                return self.elem_method(cls, f.attr, None, n, ind)
            # <append>
            if f.attr == "append" and len(n.args) == 1 and isinstance(f.value, ast.Name) and f.value.id in self.types:
                name = f.value.id
                v, t = self.expr(n.args[0], ind)
                if self.types[name] == "List ?":
                    self.types[name] = f"List {paren(t)}"
                elif elem_of(self.types[name]) != t:
                    raise Untranslatable(f"append of {t} to {self.types[name]}")
                self.emit(ind, f"{self.lname(name)} := {self.lname(name)} ++ [{v}]")
                return "()", "Unit"
            # method on an object-valued place
            recv, rt, setter = self.lvalue(f.value) if not isinstance(f.value, ast.Call) else (None, None, None)
            if recv is None:
                raise Untranslatable(f"call on a call result: {src}")
            if rt == "Seq":
                if f.attr not in WRAP_LEAN_OF or f.attr in ("abs", "rel"):
                    raise Untranslatable(f"Sequence method {f.attr} is not translated")
                if setter is None and f.attr not in READ_ONLY_SEQ_METHODS:
                    raise Untranslatable(f"{src}: a mutating Sequence method is called on an object reached through a loop / comprehension variable "
                                         f"or a parameter; its effect would not be written back in the value model")
                sig = self.G["wrap_sigs"][f.attr]
                args = self.bind_args(sig, n, ind, f"Sequence.{f.attr}")
                gen = f.attr in ("messages_abs", "messages_rel")
                t = self.fresh("r")
                self.emit(ind, f"let {t} ← Wrap.{WRAP_LEAN_OF[f.attr]} e {recv} {' '.join(args)}{' id' if gen else ''}".rstrip())
                if setter is not None:
                    self.emit(ind, setter(f"{t}.1"))
                if gen:
                    # iterating the generator to its end without editing: the messages of the view
                    view = "abs" if f.attr == "messages_abs" else "rel"
                    return f"{t}.1.{view}", "List Msg"
                return f"{t}.2", self.G["wrap_rets"][f.attr]
            if rt in LEAN_CLASS:
                return self.elem_method(LEAN_CLASS[rt], f.attr, (recv, setter), n, ind)
            raise Untranslatable(f"method {f.attr} on {rt}: {src}")
        # self.__class__(...)
        raise Untranslatable(f"call {src}")

    def message(self, n, ind):
        if n.args:
            raise Untranslatable("positional Message arguments")
        fields = {}
        for kw in n.keywords:
            if kw.arg not in MSG_FIELDS:
                raise Untranslatable(f"Message keyword {kw.arg}")
            lf, lt = MSG_FIELDS[kw.arg]
            v, t = self.expr(kw.value, ind)
            if lf == "ch":
                # Message.__init__: a None channel becomes 0
                v = "0" if t == "NoneT" else f"(if {v} = pyNone then 0 else {v})"
            else:
                v = self.coerce(v, t, lt)
            fields[lf] = v
        if "ty" not in fields:
            raise Untranslatable("Message without message_type")
        return "({ " + ", ".join(f"{k} := {v}" for k, v in fields.items()) + " } : Msg)", "Msg"

    def construct(self, cls, n, ind):
        info = self.G["elem"].get((cls, "__init__"))
        if info is None:
            raise Untranslatable(f"{cls}.__init__ is not translated yet")
        args = self.bind_args(info["sig"], n, ind, f"{cls}()")
        t = self.fresh("o")
        self.emit(ind, f"let {t} ← {info['lean']} e {' '.join(args)}".rstrip())
        return t, CLASSES[cls]["lean"]

    def elem_method(self, cls, meth, recv, n, ind):
        info = self.G["elem"].get((cls, meth))
        if info is None:
            raise Untranslatable(f"{cls}.{meth} is not translated (yet)")
        args = self.bind_args(info["sig"], n, ind, f"{cls}.{meth}")
        t = self.fresh("r")
        if info["static"]:
            self.emit(ind, f"let {t} ← {info['lean']} e {' '.join(args)}".rstrip())
            return t, info["ret"]
        if recv is None:
            raise Untranslatable(f"instance method {cls}.{meth} called on the class")
        rv, setter = recv
        if setter is None and meth not in READ_ONLY_ELEM_METHODS:
            raise Untranslatable(f"{cls}.{meth} is called on an object reached through a loop / comprehension variable or a parameter; its effect "
                                 f"would not be written back in the value model")
        self.emit(ind, f"let {t} ← {info['lean']} e {rv} {' '.join(args)}".rstrip())
        if setter is not None:
            self.emit(ind, setter(f"{t}.1"))
        return f"{t}.2", info["ret"]

    # ------------------------------------------------------------------ statements
    def assign_local(self, name, v, t, ind):
        ln = self.lname(name)
        if name not in self.types:
            self.types[name] = t
            if t == "List ?":
                self.decl_fixups[name] = len(self.lines)
                self.lines.append(f"{ind}@@DECL {name}@@")
            else:
                self.emit(ind, f"let mut {ln} : {t} := {v}")
        else:
            self.emit(ind, f"{ln} := {self.coerce(v, t, self.types[name])}")

    def stmts(self, body, ind):
        for s in body:
            src = ast.unparse(s).split("\n")[0]
            if isinstance(s, ast.Expr) and isinstance(s.value, ast.Constant) and isinstance(s.value.value, str):
                continue
            if isinstance(s, ast.Expr) and isinstance(s.value, ast.Call):
                self.lines.append(f"{ind}-- {src}")
                self.expr(s.value, ind)
            elif isinstance(s, (ast.Assign, ast.AnnAssign)):
                tgt = s.targets[0] if isinstance(s, ast.Assign) else s.target
                if isinstance(s, ast.Assign) and len(s.targets) != 1:
                    raise Untranslatable("multiple assignment")
                self.lines.append(f"{ind}-- {src}")
                # self.sequence._abs_stale = True
                if isinstance(tgt, ast.Attribute) and tgt.attr in ("_abs_stale", "_rel_stale"):
                    recv, rt, setter = self.lvalue(tgt.value)
                    v, t = self.expr(s.value, ind)
                    if rt != "Seq" or t != "Bool" or setter is None:
                        raise Untranslatable(f"flag store {src}")
                    fld = "absStale" if tgt.attr == "_abs_stale" else "relStale"
                    self.emit(ind, setter(f"{{ {recv} with {fld} := {v} }}"))
                elif isinstance(tgt, ast.Attribute) and self.is_self(tgt.value):
                    f = self.cfg["fields"].get(tgt.attr, "missing")
                    if f == "missing":
                        raise Untranslatable(f"store into unknown field {tgt.attr}")
                    v, t = self.expr(s.value, ind)
                    if f is None:
                        continue          # a field outside the model (Track.name)
                    self.emit(ind, f"self_ := {{ self_ with {f[0]} := {self.coerce(v, t, f[1])} }}")
                elif isinstance(tgt, ast.Name):
                    v, t = self.expr(s.value, ind)
                    self.assign_local(tgt.id, v, t, ind)
                else:
                    raise Untranslatable(f"assignment target {src}")
            elif isinstance(s, ast.If):
                c, t = self.expr(s.test, ind)
                if t != "Bool":
                    raise Untranslatable(f"condition {ast.unparse(s.test)} : {t}")
                self.emit(ind, f"if {c} then", f"if {ast.unparse(s.test)}:")
                self.stmts(s.body, ind + "  ")
                if s.orelse:
                    self.emit(ind, "else")
                    self.stmts(s.orelse, ind + "  ")
            elif isinstance(s, ast.Raise):
                txt = ast.unparse(s.exc)
                name = txt.split("(")[0]
                if name not in EXC:
                    raise Untranslatable(f"raise {txt}")
                self.emit(ind, f"throw {EXC[name]}", src)
            elif isinstance(s, ast.Return):
                self.lines.append(f"{ind}-- {src}")
                v, t = ("()", "Unit") if s.value is None else self.expr(s.value, ind)
                if self.ret_type not in (None, t):
                    raise Untranslatable(f"return types differ: {self.ret_type} / {t}")
                self.ret_type = t
                self.emit(ind, f"return {v}" if self.static else f"return (self_, {v})")
            elif isinstance(s, ast.For):
                if s.orelse or not isinstance(s.target, ast.Name):
                    raise Untranslatable(f"for loop {src}")
                self.lines.append(f"{ind}-- {src}")
                v, t = self.expr(s.iter, ind)
                var = s.target.id
                self.types[var] = elem_of(t)
                self.readonly.add(var)
                self.emit(ind, f"for {self.lname(var)} in {v} do")
                self.stmts(s.body, ind + "  ")
                self.readonly.discard(var)
            elif isinstance(s, ast.Pass):
                self.emit(ind, "pure ()", src)
            else:
                raise Untranslatable(f"statement {type(s).__name__}: {src}")

    def translate(self, lean_name, sig):
        self.readonly = set()
        params = []
        for name, default, ty in sig:
            self.types[name] = ty
            self.readonly.add(name)
            lean_ty = "Unit" if ty == "Name" else ("Int" if ty == "Key" else ty)
            params.append(f"({self.lname(name)} : {lean_ty})")
        self.stmts(self.fn.body, "  ")
        for name, idx in self.decl_fixups.items():
            t = self.types[name]
            if t == "List ?":
                raise Untranslatable(f"element type of {name} unknown")
            ind = self.lines[idx][: len(self.lines[idx]) - len(self.lines[idx].lstrip())]
            self.lines[idx] = f"{ind}let mut {self.lname(name)} : {t} := []"
        lean_cls = self.cfg["lean"]
        last = [s for s in self.fn.body if not (isinstance(s, ast.Expr) and isinstance(s.value, ast.Constant))][-1]
        if self.is_init:
            self.lines.append("  return self_")
            ret = lean_cls
            head = f"def {lean_name} (e : Env) {' '.join(params)} : Except Err {ret} := do".replace("  :", " :")
            pre = [f"  let mut self_ : {lean_cls} := default"]
        elif self.static:
            if not isinstance(last, ast.Return):
                raise Untranslatable("static method without a final return")
            ret = self.ret_type
            head = f"def {lean_name} (e : Env) {' '.join(params)} : Except Err {paren(ret)} := do".replace("  :", " :")
            pre = []
        else:
            if not isinstance(last, ast.Return):
                if self.ret_type not in (None, "Unit"):
                    raise Untranslatable("falls off the end of a value-returning method")
                self.ret_type = "Unit"
                self.lines.append("  return (self_, ())")
            ret = self.ret_type
            head = f"def {lean_name} (e : Env) (self0 : {lean_cls}) {' '.join(params)} : Except Err ({lean_cls} × {paren(ret)}) := do".replace("  :", " :")
            pre = ["  let mut self_ := self0"]
        text = "\n".join([head] + pre + self.lines) + "\n"
        text = text.replace(" : Key", " : Int").replace("(Key)", "(Int)")
        return text, (lean_cls if self.is_init else ret)


def method_sig(cls, fn, static):
    args = fn.args.args if static else fn.args.args[1:]
    defaults = [None] * (len(args) - len(fn.args.defaults)) + list(fn.args.defaults)
    sig = []
    for a, d in zip(args, defaults):
        ty = PARAM_TYPES.get((cls, fn.name, a.arg))
        if ty is None:
            raise Untranslatable(f"parameter {cls}.{fn.name}({a.arg}): no type")
        sig.append((a.arg, d, ty))
    return sig


def gen_elem_fns():
    _, wctx, wrets = gen_wrap_fns_ctx()
    G = {"wrap_sigs": wctx.wrapper_sigs, "wrap_rets": wrets, "elem": {}}
    defaults = []
    out = []
    names = []
    # order: Bar.to_sequence before Track (Track.__init__ calls it); Bar.__init__ before Bar.copy
    order = [("Bar", "__init__"), ("Bar", "copy"), ("Bar", "is_empty"), ("Bar", "transpose"), ("Bar", "to_sequence"),
             ("Track", "__init__"), ("Track", "copy"), ("Track", "to_sequence"),
             ("Composition", "__init__"), ("Composition", "copy"), ("Composition", "from_sequences"), ("Composition", "to_sequences")]
    cache = {}
    for cls, meth in order:
        cfg = CLASSES[cls]
        if cls not in cache:
            cache[cls] = class_methods(os.path.join(REPO, cfg["file"]), cls)
        if meth not in cache[cls]:
            raise Untranslatable(f"{cls}.{meth} not found")
        fn = cache[cls][meth]
        check_decorators(fn, f"{cls}.{meth}")
        defaults += defaults_of(cls, fn)
        lean = dict(cfg["methods"])[meth]
        static = any(ast.unparse(d) == "staticmethod" for d in fn.decorator_list)
        sig = method_sig(cls, fn, static)
        # `self.__class__(...)` inside a method of `cls` is `cls(...)`
        for node in ast.walk(fn):
            if isinstance(node, ast.Call) and isinstance(node.func, ast.Attribute) and node.func.attr == "__class__" \
                    and isinstance(node.func.value, ast.Name) and node.func.value.id == "self":
                node.func = ast.Name(id=cls, ctx=ast.Load())
        tr = ElemTranslator(cls, fn, G)
        text, ret = tr.translate(lean, sig)
        G["elem"][(cls, meth)] = {"lean": lean, "sig": sig, "ret": ret, "static": static}
        out.append(f"/-- translation of `{cls}.{meth}` ({cfg['file'].split('/')[-1]}:{fn.lineno}) -/\n{text}")
        names.append(f"{cls}.{meth}")
    head = [
        "/- GENERATED by tools/py2lean_elem.py from scoda/elements/{bar,track,composition}.py — do not edit.",
        "   Statement-by-statement translation on top of the translated `Sequence` wrapper (Gen/WrapFns.lean).",
        "   Links: Key.transpose_key ↦ e.tk, Sequence.sequences_split_bars ↦ View.seq_split_bars (Model/ElemLib.lean). -/",
        "import SCoda.Model.ElemLib",
        "import SCoda.Gen.WrapFns",
        "set_option linter.unusedVariables false",
        "namespace SCoda.Gen.Elem",
        "open SCoda.Gen",
        "",
    ]
    tail = "def translated : List String := [" + ", ".join(f'"{x}"' for x in names) + "]\n"
    tail += "\n/-- every default argument of the translated methods, as written in the source -/\n"
    tail += "def defaults : List String := [" + ", ".join('"' + d.replace('"', "'") + '"' for d in defaults) + "]\n"
    return "\n".join(head) + "\n" + "\n".join(out) + "\n" + tail + "\nend SCoda.Gen.Elem\n"


if __name__ == "__main__":
    print(gen_elem_fns())
