#!/venv/bin/python
"""Translator for the static / file-level layer of S-Coda:

    Sequence.get_message_times_of_type, Sequence.sequences_split_bars, Sequence.sequences_load,
    Sequence.to_midi_track, Sequence.sequences_save                                               (scoda/sequences/sequence.py)
    MidiMessage.parse_mido_message (midi_message.py), MidiTrack.parse_mido_track (midi_track.py)
    MidiFile.__init__, MidiFile.parse_mido, MidiFile.open, MidiFile.convert                       (midi_file.py)

`gen_static_fns()` re-reads the current source and emits `lean/SCoda/Gen/StaticFns.lean` (namespace `SCoda.Gen.Static`):
one Lean `do` block in `Except Err` per function, statement by statement, on top of the translated `Sequence`
wrapper (`Gen.Wrap.*`) and the translated `Bar.__init__` (`Gen.Elem.barInit`).  `Props/StaticTie.lean` proves the
generated functions equal to the hand models `splitBars` (Model/Bar.lean), `convert` (Model/Midi.lean), `parseMido` /
`parseTrack` (Model/MidiParse.lean).  The prelude is the hand-written `Model/StaticLib.lean`.

The translator knows Python constructs, not functions; anything outside the subset raises `Untranslatable`.

SUBSET AND CONVENTIONS (beyond those of tools/py2lean_elem.py, which are kept)
  values     ints are `Int` (`None` in an int / key field or local is `pyNone`); enumerate indices and list indices given as such
             are `Nat`; a float is an exact rational `Rat` (a local that ever receives a float is `Rat` from its declaration):
             `a / b` ↦ `(a : Rat) / (b : Rat)` (total; Python raises ZeroDivisionError for b = 0 — the equalities carry `0 < b`),
             `round(x)` ↦ `pyRound` = round-half-even on the exact rational.  This is the idealisation of DESIGN §5 / §9.3b:
             Python accumulates IEEE doubles, which can differ from the exact value only at `.5` ties.
             `int(<arithmetic>)` goes through the `PyNum` int/float tower as in py2lean_elem.
  tuples     `(a, b)` ↦ a Lean pair; `t[0]`, `t[1]` ↦ `.1`, `.2`; `for a, b in l`.
  optionals  `next((x for x in l if c), None)` ↦ `l.find? (fun x => c)`; `if v is not None:` on such a local ↦ `match v with | some … | none …`;
             `next(x for x in l if c)` ↦ `pyNext` (StopIteration); a local first bound to `None` and later to an int / key is a
             nullable `Int`.
  lists      `l.pop(0)` ↦ `pyPop0`; `l.index(x)` ↦ `pyIndexOf` (ValueError); `x in l` ↦ `l.contains x`; `l[i] = v` ↦ `pySetNat`/`pySetInt`
             (IndexError); `l[1:]` ↦ `l.drop 1`; `[e for _ in l]`, nested comprehensions, `any(…)`, `all(…)`, `sum(…)`.
  objects    objects are values.  OBJECT IDENTITY is modelled by POSITION: a local bound to an element of a container
             (`meta_track = sequences[k]`, `track = sequences_to_merge[0]`, the loop variable of `for i, sequence in
             enumerate(sequences)` when the body changes the object) is a *static alias*: it is not stored, every use reads the
             container at that position and every state change of the object is written back there.  A local bound in
             different branches to different objects or to `None` (`current_sequence`) is a *reference* (`PRef`): the number of
             the binding site and the indices evaluated at binding time; a method call through it dispatches on the site.
             The translator checks that value semantics cannot be observed (and refuses otherwise):
               - an alias whose slot is re-assigned (`sequences[i] = …`) is dead: a later use is refused; slots re-assigned inside a
                 loop kill the aliases bound outside it at loop entry;
               - an object passed to a constructor or as an argument of a call is *moved*: the place it was read from is
                 poisoned, a later read that may overlap is refused (`Bar(sequence_to_add, …)` changes the sequence it is given);
               - an object stored into a second container (`merged_sequences.append(track)`, `sequences[i] = split_up[1]`) is
                 *shared*: a later state change through one side poisons the other;
               - `for … in l` in alias mode iterates `List.range l.length`; the body must not change the length of `l`.
             Effects on the objects of the *parameters* are not part of the result (only the return value is).
  while      `while not <flag>` ↦ `for _ in List.replicate fuel ()` with the loop test first and `throw Err.fuel` if the test
             still holds afterwards; the bound is stated per loop in WHILE_FUEL (and printed in the generated comment).
  strings    `mido_message.type == "<kind>"` ↦ comparison with `MidoType.<kind>` (table MIDO_TYPES; an unknown kind is refused);
             `hasattr(m, "channel")` ↦ `m.channel.isSome`, reading `m.channel` ↦ `pyAttr` (AttributeError when absent).
  logging    `<Class>.LOGGER.<level>("<constant>")` is dropped with a comment.
  loops      every loop body is lifted into a named definition `<function>_loop<k>` whose parameters are the free variables of
             the body, the loop element and the tuple of the locals the body assigns (so that the proofs can name it);
             `break` / `continue` return `ForInStep.done` / `.yield` of that tuple; `return` inside a loop is refused.
  I/O        `<MidiFile>.save(path)` is a no-op on values (IO_LINKS: the file system is not modelled; what is written is the
             view-level translation `Gen.View.toMidoTrack` of every track, Props/ViewTie.lean).
  errors     `raise ValueError(…)` ↦ `throw Err.valueError`; StopIteration / AttributeError / TypeError have no counterpart in
             `Err` and are `Err.fuel` under the names of Model/StaticLib.lean (the equalities show they are never raised).
LINKS (assumptions): `RelativeSequence.split` ↦ `View.rel_split` (= `SCoda.split`), the `Sequence` methods through Gen.Wrap (whose
  own links are those of Model/ViewLib.lean: quantise_note_lengths, normalise, merge, add_message), `Bar(…)` ↦ `Gen.Elem.barInit`,
  `AbsoluteSequence.get_message_times_of_type` ↦ `View.abs_get_message_times_of_type`, `ReadOnlyMessage(m)` ↦ `pyMsgCopy m`,
  `RelativeSequence.to_midi_track` ↦ `View.rel_to_midi_track` (the identity, proved for the view-level translation in
  `ViewTie.toMidiTrack_eq`), `Key(k)` for a key `k` ↦ `k`, `MusicMapping.KeyKeyMapping` ↦ `Gen.keyKeyMapping`,
  `mido.MidiFile(filename)` ↦ `View.mido_open` (a path is the mido content of the file at that path; `None` is an empty file at
  480 ticks per beat), `MidiMessage()` ↦ `MidiEv.empty`, `MidiTrack()` ↦ `[]` (a MidiTrack is its message list).
"""
import ast
import os

import py2lean_elem
from py2lean_elem import MSG_FIELDS, MTYPES
from py2lean_wrap import Untranslatable, camel, class_methods, gen_wrap_fns_ctx, LEAN_OF as WRAP_LEAN_OF

REPO = os.environ.get("SCODA_REPO", "/repo")

# ----------------------------------------------------------------------------------------------- types
# atoms are strings; ("List", t), ("Option", t), ("Tuple", a, b), ("Dict", k, v)
ATOMS = {"Int", "Nat", "Bool", "Key", "Msg", "Seq", "GBar", "MType", "Unit", "Rat", "MidiEv", "MidoMsg", "MidoType", "String",
         "GMidiFile", "MidoFile", "NoneT", "PRef", "Name", "?"}
MUTABLE_ATOMS = {"Seq", "GBar", "GMidiFile", "MidiEv"}


def TL(t):
    return ("List", t)


def TO(t):
    return ("Option", t)


def is_list(t):
    return isinstance(t, tuple) and t[0] == "List"


def is_opt(t):
    return isinstance(t, tuple) and t[0] == "Option"


def is_tuple(t):
    return isinstance(t, tuple) and t[0] == "Tuple"


def mutable(t):
    if is_list(t):
        return True
    if is_opt(t) or is_tuple(t):
        return any(mutable(x) for x in t[1:])
    return t in MUTABLE_ATOMS


def unifies(t, want):
    """`t` is `want` up to unknown element types"""
    if t == "?" or t == want:
        return True
    return isinstance(t, tuple) and isinstance(want, tuple) and t[0] == want[0] and len(t) == len(want) \
        and all(unifies(a, b) for a, b in zip(t[1:], want[1:]))


def lean_ty(t):
    if isinstance(t, str):
        return {"Key": "Int", "Name": "Unit"}.get(t, t)
    if t[0] == "List":
        return f"List {paren(lean_ty(t[1]))}"
    if t[0] == "Option":
        return f"Option {paren(lean_ty(t[1]))}"
    if t[0] == "Tuple":
        return "(" + " × ".join(lean_ty(x) for x in t[1:]) + ")"
    if t[0] == "Dict":
        return f"List ({lean_ty(t[1])} × {lean_ty(t[2])})"
    raise Untranslatable(f"type {t}")


def paren(s):
    return f"({s})" if " " in s and not (s.startswith("(") and s.endswith(")")) else s


def parse_ty(s):
    """type strings of py2lean_wrap / py2lean_elem -> structured"""
    s = s.strip()
    if s.startswith("(") and s.endswith(")"):
        return parse_ty(s[1:-1])
    if s.startswith("Option "):
        return TO(parse_ty(s[7:]))
    if s.startswith("List "):
        return TL(parse_ty(s[5:]))
    if s in ATOMS:
        return s
    raise Untranslatable(f"type string {s!r}")


# ----------------------------------------------------------------------------------------------- tables
CLASSES = {
    "Sequence": {"file": "scoda/sequences/sequence.py", "lean": "Seq", "fields": {}},
    "MidiMessage": {"file": "scoda/midi/midi_message.py", "lean": "MidiEv", "fields": dict(MSG_FIELDS)},
    "MidiTrack": {"file": "scoda/midi/midi_track.py", "lean": ("List", "MidiEv"), "fields": {"messages": None}},
    "MidiFile": {"file": "scoda/midi/midi_file.py", "lean": "GMidiFile",
                 "fields": {"tracks": ("tracks", TL(TL("MidiEv"))), "PPQN": ("ppqn", "Int")}},
}
# what is translated, in dependency order: (class, method, lean name)
SPECS_ALL = [
    ("Sequence", "get_message_times_of_type", "getMessageTimesOfType"),
    ("Sequence", "sequences_split_bars", "sequencesSplitBars"),
    ("MidiMessage", "parse_mido_message", "parseMidoMessage"),
    ("MidiTrack", "parse_mido_track", "parseMidoTrack"),
    ("MidiFile", "__init__", "midiFileInit"),
    ("MidiFile", "parse_mido", "parseMido"),
    ("MidiFile", "open", "midiFileOpen"),
    ("MidiFile", "convert", "convert"),
    ("Sequence", "sequences_load", "sequencesLoad"),
    ("Sequence", "to_midi_track", "toMidiTrack"),
    ("Sequence", "sequences_save", "sequencesSave"),
]
SPECS = SPECS_ALL
PARAM_TYPES = {
    ("Sequence", "get_message_times_of_type", "message_types"): TL("MType"),
    ("Sequence", "sequences_split_bars", "sequences_input"): TL("Seq"),
    ("Sequence", "sequences_split_bars", "meta_track_index"): "Nat",
    ("Sequence", "sequences_split_bars", "quantise_note_lengths"): "Bool",
    ("MidiMessage", "parse_mido_message", "mido_message"): "MidoMsg",
    ("MidiTrack", "parse_mido_track", "mido_track"): TL("MidoMsg"),
    ("MidiFile", "parse_mido", "mido_midi_file"): "MidoFile",
    ("MidiFile", "open", "filename"): TO("MidoFile"),       # a path is the mido content of the file at that path (link); None: no file
    ("MidiFile", "convert", "track_indices"): TL(TL("Nat")),
    ("MidiFile", "convert", "meta_track_indices"): TL("Nat"),
    ("MidiFile", "convert", "meta_track_index"): "Int",
    ("Sequence", "sequences_load", "file_path"): "MidoFile",
    ("Sequence", "sequences_load", "midi_file"): "GMidiFile",
    ("Sequence", "sequences_load", "track_indices"): TL(TL("Nat")),
    ("Sequence", "sequences_load", "meta_track_indices"): TL("Nat"),
    ("Sequence", "sequences_load", "target_meta_track_index"): "Int",
    ("Sequence", "sequences_save", "sequences"): TL("Seq"),
    ("Sequence", "sequences_save", "file_path"): "Name",
}
# stated bounds of `while` loops: (function, loop test) -> Lean expression over {python local}
WHILE_FUEL = {
    ("sequences_split_bars", "not tracks_synchronised"):
        ("splitBarsFuel {sequences}", "longest input in ticks + number of tracks + 2 (Model/StaticLib.lean `splitBarsFuel`)"),
}
MIDO_TYPES = {"note_on": "noteOn", "note_off": "noteOff", "time_signature": "timeSignature", "key_signature": "keySignature",
              "control_change": "controlChange", "program_change": "programChange"}
MIDO_FIELDS = {"type": ("type", "MidoType"), "time": ("time", "Int"), "channel": ("channel", TO("Int")), "note": ("note", "Int"),
               "velocity": ("velocity", "Int"), "numerator": ("numerator", "Int"), "denominator": ("denominator", "Int"),
               "key": ("key", "String"), "control": ("control", "Int"), "value": ("value", "Int"), "program": ("program", "Int")}
MIDOFILE_FIELDS = {"ticks_per_beat": ("ticksPerBeat", "Int"), "tracks": ("tracks", TL(TL("MidoMsg")))}
EXC = {"ValueError": "Err.valueError", "BarException": "Err.barError", "SequenceException": "Err.sequenceError"}
# wrapper methods that return the receiver's state unchanged (WrapTie.copy_eq: `Gen.Wrap.copy e s = .ok (s, s.copy)`)
STATE_PRESERVING = {"copy"}
VIEW_LINKS = {("rel", "split"): TL(TL("Msg")), ("abs", "get_message_times_of_type"): TL(("Tuple", "Int", "Msg")),
              ("rel", "to_midi_track"): TL("MidiEv")}
VIEW_SIGS = {("abs", "get_message_times_of_type"): [("message_types", None, TL("MType"))], ("rel", "to_midi_track"): []}
# methods whose only effect is on the file system (not modelled): the object is left as it was
IO_LINKS = {("MidiFile", "save"): "what is written is `Gen.View.toMidoTrack` of every track at PPQN (Props/ViewTie.lean); the file system is not modelled"}


# ----------------------------------------------------------------------------------------------- places
class Place:
    """a position in the store: a root local and a path of list indices / object fields"""

    def __init__(self, root, steps, ty):
        self.root, self.steps, self.ty = root, list(steps), ty

    def extend(self, step, ty):
        return Place(self.root, self.steps + [step], ty)

    def __repr__(self):
        return self.root + "".join(f"[{s[1]}]" if s[0] == "idx" else f".{s[1]}" for s in self.steps)


def may_overlap(p, q, distinct=None):
    """can the two places name the same object or one contain the other?  `distinct`: a Lean index text that is known to
    differ between the two (two iterations of a loop over distinct indices)"""
    if p.root != q.root:
        return False
    for a, b in zip(p.steps, q.steps):
        if a[0] != b[0]:
            return True
        if a[0] == "fld":
            if a[1] != b[1]:
                return False
            continue
        ca, cb = a[3], b[3]
        if isinstance(ca, int) and isinstance(cb, int) and ca != cb:
            return False
        if isinstance(ca, tuple) and isinstance(cb, int) and cb < ca[1]:      # a slice `[k:]` against a constant index below k
            return False
        if isinstance(cb, tuple) and isinstance(ca, int) and ca < cb[1]:
            return False
        if distinct is not None and a[1] == distinct and b[1] == distinct:
            return False
    return True


# ----------------------------------------------------------------------------------------------- translator
class RetryMutableParam(Exception):
    """a parameter's object is changed by the body: translate again with a local mutable copy of it"""

    def __init__(self, name):
        self.name = name


class Narrow:
    """a local narrowed from Option T to T inside `if v is not None:`"""

    def __init__(self, lean, ty):
        self.lean, self.ty = lean, ty


class StaticTranslator:
    def __init__(self, cls, fn, G, seeds):
        self.cls, self.fn, self.G = cls, fn, G
        self.cfg = CLASSES[cls]
        self.static = any(ast.unparse(d) == "staticmethod" for d in fn.decorator_list)
        self.seeds = seeds                # python local -> final type from the previous typing pass
        self.lines = []
        self.types = {}                   # python name -> type (roots: params, owned locals, self)
        self.declared = {}                # python name -> scope id of its `let mut`
        self.alias = {}                   # python name -> Place (static alias)
        self.dyn = {}                     # python name -> {site number: Place shape}   (reference locals, PRef)
        self.dead = {}                    # alias name -> reason
        self.poison = []                  # [(Place, reason)]
        self.shares = []                  # [(Place, Place)]
        self.borrowed = {}                # python name -> root it was borrowed from (read-only)
        self.narrow = {}                  # python name -> Narrow
        self.readonly = set()
        self.tmp = 0
        self.ret_type = None
        self.scope = [0]
        self.scope_ctr = 0
        self.loop_reads = []              # stack of lists of Places read inside the enclosing loops
        self.final_types = {}
        self.site_ctr = 0
        self.sites = {}                   # (name, lineno, col) -> site number
        self.notes = []
        self.aux = []                     # lifted loop bodies (text), in order of completion
        self.loop_ctr = 0
        self.lift_depth = 0
        self.loop_stack = []
        self.extra_scope = {}
        self.lean_name = None
        self.param_names = set()

    # ---- helpers
    def fresh(self, base="t"):
        self.tmp += 1
        return f"{base}{self.tmp}"

    def emit(self, ind, text, src=None):
        if src is not None:
            self.lines.append(f"{ind}-- {src}")
        self.lines.append(ind + text)

    def lname(self, py):
        if py == "self":
            return "self_"
        return camel(py) + "_"

    def push_scope(self):
        self.scope_ctr += 1
        self.scope = self.scope + [self.scope_ctr]

    def pop_scope(self):
        self.scope = self.scope[:-1]

    def seed(self, name, t):
        """the type a local is declared with: the final type of the previous pass if there is one"""
        s = self.seeds.get(name)
        return s if s is not None else t

    def record_type(self, name, t):
        old = self.final_types.get(name)
        if old is None or old == "NoneT" or old == TL("?"):
            self.final_types[name] = t if not (old is not None and t in ("NoneT", TL("?"))) else old
        elif old == "Int" and t == "Rat":
            self.final_types[name] = "Rat"
        elif old in ("Int", "Key") and t == "NoneT":
            pass
        elif is_opt(old) and (t == "NoneT" or t == old[1]):
            pass
        elif t == "NoneT" and not is_opt(old) and old not in ("Int", "Key", "PRef", "Rat"):
            self.final_types[name] = TO(old)
        elif old == "NoneT" or t == old or (old == "Rat" and t in ("Int", "Nat")) or (old == "Int" and t == "Nat") \
                or (old == "Key" and t == "Int") or old == "PRef":
            pass
        else:
            raise Untranslatable(f"local {name}: assigned {lean_ty(old)} and {lean_ty(t)}")

    # ---- places
    def place_of(self, n, ind):
        """the place an expression names, or None if it does not name one (a fresh value)"""
        if isinstance(n, ast.Name):
            if n.id in self.narrow:
                return None
            if n.id in self.alias:
                self.check_alive(n.id)
                return self.alias[n.id]
            if n.id in self.dyn:
                raise Untranslatable(f"reference local {n.id} used as a value")
            if n.id in self.types:
                return Place(n.id, [], self.types[n.id])
            return None
        if isinstance(n, ast.Attribute):
            if isinstance(n.value, ast.Name) and n.value.id == "self" and not self.static:
                f = self.cfg["fields"].get(n.attr, "missing")
                if f == "missing" or f is None:
                    return None
                return Place("self", [("fld", f[0])], f[1])
            base = self.place_of(n.value, ind)
            if base is None or is_opt(base.ty):
                return None
            if base.ty == "GMidiFile" and n.attr in CLASSES["MidiFile"]["fields"]:
                f = CLASSES["MidiFile"]["fields"][n.attr]
                return base.extend(("fld", f[0]), f[1])
            if base.ty == TL("MidiEv") and n.attr == "messages":     # a MidiTrack is its message list
                return base
            return None
        if isinstance(n, ast.Subscript) and not isinstance(n.slice, ast.Slice):
            base = self.place_of(n.value, ind)
            if base is None or not is_list(base.ty):
                return None
            i, ti = self.expr(n.slice, ind)
            if ti not in ("Nat", "Int"):
                raise Untranslatable(f"subscript index of type {ti}")
            const = n.slice.value if isinstance(n.slice, ast.Constant) else None
            if not (i.isidentifier() or i.rstrip("_").isidentifier() or const is not None):
                t = self.fresh("k")
                self.emit(ind, f"let {t} : {ti} := {i}")
                i = t
            return base.extend(("idx", i, ti, const), base.ty[1])
        return None

    def check_alive(self, name):
        if name in self.dead:
            raise Untranslatable(f"alias {name} used after {self.dead[name]}")

    def check_readable(self, p):
        for q, why in self.poison:
            if may_overlap(p, q):
                raise Untranslatable(f"read of {p} after {why} (value semantics would be observable)")
        for lst in self.loop_reads:
            lst.append(p)

    def read_place(self, p, ind):
        self.check_readable(p)
        cur = self.lname(p.root)
        for s in p.steps:
            if s[0] == "fld":
                cur = f"{cur}.{s[1]}"
            else:
                t = self.fresh("x")
                self.emit(ind, f"let {t} ← {'pyGetNat' if s[2] == 'Nat' else 'pyGetInt'} {cur} {s[1]}")
                cur = t
        return cur

    def write_place(self, p, v, ind, mutation=True):
        """store `v` at place `p` (nested read-modify-write)"""
        if p.root in self.param_names and p.root in self.readonly:
            raise RetryMutableParam(p.root)
        if p.root in self.readonly or p.root in self.borrowed:
            raise Untranslatable(f"store into read-only {p.root}")
        conts = [self.lname(p.root)]
        for s in p.steps[:-1]:
            if s[0] == "fld":
                conts.append(f"{conts[-1]}.{s[1]}")
            else:
                t = self.fresh("c")
                self.emit(ind, f"let {t} ← {'pyGetNat' if s[2] == 'Nat' else 'pyGetInt'} {conts[-1]} {s[1]}")
                conts.append(t)
        val = v
        for k in range(len(p.steps) - 1, -1, -1):
            s = p.steps[k]
            if s[0] == "fld":
                val = f"{{ {conts[k]} with {s[1]} := {val} }}"
            elif k == 0:
                self.emit(ind, f"{self.lname(p.root)} ← {'pySetNat' if s[2] == 'Nat' else 'pySetInt'} {conts[0]} {s[1]} {paren(val)}")
                val = None
            else:
                t = self.fresh("u")
                self.emit(ind, f"let {t} ← {'pySetNat' if s[2] == 'Nat' else 'pySetInt'} {conts[k]} {s[1]} {paren(val)}")
                val = t
        if val is not None:
            self.emit(ind, f"{self.lname(p.root)} := {val}")
        if mutation:
            self.mutated(p)

    def mutated(self, p):
        """the object at `p` changed state: what shares it is no longer in step"""
        for a, b in self.shares:
            if may_overlap(p, a):
                self.poison.append((b, f"a state change through {p}, which shares an object with it"))
            elif may_overlap(p, b):
                self.poison.append((a, f"a state change through {p}, which shares an object with it"))
        for name, src in self.borrowed.items():
            if src == p.root:
                raise Untranslatable(f"{p.root} changed while {name} borrows from it")

    def moved(self, p, why):
        if mutable(p.ty):
            self.poison.append((p, why))

    def rebind_root(self, name):
        """`name = <fresh value>`: what was known about the old object is void"""
        self.poison = [(q, w) for q, w in self.poison if q.root != name]
        self.shares = [(a, b) for a, b in self.shares if a.root != name and b.root != name]
        for al, pl in self.alias.items():
            if pl.root == name and al not in self.dead:
                self.dead[al] = f"{name} was re-assigned"

    def kill_aliases(self, p, why):
        for al, pl in self.alias.items():
            if may_overlap(pl, p) and len(pl.steps) >= len(p.steps) and al not in self.dead:
                self.dead[al] = why

    # ---- expressions
    def num_cast(self, v, t, want):
        if t == want:
            return v
        if t == "Nat" and want == "Int":
            return f"({v} : Int)"
        if t in ("Nat", "Int") and want == "Rat":
            return f"({v} : Rat)"
        raise Untranslatable(f"numeric cast {t} -> {want}")

    def pynum(self, n, ind):
        """arithmetic inside int(...): Python's int/float tower (PyNum)"""
        if isinstance(n, ast.BinOp):
            a, b = self.pynum(n.left, ind), self.pynum(n.right, ind)
            if isinstance(n.op, ast.Mult):
                return f"(PyNum.mul {a} {b})"
            if isinstance(n.op, ast.Div):
                return f"(PyNum.truediv {a} {b})"
            raise Untranslatable(f"operator {type(n.op).__name__} in a numeric expression")
        v, t = self.expr(n, ind)
        if t not in ("Int", "Nat"):
            raise Untranslatable(f"numeric leaf {ast.unparse(n)} : {t}")
        return f"(PyNum.int {self.num_cast(v, t, 'Int')})"

    def coerce(self, v, t, want):
        if t == want:
            return v
        if t == "NoneT" and want in ("Key", "Int"):
            return "pyNone"
        if t == "NoneT" and want == "Name":
            return "()"
        if t == "NoneT" and is_opt(want):
            return "none"
        if t == "NoneT" and want == "PRef":
            return "({} : PRef)"
        if is_opt(want) and want[1] == t:
            return f"(some {v})"
        if is_opt(want) and want[1] == "Nat" and t == "Int" and v.isdigit():
            return f"(some {v})"
        if t == TL("?") and is_list(want):
            return "[]"
        if unifies(t, want):
            return v
        if (t, want) in (("Int", "Key"), ("Key", "Int")):
            return v
        if t in ("Nat", "Int") and want in ("Int", "Rat") and t != want:
            return self.num_cast(v, t, want)
        if t == "Int" and want == "Nat" and v.isdigit():
            return v
        if t == "Msg" and want == "MidiEv" or t == "MidiEv" and want == "Msg":
            return v
        raise Untranslatable(f"type mismatch: {v} : {lean_ty(t)}, expected {lean_ty(want)}")

    def join_types(self, a, b):
        if a == b:
            return a
        if a == "NoneT":
            return b if b in ("Int", "Key") else TO(b)
        if b == "NoneT":
            return self.join_types(b, a)
        if {a, b} == {"Int", "Key"}:
            return "Key"
        if {a, b} <= {"Int", "Nat"}:
            return "Int"
        if "Rat" in (a, b) and {a, b} <= {"Int", "Nat", "Rat"}:
            return "Rat"
        raise Untranslatable(f"branches of different types: {lean_ty(a)} / {lean_ty(b)}")

    def field_of(self, ty, attr):
        if ty in ("Msg", "MidiEv"):
            if attr not in MSG_FIELDS:
                raise Untranslatable(f"Message has no field {attr}")
            f, t = MSG_FIELDS[attr]
            return f, t
        if ty == "MidoMsg":
            if attr not in MIDO_FIELDS:
                raise Untranslatable(f"mido message attribute {attr}")
            return MIDO_FIELDS[attr]
        if ty == "MidoFile":
            if attr not in MIDOFILE_FIELDS:
                raise Untranslatable(f"mido file attribute {attr}")
            return MIDOFILE_FIELDS[attr]
        if ty == "GMidiFile":
            f = CLASSES["MidiFile"]["fields"].get(attr)
            if f is None:
                raise Untranslatable(f"MidiFile has no field {attr}")
            return f
        raise Untranslatable(f"attribute {attr} of {lean_ty(ty)}")

    def expr(self, n, ind):
        """(lean text, type); may emit statements that evaluate sub-expressions with effects"""
        if isinstance(n, ast.Constant):
            if n.value is True:
                return "true", "Bool"
            if n.value is False:
                return "false", "Bool"
            if n.value is None:
                return "pyNone", "NoneT"
            if isinstance(n.value, int):
                return (f"({n.value})" if n.value < 0 else str(n.value)), "Int"
            if isinstance(n.value, str):
                return '"' + n.value.replace('"', '\\"') + '"', "String"
            raise Untranslatable(f"constant {n.value!r}")
        if isinstance(n, ast.Name):
            if n.id == "PPQN":
                return "e.ppqn", "Int"
            if n.id in self.narrow:
                return self.narrow[n.id].lean, self.narrow[n.id].ty
            if n.id in self.alias:
                return self.read_place(self.place_of(n, ind), ind), self.alias[n.id].ty
            if n.id in self.dyn:
                raise Untranslatable(f"reference local {n.id} used as a value")
            if n.id not in self.types:
                raise Untranslatable(f"unknown name {n.id}")
            p = Place(n.id, [], self.types[n.id])
            if mutable(p.ty):
                self.check_readable(p)
            return self.lname(n.id), self.types[n.id]
        if isinstance(n, ast.Attribute):
            if isinstance(n.value, ast.Name) and n.value.id == "MessageType":
                if n.attr not in MTYPES:
                    raise Untranslatable(f"MessageType.{n.attr}")
                return f"MType.{MTYPES[n.attr]}", "MType"
            if ast.unparse(n) == "MusicMapping.KeyKeyMapping":
                return "Gen.keyKeyMapping", ("Dict", "String", "Key")
            p = self.place_of(n, ind)
            if p is not None:
                return self.read_place(p, ind), p.ty
            base, bt = self.expr(n.value, ind)
            if is_opt(bt):
                u = self.fresh("x")
                self.emit(ind, f"let {u} ← pyUnwrap {base}")
                base, bt = u, bt[1]
            if bt == TL("MidiEv") and n.attr == "messages":
                return base, bt
            f, ft = self.field_of(bt, n.attr)
            if bt == "MidoMsg" and is_opt(ft):
                t = self.fresh("a")
                self.emit(ind, f"let {t} ← pyAttr {base}.{f}")
                return t, ft[1]
            return f"{base}.{f}", ft
        if isinstance(n, ast.UnaryOp) and isinstance(n.op, ast.Not):
            v, t = self.expr(n.operand, ind)
            if t != "Bool":
                raise Untranslatable("not of a non-bool")
            return f"(!{v})", "Bool"
        if isinstance(n, ast.BoolOp):
            vs = []
            for v in n.values:
                mark = len(self.lines)
                vs.append(self.expr(v, ind))
                if len(self.lines) != mark and len(vs) > 1:
                    raise Untranslatable(f"short-circuit operand with effects: {ast.unparse(v)}")
            if any(t != "Bool" for _, t in vs):
                raise Untranslatable("bool op of non-bools")
            return "(" + (" && " if isinstance(n.op, ast.And) else " || ").join(v for v, _ in vs) + ")", "Bool"
        if isinstance(n, ast.Compare):
            return self.compare(n, ind)
        if isinstance(n, ast.IfExp):
            c, tc = self.expr(n.test, ind)
            mark = len(self.lines)
            a, ta = self.expr(n.body, ind)
            b, tb = self.expr(n.orelse, ind)
            if tc != "Bool" or len(self.lines) != mark:
                raise Untranslatable(f"conditional expression {ast.unparse(n)}")
            t = self.join_types(ta, tb)
            return f"(if {c} then {self.coerce(a, ta, t)} else {self.coerce(b, tb, t)})", t
        if isinstance(n, ast.BinOp):
            a, ta = self.expr(n.left, ind)
            b, tb = self.expr(n.right, ind)
            if isinstance(n.op, ast.Div):
                return f"({self.num_cast(a, ta, 'Rat')} / {self.num_cast(b, tb, 'Rat')})", "Rat"
            sym = {ast.Add: "+", ast.Sub: "-", ast.Mult: "*"}.get(type(n.op))
            if sym is None:
                raise Untranslatable(f"operator {type(n.op).__name__}")
            t = self.join_types(ta, tb)
            if t not in ("Int", "Rat", "Nat"):
                raise Untranslatable(f"arithmetic on {lean_ty(t)}")
            if t == "Nat" and sym == "-":
                t = "Int"
            return f"({self.num_cast(a, ta, t)} {sym} {self.num_cast(b, tb, t)})", t
        if isinstance(n, ast.Subscript):
            return self.subscript(n, ind)
        if isinstance(n, (ast.ListComp, ast.GeneratorExp)):
            return self.comprehension(n, ind)
        if isinstance(n, ast.List):
            if not n.elts:
                return "[]", TL("?")
            vs = [self.expr(x, ind) for x in n.elts]
            t = vs[0][1]
            for _, t2 in vs[1:]:
                t = self.join_types(t, t2)
            for x in n.elts:
                p = self.place_of(x, ind) if isinstance(x, (ast.Name, ast.Subscript)) else None
                if p is not None:
                    self.moved(p, "it was put into a list literal")
            return "[" + ", ".join(self.coerce(v, tv, t) for v, tv in vs) + "]", TL(t)
        if isinstance(n, ast.Tuple):
            vs = [self.expr(x, ind) for x in n.elts]
            if len(vs) != 2:
                raise Untranslatable("tuple that is not a pair")
            return "(" + ", ".join(v for v, _ in vs) + ")", ("Tuple", vs[0][1], vs[1][1])
        if isinstance(n, ast.Call):
            return self.call(n, ind)
        raise Untranslatable(f"expression {ast.unparse(n)}")

    def compare(self, n, ind):
        if len(n.ops) != 1:
            raise Untranslatable("chained comparison")
        op, right = n.ops[0], n.comparators[0]
        if isinstance(op, (ast.Is, ast.IsNot)) and isinstance(right, ast.Constant) and right.value is None:
            if isinstance(n.left, ast.Name) and n.left.id in self.dyn:
                v = f"decide ({self.lname(n.left.id)}.root = 0)"
                return (v if isinstance(op, ast.Is) else f"(!{v})"), "Bool"
            if isinstance(n.left, ast.Name) and n.left.id in self.types and self.types[n.left.id] == "NoneT":
                return ("true" if isinstance(op, ast.Is) else "false"), "Bool"     # only in a typing pass
            v, t = self.expr(n.left, ind)
            if is_opt(t):
                return (f"{v}.isNone" if isinstance(op, ast.Is) else f"{v}.isSome"), "Bool"
            if t not in ("Key", "Int"):
                raise Untranslatable(f"`is None` on {lean_ty(t)}")
            return (f"decide ({v} = pyNone)" if isinstance(op, ast.Is) else f"decide ({v} ≠ pyNone)"), "Bool"
        a, ta = self.expr(n.left, ind)
        if isinstance(op, (ast.In, ast.NotIn)):
            b, tb = self.expr(right, ind)
            if not (is_list(tb) and tb[1] == ta and ta in ("Nat", "Int")):
                raise Untranslatable(f"membership test {ast.unparse(n)} : {lean_ty(ta)} in {lean_ty(tb)}")
            v = f"{paren(b)}.contains {a}"
            return (f"({v})" if isinstance(op, ast.In) else f"(!({v}))"), "Bool"
        # mido_message.type == "<kind>"
        if ta == "MidoType" and isinstance(right, ast.Constant) and isinstance(right.value, str) and isinstance(op, (ast.Eq, ast.NotEq)):
            if right.value not in MIDO_TYPES:
                raise Untranslatable(f"mido message kind {right.value!r} is not in MIDO_TYPES")
            v = f"{a} == MidoType.{MIDO_TYPES[right.value]}"
            return (f"({v})" if isinstance(op, ast.Eq) else f"(!({v}))"), "Bool"
        b, tb = self.expr(right, ind)
        if ta == tb == "MType" and isinstance(op, (ast.Eq, ast.NotEq)):
            return (f"({a} == {b})" if isinstance(op, ast.Eq) else f"({a} != {b})"), "Bool"
        if {ta, tb} <= {"Int", "Nat", "Key", "Rat"}:
            t = "Rat" if "Rat" in (ta, tb) else ("Nat" if ta == tb == "Nat" else "Int")
            if t != "Nat":
                a = a if ta in ("Int", "Key", "Rat") and t != "Rat" or ta == t else self.num_cast(a, ta, t)
                b = b if tb in ("Int", "Key", "Rat") and t != "Rat" or tb == t else self.num_cast(b, tb, t)
            sym = {ast.Eq: "=", ast.NotEq: "≠", ast.Lt: "<", ast.LtE: "≤", ast.Gt: ">", ast.GtE: "≥"}.get(type(op))
            if sym is None:
                raise Untranslatable(f"comparison {type(op).__name__}")
            return f"decide ({a} {sym} {b})", "Bool"
        raise Untranslatable(f"comparison of {lean_ty(ta)} and {lean_ty(tb)}: {ast.unparse(n)}")

    def subscript(self, n, ind):
        if isinstance(n.slice, ast.Slice):
            s = n.slice
            if s.upper is not None or s.step is not None or not (isinstance(s.lower, ast.Constant) and isinstance(s.lower.value, int)
                                                                 and s.lower.value >= 0):
                raise Untranslatable(f"slice {ast.unparse(n)}")
            v, t = self.expr(n.value, ind)
            if not is_list(t):
                raise Untranslatable(f"slice of {lean_ty(t)}")
            return f"({v}.drop {s.lower.value})", t
        p = self.place_of(n, ind)
        if p is not None:
            return self.read_place(p, ind), p.ty
        v, t = self.expr(n.value, ind)
        if is_opt(t):
            u = self.fresh("x")
            self.emit(ind, f"let {u} ← pyUnwrap {v}")
            v, t = u, t[1]
        if is_tuple(t):
            if not (isinstance(n.slice, ast.Constant) and n.slice.value in (0, 1)):
                raise Untranslatable(f"tuple index {ast.unparse(n.slice)}")
            return f"{v}.{n.slice.value + 1}", t[1 + n.slice.value]
        i, ti = self.expr(n.slice, ind)
        if isinstance(t, tuple) and t[0] == "Dict":
            if ti != t[1]:
                raise Untranslatable(f"dict key of type {lean_ty(ti)}")
            u = self.fresh("x")
            self.emit(ind, f"let {u} ← pyDictGet {v} {i}")
            return u, t[2]
        if is_list(t) and ti in ("Nat", "Int"):
            u = self.fresh("x")
            self.emit(ind, f"let {u} ← {'pyGetNat' if ti == 'Nat' else 'pyGetInt'} {v} {i}")
            return u, t[1]
        raise Untranslatable(f"subscript {ast.unparse(n)}")

    def bind_loop_targets(self, target, iter_node, ind, pure_ctx):
        """iteration in value mode: returns (lean iterable text, binder text, [(py name, lean projection, type)])"""
        enum = isinstance(iter_node, ast.Call) and isinstance(iter_node.func, ast.Name) and iter_node.func.id == "enumerate" \
            and len(iter_node.args) == 1 and not iter_node.keywords
        src = iter_node.args[0] if enum else iter_node
        it, it_t = self.expr(src, ind)
        if not is_list(it_t):
            raise Untranslatable(f"iteration over {lean_ty(it_t)}")
        et = it_t[1]
        binds = []
        if enum:
            if not (isinstance(target, ast.Tuple) and len(target.elts) == 2 and all(isinstance(x, ast.Name) for x in target.elts)):
                raise Untranslatable("enumerate target")
            b = self.fresh("p")
            binds = [(target.elts[0].id, f"{b}.2", "Nat"), (target.elts[1].id, f"{b}.1", et)]
            return f"{paren(it)}.zipIdx", b, binds
        if isinstance(target, ast.Name):
            return it, self.lname(target.id), [(target.id, None, et)]
        if isinstance(target, ast.Tuple) and is_tuple(et) and len(target.elts) == 2 and all(isinstance(x, ast.Name) for x in target.elts):
            b = self.fresh("p")
            binds = [(target.elts[0].id, f"{b}.1", et[1]), (target.elts[1].id, f"{b}.2", et[2])]
            return it, b, binds
        raise Untranslatable(f"loop target {ast.unparse(target)}")

    def comprehension(self, n, ind, want_find=False):
        if len(n.generators) != 1 or n.generators[0].is_async:
            raise Untranslatable(f"comprehension {ast.unparse(n)}")
        g = n.generators[0]
        it, binder, binds = self.bind_loop_targets(g.target, g.iter, ind, True)
        saved = {}
        for name, proj, t in binds:
            saved[name] = (self.types.get(name), name in self.readonly, self.narrow.get(name))
            if name == "_":
                continue
            if proj is None:
                self.types[name] = t
                self.readonly.add(name)
            else:
                self.narrow[name] = Narrow(proj, t)
        try:
            mark = len(self.lines)
            conds = []
            for c in g.ifs:
                cv, ct = self.expr(c, ind + "    ")
                if ct != "Bool":
                    raise Untranslatable("comprehension filter is not a bool")
                conds.append(cv)
            if len(self.lines) != mark:
                raise Untranslatable("comprehension filter with effects")
            src = it if not conds else f"({paren(it)}.filter (fun {binder} => {' && '.join(conds)}))"
            if want_find:
                if not (isinstance(n.elt, ast.Name) and len(binds) == 1 and n.elt.id == binds[0][0]):
                    raise Untranslatable(f"next over {ast.unparse(n)}")
                return (it, binder, " && ".join(conds) if conds else "true"), binds[0][2]
            ev, etype = self.expr(n.elt, ind + "    ")
            body = self.lines[mark:]
            del self.lines[mark:]
            if not body:
                if isinstance(n.elt, ast.Name) and len(binds) == 1 and n.elt.id == binds[0][0]:
                    return src, TL(etype)
                return f"({paren(src)}.map (fun {binder} => {ev}))", TL(etype)
            t = self.fresh("vs")
            self.emit(ind, f"let {t} ← {paren(src)}.mapM (fun {binder} => do")
            self.lines.extend(body)
            self.emit(ind + "    ", f"pure {paren(ev)})")
            return t, TL(etype)
        finally:
            for name, (t0, ro, nr) in saved.items():
                if t0 is None:
                    self.types.pop(name, None)
                else:
                    self.types[name] = t0
                if not ro:
                    self.readonly.discard(name)
                if nr is None:
                    self.narrow.pop(name, None)
                else:
                    self.narrow[name] = nr

    def bind_args(self, sig, call, ind, what, move=True):
        names = [p[0] for p in sig]
        given = {}
        for i, a in enumerate(call.args):
            if i >= len(names):
                raise Untranslatable(f"too many arguments in {ast.unparse(call)}")
            given[names[i]] = a
        for kw in call.keywords:
            if kw.arg not in names or kw.arg in given:
                raise Untranslatable(f"keyword {kw.arg} in {ast.unparse(call)}")
            given[kw.arg] = kw.value
        out = []
        for name, default, ty in sig:
            node = given.get(name, default)
            if node is None:
                raise Untranslatable(f"missing argument {name} of {what}")
            v, t = self.expr(node, ind)
            if is_opt(t) and t[1] == ty:          # an Optional handed to a parameter that dereferences it
                u = self.fresh("x")
                self.emit(ind, f"let {u} ← pyUnwrap {v}")
                v, t = u, ty
            out.append(self.coerce(v, t, ty))
            if move and name in given:
                self.move_arg(node, ind, f"it was passed to {what}")
        return out

    def move_arg(self, node, ind, why):
        """an object handed to a callee may be changed by it: the place it came from must not be read again"""
        if isinstance(node, ast.Subscript) and isinstance(node.slice, ast.Slice):
            mark = len(self.lines)
            p = self.place_of(node.value, ind)
            del self.lines[mark:]
            if p is not None:
                k = node.slice.lower.value
                self.moved(p.extend(("idx", f"{k}:", "Nat", ("from", k)), p.ty[1]), why)
            return
        if isinstance(node, ast.List):
            for x in node.elts:
                self.move_arg(x, ind, why)
            return
        if isinstance(node, (ast.Name, ast.Subscript, ast.Attribute)):
            mark = len(self.lines)
            p = self.place_of(node, ind)
            del self.lines[mark:]
            if p is not None:
                self.moved(p, why)

    def message(self, n, ind):
        if n.args:
            raise Untranslatable("positional Message arguments")
        fields = {}
        for kw in n.keywords:
            if kw.arg not in MSG_FIELDS:
                raise Untranslatable(f"Message keyword {kw.arg}")
            lf, lt = MSG_FIELDS[kw.arg]
            v, t = self.expr(kw.value, ind)
            if lf == "ch":
                # Message.__init__: a None channel becomes 0
                v = "0" if t == "NoneT" else f"(if {v} = pyNone then 0 else {v})"
            else:
                v = self.coerce(v, t, lt)
            fields[lf] = v
        if "ty" not in fields:
            raise Untranslatable("Message without message_type")
        return "({ " + ", ".join(f"{k} := {v}" for k, v in fields.items()) + " } : Msg)", "Msg"

    def call(self, n, ind):
        f = n.func
        src = ast.unparse(n)
        if isinstance(f, ast.Name):
            return self.call_name(f.id, n, ind, src)
        if not isinstance(f, ast.Attribute):
            raise Untranslatable(f"call {src}")
        # super().__init__()
        if f.attr == "__init__" and isinstance(f.value, ast.Call) and isinstance(f.value.func, ast.Name) and f.value.func.id == "super":
            return "()", "Unit"
        # <Class>.LOGGER.<level>("constant"): logging is dropped
        if isinstance(f.value, ast.Attribute) and f.value.attr == "LOGGER":
            if not all(isinstance(a, ast.Constant) for a in n.args) or n.keywords:
                raise Untranslatable(f"logging call with computed arguments: {src}")
            self.emit(ind, "pure ()   -- (logging is not modelled)")
            return "()", "Unit"
        # mido.MidiFile(filename)
        if isinstance(f.value, ast.Name) and f.value.id == "mido" and f.attr == "MidiFile" and len(n.args) == 1 and not n.keywords:
            v, t = self.expr(n.args[0], ind)
            if t not in ("MidoFile", TO("MidoFile")):
                raise Untranslatable(f"mido.MidiFile argument of type {lean_ty(t)}")
            u = self.fresh("r")
            self.emit(ind, f"let {u} ← View.mido_open {self.coerce(v, t, TO('MidoFile'))}")
            return u, "MidoFile"
        # static calls <Class>.<method>(args) of translated functions
        if isinstance(f.value, ast.Name) and f.value.id in CLASSES and f.value.id not in self.types:
            info = self.G["own"].get((f.value.id, f.attr))
            if info is None or not info["static"]:
                raise Untranslatable(f"{f.value.id}.{f.attr} is not a translated static method")
            args = self.bind_args(info["sig"], n, ind, f"{f.value.id}.{f.attr}")
            u = self.fresh("r")
            self.emit(ind, f"let {u} ← {info['lean']} e {' '.join(args)}".rstrip())
            return u, info["ret"]
        # view-level call through a property: <seq place>.rel.<method>(args)
        if isinstance(f.value, ast.Attribute) and f.value.attr in ("abs", "rel"):
            p = self.place_of(f.value.value, ind)
            if p is None or p.ty != "Seq":
                raise Untranslatable(f"view call on something that is not a sequence place: {src}")
            kind = f.value.attr
            if (kind, f.attr) not in VIEW_LINKS:
                raise Untranslatable(f"view method {kind}.{f.attr} has no link")
            x = self.read_place(p, ind)
            r = self.fresh("r")
            self.emit(ind, f"let {r} ← Wrap.{'getAbs' if kind == 'abs' else 'getRel'} e {x}")
            sig = VIEW_SIGS.get((kind, f.attr))
            if sig is None:
                sig = [(a, d, parse_ty(t)) for a, d, t in self.G["view_sigs"][(kind, f.attr)]]
            args = self.bind_args(sig, n, ind, f"{kind}.{f.attr}")
            v = self.fresh("v")
            self.emit(ind, f"let {v} ← View.{kind}_{f.attr} e {r}.1.{kind} {' '.join(args)}".rstrip())
            self.write_place(p, f"{{ {r}.1 with {kind} := {v}.1 }}", ind)
            return f"{v}.2", VIEW_LINKS[(kind, f.attr)]
        # list methods
        if f.attr in ("append", "pop", "index"):
            p = self.place_of(f.value, ind)
            if p is not None and is_list(p.ty):
                return self.list_method(p, f.attr, n, ind, src)
            if f.attr == "index":
                v, t = self.expr(f.value, ind)
                if is_list(t):
                    return self.list_index(v, t, n, ind)
        # method call through a reference local
        if isinstance(f.value, ast.Name) and f.value.id in self.dyn:
            return self.dyn_method(f.value.id, f.attr, n, ind, src)
        # method call on an object place
        p = self.place_of(f.value, ind)
        if p is None:
            raise Untranslatable(f"method call on something that is not a place: {src}")
        return self.method_on_place(p, f.attr, n, ind, src)

    def method_on_place(self, p, meth, n, ind, src):
        if is_opt(p.ty) and p.ty[1] == "GMidiFile":
            own = self.G["own"].get(("MidiFile", meth))
            if own is None or own["static"]:
                raise Untranslatable(f"MidiFile.{meth} is not translated")
            args = self.bind_args(own["sig"], n, ind, f"MidiFile.{meth}")
            x = self.read_place(p, ind)
            u = self.fresh("x")
            self.emit(ind, f"let {u} ← pyUnwrap {x}")
            r = self.fresh("r")
            self.emit(ind, f"let {r} ← {own['lean']} e {u} {' '.join(args)}".rstrip())
            self.write_place(p, f"(some {r}.1)", ind)
            return f"{r}.2", own["ret"]
        if p.ty == "Seq":
            own = self.G["own"].get(("Sequence", meth))
            if own is not None and not own["static"]:
                args = self.bind_args(own["sig"], n, ind, f"Sequence.{meth}")
                x = self.read_place(p, ind)
                r = self.fresh("r")
                self.emit(ind, f"let {r} ← {own['lean']} e {x} {' '.join(args)}".rstrip())
                self.write_place(p, f"{r}.1", ind)
                return f"{r}.2", own["ret"]
            if meth not in WRAP_LEAN_OF or meth in ("abs", "rel", "messages_abs", "messages_rel"):
                raise Untranslatable(f"Sequence method {meth} is not translated")
            sig = [(a, d, parse_ty(t)) for a, d, t in self.G["wrap_sigs"][meth]]
            args = self.bind_args(sig, n, ind, f"Sequence.{meth}")
            x = self.read_place(p, ind)
            r = self.fresh("r")
            self.emit(ind, f"let {r} ← Wrap.{WRAP_LEAN_OF[meth]} e {x} {' '.join(args)}".rstrip())
            if p.root in self.readonly:
                # a comprehension / loop variable in value mode: only methods that leave the receiver as it was
                if meth not in STATE_PRESERVING:
                    raise Untranslatable(f"{meth} changes the state of {p.root}, which is a variable in value mode: {src}")
            else:
                self.write_place(p, f"{r}.1", ind)
            return f"{r}.2", parse_ty(self.G["wrap_rets"][meth])
        if p.ty == "GMidiFile" and ("MidiFile", meth) in IO_LINKS:
            for a in list(n.args) + [k.value for k in n.keywords]:
                v, t = self.expr(a, ind)
                if t != "Name":
                    raise Untranslatable(f"argument of an I/O method that is not a path: {src}")
            self.read_place(p, ind)
            self.emit(ind, f"pure ()   -- (I/O, not modelled: {IO_LINKS[('MidiFile', meth)]})")
            return "()", "Unit"
        if p.ty == "GMidiFile":
            own = self.G["own"].get(("MidiFile", meth))
            if own is None or own["static"]:
                raise Untranslatable(f"MidiFile.{meth} is not translated")
            args = self.bind_args(own["sig"], n, ind, f"MidiFile.{meth}")
            x = self.read_place(p, ind)
            r = self.fresh("r")
            self.emit(ind, f"let {r} ← {own['lean']} e {x} {' '.join(args)}".rstrip())
            self.write_place(p, f"{r}.1", ind)
            return f"{r}.2", own["ret"]
        raise Untranslatable(f"method {meth} on {lean_ty(p.ty)}: {src}")

    def dyn_method(self, name, meth, n, ind, src):
        """method call through a reference local: dispatch on the binding site"""
        sites = self.dyn[name]
        ref = self.lname(name)
        self.emit(ind, "-- (dispatch on what the reference names: " + ", ".join(f"{k} = {p}" for k, p in sorted(sites.items())) + ")")
        ret = None
        first = True
        for k, shape in sorted(sites.items()):
            steps, j = [], 0
            for s in shape.steps:
                if s[0] == "idx":
                    steps.append(("idx", f"({ref}.path.getD {j} 0)", "Nat", None))
                    j += 1
                else:
                    steps.append(s)
            p = Place(shape.root, steps, shape.ty)
            self.emit(ind, f"{'if' if first else 'else if'} {ref}.root = {k} then")
            first = False
            v, t = self.method_on_place(p, meth, n, ind + "  ", src)
            if t != "Unit":
                raise Untranslatable(f"value-returning method through a reference: {src}")
            ret = t
        self.emit(ind, "else" if not first else "if true then")
        self.emit(ind + "  ", "throw Err.attributeError")
        return "()", ret or "Unit"

    def list_index(self, v, t, n, ind):
        if len(n.args) != 1 or n.keywords:
            raise Untranslatable(f"index call {ast.unparse(n)}")
        x, tx = self.expr(n.args[0], ind)
        if tx != t[1]:
            raise Untranslatable(f"index of a {lean_ty(tx)} in {lean_ty(t)}")
        u = self.fresh("x")
        self.emit(ind, f"let {u} ← pyIndexOf {v} {x}")
        return u, "Nat"

    def list_method(self, p, meth, n, ind, src):
        if meth == "index":
            return self.list_index(self.read_place(p, ind), p.ty, n, ind)
        if meth == "append":
            if len(n.args) != 1 or n.keywords:
                raise Untranslatable(src)
            v, t = self.expr(n.args[0], ind)
            et = p.ty[1]
            if et == "?":
                def fill(ty):
                    return t if ty == "?" else ((ty[0],) + tuple(fill(x) for x in ty[1:]) if isinstance(ty, tuple) else ty)
                if any(s[0] != "idx" for s in p.steps) or p.root not in self.types:
                    raise Untranslatable(f"append to a list of unknown element type: {src}")
                self.types[p.root] = fill(self.types[p.root])
                self.final_types[p.root] = self.types[p.root]
                et = t
                p = Place(p.root, p.steps, TL(et))
            v = self.coerce(v, t, et)
            # the appended object is now also reachable through this list
            q = self.place_of(n.args[0], ind) if isinstance(n.args[0], (ast.Name, ast.Subscript, ast.Attribute)) else None
            if q is not None and mutable(q.ty):
                self.shares.append((p.extend(("idx", "*", "Nat", None), et), q))
            cur = self.read_place(p, ind)
            self.write_place(p, f"{cur} ++ [{v}]", ind, mutation=False)
            self.length_changed(p)
            return "()", "Unit"
        if meth == "pop":
            if not (len(n.args) == 1 and isinstance(n.args[0], ast.Constant) and n.args[0].value == 0) or n.keywords:
                raise Untranslatable(f"only pop(0) is translated: {src}")
            cur = self.read_place(p, ind)
            u = self.fresh("q")
            self.emit(ind, f"let {u} ← pyPop0 {cur}")
            self.write_place(p, f"{u}.2", ind, mutation=False)
            self.length_changed(p)
            return f"{u}.1", p.ty[1]
        raise Untranslatable(src)

    def length_changed(self, p):
        for lp in getattr(self, "alias_loops", []):
            if may_overlap(lp, p) and len(p.steps) <= len(lp.steps):
                raise Untranslatable(f"the length of {p} changes inside a loop over it")
        self.kill_aliases(p, f"the list {p} changed its length")

    def call_name(self, fid, n, ind, src):
        if fid == "super":
            return "()", "Unit"
        if fid == "len" and len(n.args) == 1:
            v, t = self.expr(n.args[0], ind)
            if not is_list(t):
                raise Untranslatable(f"len of {lean_ty(t)}")
            return f"({v}.length : Int)", "Int"
        if fid == "int" and len(n.args) == 1:
            return f"(pyIntOf {self.pynum(n.args[0], ind)})", "Int"
        if fid == "round" and len(n.args) == 1:
            v, t = self.expr(n.args[0], ind)
            if t == "Rat":
                return f"(pyRound {v})", "Int"
            if t in ("Int", "Nat"):            # only in a typing pass, before the local is known to hold a float
                return self.num_cast(v, t, "Int"), "Int"
            raise Untranslatable(f"round of {lean_ty(t)}")
        if fid == "sum" and len(n.args) == 1:
            v, t = self.expr(n.args[0], ind)
            if t != TL("Int"):
                raise Untranslatable(f"sum over {lean_ty(t)}")
            return f"{v}.sum", "Int"
        if fid in ("all", "any") and len(n.args) == 1:
            v, t = self.expr(n.args[0], ind)
            if t != TL("Bool"):
                raise Untranslatable(f"{fid} over {lean_ty(t)}")
            return f"({v}.{fid} id)", "Bool"
        if fid == "next" and len(n.args) in (1, 2) and isinstance(n.args[0], ast.GeneratorExp):
            (it, binder, cond), et = self.comprehension(n.args[0], ind, want_find=True)
            if len(n.args) == 2:
                if not (isinstance(n.args[1], ast.Constant) and n.args[1].value is None):
                    raise Untranslatable(f"next with a default other than None: {src}")
                return f"({paren(it)}.find? (fun {binder} => {cond}))", TO(et)
            u = self.fresh("x")
            self.emit(ind, f"let {u} ← pyNext {it} (fun {binder} => {cond})")
            return u, et
        if fid == "hasattr" and len(n.args) == 2 and isinstance(n.args[1], ast.Constant):
            v, t = self.expr(n.args[0], ind)
            if t != "MidoMsg":
                raise Untranslatable(f"hasattr on {lean_ty(t)}")
            f, ft = self.field_of(t, n.args[1].value)
            return (f"{v}.{f}.isSome" if is_opt(ft) else "true"), "Bool"
        if fid == "Sequence":
            if n.args:
                raise Untranslatable(f"positional Sequence arguments: {src}")
            a = r = "none"
            for kw in n.keywords:
                v, t = self.expr(kw.value, ind)
                if t != TL("Msg"):
                    raise Untranslatable(f"Sequence({kw.arg}=…) of type {lean_ty(t)}")
                if kw.arg == "absolute_sequence":
                    a = f"(some {v})"
                elif kw.arg == "relative_sequence":
                    r = f"(some {v})"
                else:
                    raise Untranslatable(f"Sequence keyword {kw.arg}")
            return ("Seq.new" if not n.keywords else f"(View.seq_init {a} {r})"), "Seq"
        if fid == "Message":
            return self.message(n, ind)
        if fid == "ReadOnlyMessage" and len(n.args) == 1 and not n.keywords:
            v, t = self.expr(n.args[0], ind)
            if t != "Msg":
                raise Untranslatable(f"ReadOnlyMessage of {lean_ty(t)}")
            return f"(pyMsgCopy {v})", "Msg"
        if fid == "Key" and len(n.args) == 1 and not n.keywords:
            v, t = self.expr(n.args[0], ind)
            if t != "Key":
                raise Untranslatable(f"Key(…) of {lean_ty(t)}")
            return v, "Key"          # Key(k) for a member k of the enum is k
        if fid == "MidiMessage" and not n.args and not n.keywords:
            return "MidiEv.empty", "MidiEv"
        if fid == "MidiTrack" and not n.args and not n.keywords:
            return "([] : List MidiEv)", TL("MidiEv")
        if fid in CLASSES and (fid, "__init__") in self.G["own"]:
            info = self.G["own"][(fid, "__init__")]
            args = self.bind_args(info["sig"], n, ind, f"{fid}()")
            u = self.fresh("o")
            self.emit(ind, f"let {u} ← {info['lean']} e {' '.join(args)}".rstrip())
            return u, CLASSES[fid]["lean"]
        if fid == "Bar":
            sig = self.G["bar_sig"]
            args = self.bind_args(sig, n, ind, "Bar()")
            u = self.fresh("o")
            self.emit(ind, f"let {u} ← Elem.barInit e {' '.join(args)}")
            return u, "GBar"
        raise Untranslatable(f"call {src}")

    # ---- statements
    def declare(self, name, v, t, ind):
        t = self.seed(name, t)
        self.types[name] = t
        self.declared[name] = self.scope[-1]
        self.record_type(name, t)
        self.emit(ind, f"let mut {self.lname(name)} : {lean_ty(t)} := {v}")

    def assign_name(self, name, value_node, ind, src):
        if name in self.readonly or name in self.narrow:
            raise Untranslatable(f"assignment to {name} (a loop / comprehension variable or a narrowed local)")
        final = self.seeds.get(name)
        # reference locals (bound to None / to different objects in different branches)
        if final == "PRef" or name in self.dyn:
            self.dyn.setdefault(name, {})
            if isinstance(value_node, ast.Constant) and value_node.value is None:
                v = "({} : PRef)"
            else:
                p = self.place_of(value_node, ind)
                if p is None or p.ty != "Seq":
                    raise Untranslatable(f"reference local {name} bound to something that is not a sequence place: {src}")
                key = (name, value_node.lineno, value_node.col_offset)
                if key not in self.sites:
                    self.site_ctr += 1
                    self.sites[key] = self.site_ctr
                k = self.sites[key]
                self.dyn[name][k] = p
                self.check_readable(p)
                idx = [self.num_cast(s[1], s[2], "Nat") if s[2] == "Nat" else f"{s[1]}.toNat" for s in p.steps if s[0] == "idx"]
                v = f"{{ root := {k}, path := [{', '.join(idx)}] }}"
            if name not in self.types:
                self.types[name] = "PRef"
                self.declared[name] = self.scope[-1]
                self.emit(ind, f"let mut {self.lname(name)} : PRef := {v}")
            else:
                self.emit(ind, f"{self.lname(name)} := {v}")
            self.record_type(name, "PRef")
            return
        # is the right-hand side an existing mutable object (a place)?  then the local is an alias, not a copy
        mark = len(self.lines)
        p = None
        if isinstance(value_node, (ast.Name, ast.Subscript, ast.Attribute)):
            p = self.place_of(value_node, ind)
        if p is not None and mutable(p.ty) and p.ty != "MidiEv":
            if name in self.types and name not in self.alias:
                if self.types[name] == "NoneT":
                    self.record_type(name, "PRef")      # found in a typing pass: becomes a reference local
                    self.types[name] = "PRef"
                    return
                raise Untranslatable(f"{name} is bound both to a fresh value and to an existing object: {src}")
            if name in self.alias:
                if self.n_assign.get(name, 0) > 1:
                    self.record_type(name, "PRef")
                    return
                raise Untranslatable(f"alias {name} re-bound")
            if self.n_assign.get(name, 0) > 1:
                self.record_type(name, "PRef")          # typing pass: several bindings -> reference local
                self.alias[name] = p
                return
            self.check_readable(p)
            self.alias[name] = p
            self.dead.pop(name, None)
            self.emit(ind, f"-- ({name} ≡ {p}: an alias, read and written in place; the read below is the IndexError of the binding)")
            if any(st[0] == "idx" for st in p.steps):
                x = self.read_place(p, ind)
                self.emit(ind, f"let _ := {x}")
            return
        del self.lines[mark:]
        v, t = self.expr(value_node, ind)
        if isinstance(value_node, ast.Call) and isinstance(value_node.func, ast.Name) and value_node.func.id == "next" and mutable(t):
            srcroot = self.root_of(value_node.args[0].generators[0].iter)
            if srcroot:
                self.borrowed[name] = srcroot
        if name not in self.types:
            self.declare(name, self.coerce(v, t, self.seed(name, t)) if self.seed(name, t) != t else v, t, ind)
        else:
            known = self.types[name]
            if known == "NoneT" and t != "NoneT":
                self.record_type(name, t)       # typing pass
                self.types[name] = self.final_types[name]
                return
            if known == TL("?") and is_list(t):
                self.types[name] = known = t
            if known == "Int" and t == "Rat":
                self.record_type(name, "Rat")   # typing pass
                return
            self.record_type(name, t)
            self.emit(ind, f"{self.lname(name)} := {self.coerce(v, t, known)}")
        if mutable(self.types[name]):
            self.rebind_root(name)

    def root_of(self, n):
        while isinstance(n, (ast.Subscript, ast.Attribute)):
            n = n.value
        return n.id if isinstance(n, ast.Name) else None

    def stmts(self, body, ind):
        for s in body:
            self.stmt(s, ind)

    def stmt(self, s, ind):
        src = ast.unparse(s).split("\n")[0]
        if isinstance(s, ast.Expr) and isinstance(s.value, ast.Constant) and isinstance(s.value.value, str):
            return
        if isinstance(s, (ast.Import, ast.ImportFrom)):
            return
        if isinstance(s, ast.Expr) and isinstance(s.value, ast.Call):
            self.lines.append(f"{ind}-- {src}")
            self.expr(s.value, ind)
        elif isinstance(s, (ast.Assign, ast.AnnAssign)):
            if isinstance(s, ast.Assign) and len(s.targets) != 1:
                raise Untranslatable("multiple assignment")
            tgt = s.targets[0] if isinstance(s, ast.Assign) else s.target
            if s.value is None:
                raise Untranslatable(f"annotation without value: {src}")
            self.lines.append(f"{ind}-- {src}")
            if isinstance(tgt, ast.Name):
                self.assign_name(tgt.id, s.value, ind, src)
            elif isinstance(tgt, ast.Attribute):
                self.store_field(tgt, s.value, ind, src)
            elif isinstance(tgt, ast.Subscript):
                self.store_slot(tgt, s.value, ind, src)
            else:
                raise Untranslatable(f"assignment target {src}")
        elif isinstance(s, ast.AugAssign):
            if not (isinstance(s.target, ast.Name) and s.target.id in self.types and isinstance(s.op, (ast.Add, ast.Sub))):
                raise Untranslatable(f"augmented assignment {src}")
            self.lines.append(f"{ind}-- {src}")
            name = s.target.id
            v, t = self.expr(s.value, ind)
            known = self.types[name]
            if known == "Int" and t == "Rat":
                self.record_type(name, "Rat")       # typing pass
                return
            if known not in ("Int", "Rat"):
                raise Untranslatable(f"augmented assignment to {lean_ty(known)}")
            sym = "+" if isinstance(s.op, ast.Add) else "-"
            self.emit(ind, f"{self.lname(name)} := {self.lname(name)} {sym} {self.num_cast(v, t, known)}")
        elif isinstance(s, ast.If):
            self.if_stmt(s, ind)
        elif isinstance(s, ast.Raise):
            txt = ast.unparse(s.exc)
            name = txt.split("(")[0]
            if name not in EXC:
                raise Untranslatable(f"raise {txt}")
            self.emit(ind, f"throw {EXC[name]}", src)
        elif isinstance(s, ast.Return):
            if self.lift_depth:
                raise Untranslatable(f"return inside a loop: {src}")
            self.lines.append(f"{ind}-- {src}")
            v, t = ("()", "Unit") if s.value is None else self.expr(s.value, ind)
            if self.ret_type not in (None, t):
                raise Untranslatable(f"return types differ: {self.ret_type} / {t}")
            self.ret_type = t
            self.emit(ind, f"return {v}" if self.static else f"return (self_, {v})")
        elif isinstance(s, ast.For):
            self.for_stmt(s, ind, src)
        elif isinstance(s, ast.While):
            self.while_stmt(s, ind, src)
        elif isinstance(s, ast.Pass):
            self.emit(ind, "pure ()", src)
        elif isinstance(s, ast.Continue):
            if not self.loop_stack:
                raise Untranslatable("continue outside a loop")
            self.emit(ind, f"@@CONTINUE{self.loop_stack[-1]}@@", src)
        elif isinstance(s, ast.Break):
            if not self.loop_stack:
                raise Untranslatable("break outside a loop")
            self.emit(ind, f"@@BREAK{self.loop_stack[-1]}@@", src)
        else:
            raise Untranslatable(f"statement {type(s).__name__}: {src}")

    def store_field(self, tgt, value, ind, src):
        """obj.field = value  (self or an owned local object)"""
        if isinstance(tgt.value, ast.Name) and tgt.value.id == "self" and not self.static:
            f = self.cfg["fields"].get(tgt.attr, "missing")
            if f == "missing":
                raise Untranslatable(f"store into unknown field {tgt.attr}")
            v, t = self.expr(value, ind)
            if f is None:
                return
            self.emit(ind, f"self_ := {{ self_ with {f[0]} := {self.coerce(v, t, f[1])} }}")
            return
        if not (isinstance(tgt.value, ast.Name) and tgt.value.id in self.types and tgt.value.id not in self.alias):
            raise Untranslatable(f"field store through something that is not an owned local: {src}")
        name = tgt.value.id
        ty = self.types[name]
        if ty != "MidiEv":
            raise Untranslatable(f"field store into a {lean_ty(ty)}: {src}")
        f, ft = self.field_of(ty, tgt.attr)
        v, t = self.expr(value, ind)
        self.emit(ind, f"{self.lname(name)} := {{ {self.lname(name)} with {f} := {self.coerce(v, t, ft)} }}")

    def store_slot(self, tgt, value, ind, src):
        """lst[i] = value"""
        if isinstance(tgt.slice, ast.Slice):
            raise Untranslatable(f"slice store {src}")
        p = self.place_of(tgt, ind)
        if p is None:
            raise Untranslatable(f"store into something that is not a place: {src}")
        q = self.place_of(value, ind) if isinstance(value, (ast.Name, ast.Subscript, ast.Attribute)) else None
        v, t = self.expr(value, ind)
        # aliases of the slot keep naming the old object: they are dead from here on
        self.kill_aliases(p, f"its slot {p} was re-assigned")
        self.poison = [(x, w) for x, w in self.poison if not (x.root == p.root and len(x.steps) >= len(p.steps) and may_overlap(x, p)
                                                              and all(a[1] == b[1] for a, b in zip(x.steps, p.steps)))]
        self.shares = [(a, b) for a, b in self.shares if not (repr(a) == repr(p) or repr(b) == repr(p))]
        self.write_place(p, self.coerce(v, t, p.ty), ind, mutation=False)
        if q is not None and mutable(q.ty):
            self.shares.append((p, q))

    def if_stmt(self, s, ind):
        t = s.test
        # narrowing: `if v is not None:` / `if v is None:` on an Option local
        if isinstance(t, ast.Compare) and len(t.ops) == 1 and isinstance(t.ops[0], (ast.Is, ast.IsNot)) \
                and isinstance(t.comparators[0], ast.Constant) and t.comparators[0].value is None \
                and isinstance(t.left, ast.Name) and is_opt(self.types.get(t.left.id, "")) and t.left.id not in self.narrow:
            name = t.left.id
            some_body, none_body = (s.body, s.orelse) if isinstance(t.ops[0], ast.IsNot) else (s.orelse, s.body)
            inner = self.fresh(camel(name) + "V")
            self.emit(ind, f"match {self.lname(name)} with", f"if {ast.unparse(t)}:")
            self.emit(ind, f"| some {inner} =>")
            self.narrow[name] = Narrow(inner, self.types[name][1])
            self.block(some_body, ind + "  ")
            del self.narrow[name]
            self.emit(ind, "| none =>")
            self.block(none_body, ind + "  ")
            return
        c, ct = self.expr(t, ind)
        if ct != "Bool":
            raise Untranslatable(f"condition {ast.unparse(t)} : {lean_ty(ct)}")
        self.emit(ind, f"if {c} then", f"if {ast.unparse(t)}:")
        self.block(s.body, ind + "  ")
        if s.orelse:
            self.emit(ind, "else")
            self.block(s.orelse, ind + "  ")

    def block(self, body, ind):
        self.push_scope()
        before = set(self.types)
        mark = len(self.lines)
        self.stmts(body, ind)
        if not any(not l.strip().startswith("--") for l in self.lines[mark:]):
            self.emit(ind, "pure ()")
        # locals declared in the block are out of scope afterwards
        for name in set(self.types) - before:
            self.block_locals.setdefault(name, self.types[name])
            del self.types[name]
            self.alias.pop(name, None)
        for name in [a for a in self.alias if self.alias_scope.get(a, 0) not in self.scope[:-1] and a not in before and False]:
            del self.alias[name]
        self.pop_scope()

    def derived_mutated(self, var, body):
        """is the object bound to `var` (or anything reached from it) changed or handed on inside `body`?"""
        derived = {var}
        changed = True
        while changed:
            changed = False
            for node in [x for st in body for x in ast.walk(st)]:
                new = []
                if isinstance(node, (ast.For, ast.comprehension)):
                    it = node.iter
                    if isinstance(it, ast.Call) and isinstance(it.func, ast.Name) and it.func.id == "enumerate" and it.args:
                        it = it.args[0]
                    if self.root_of(it) in derived:
                        new = [x.id for x in ast.walk(node.target) if isinstance(x, ast.Name)]
                elif isinstance(node, ast.Assign) and len(node.targets) == 1 and isinstance(node.targets[0], ast.Name) \
                        and isinstance(node.value, (ast.Name, ast.Subscript)) and self.root_of(node.value) in derived:
                    new = [node.targets[0].id]
                for x in new:
                    if x not in derived:
                        derived.add(x)
                        changed = True
        for node in [x for st in body for x in ast.walk(st)]:
            if isinstance(node, ast.Call):
                if isinstance(node.func, ast.Attribute) and self.root_of(node.func.value) in derived and node.func.attr != "index":
                    return True
                for a in list(node.args) + [k.value for k in node.keywords]:
                    if isinstance(a, (ast.Name, ast.Subscript)) and self.root_of(a) in derived \
                            and not (isinstance(node.func, ast.Name) and node.func.id in ("len", "enumerate", "any", "all", "sum")):
                        return True
            if isinstance(node, (ast.Assign, ast.AugAssign)):
                for tg in (node.targets if isinstance(node, ast.Assign) else [node.target]):
                    if isinstance(tg, (ast.Attribute, ast.Subscript)) and self.root_of(tg) in derived:
                        return True
        return False

    def enter_loop(self, body):
        """aliases bound outside a loop die at its entry if the loop re-assigns a slot of their container"""
        for node in [x for st in body for x in ast.walk(st)]:
            if isinstance(node, ast.Assign):
                for tg in node.targets:
                    if isinstance(tg, ast.Subscript):
                        root = self.root_of(tg)
                        for al, pl in self.alias.items():
                            if pl.root == root and al not in self.dead:
                                self.dead[al] = f"a slot of {root} is re-assigned inside the loop that starts here"
        self.loop_reads.append([])
        return len(self.poison)

    def leave_loop(self, mark, idx, declared_before):
        reads = self.loop_reads.pop()
        new = self.poison[mark:]
        keep = []
        for p, why in new:
            if p.root not in declared_before and p.root != "self":
                continue            # the poisoned object lived in a local of the body
            for r in reads:
                if may_overlap(r, p, distinct=idx):
                    raise Untranslatable(f"a later iteration reads {r} after {why} ({p})")
            steps = [(("idx", "*", s[2], None) if s[0] == "idx" and s[1] == idx else s) for s in p.steps]
            keep.append((Place(p.root, steps, p.ty), why))
        self.poison[mark:] = keep
        self.shares = [(a, b) for a, b in self.shares if (a.root in declared_before or a.root == "self")
                       and (b.root in declared_before or b.root == "self")]
        for lst in self.loop_reads:
            lst.extend(reads)

    # ---- loops: every loop body is lifted into a named definition `<function>_loop<k>` whose parameters are the free
    #      variables of the body, the loop element and the tuple of the locals the body assigns
    def scope_candidates(self):
        c = {}
        for name, t in self.types.items():
            c[self.lname(name)] = t
        for name, nr in self.narrow.items():
            c[nr.lean] = nr.ty
        c.update(self.extra_scope)
        return c

    def lift_loop(self, ind, iter_text, binder, binder_ty, body_fn, src_note):
        """translate a loop: `body_fn(ind)` emits the body; returns nothing (emits the call and the read-back)"""
        self.loop_ctr += 1
        k = self.loop_ctr
        cands = self.scope_candidates()
        saved = self.lines
        self.lines = []
        self.lift_depth += 1
        self.loop_stack.append(k)
        body_fn("  ")
        self.loop_stack.pop()
        self.lift_depth -= 1
        body = self.lines
        self.lines = saved
        import re
        code = [l for l in body if not l.strip().startswith("--")]
        written, mentioned = [], set()
        for l in code:
            m = re.match(r"^\s*([A-Za-z][A-Za-z0-9_]*) (?::=|←) ", l)
            if m and m.group(1) in cands and m.group(1) not in written:
                written.append(m.group(1))
            mentioned.update(re.findall(r"[A-Za-z_][A-Za-z0-9_]*", l.split(" -- ")[0]))
        order = list(cands)
        state = [v for v in order if v in written]
        free = [v for v in order if v in mentioned and v not in state and v != binder]
        for v in state:
            pyname = next((n for n in self.types if self.lname(n) == v), None)
            if pyname is None or pyname in self.readonly:
                raise Untranslatable(f"loop body assigns {v}, which is not an assignable local")
        tys = [lean_ty(cands[v]) for v in state]
        st_ty = " × ".join(paren(t) if " × " in t and not t.startswith("(") else t for t in tys) if state else "Unit"
        tup = "(" + ", ".join(state) + ")" if len(state) != 1 else state[0]
        if not state:
            tup = "()"
        name = f"{camel(self.fn.name)}_loop{k}"
        params = " ".join(f"({v} : {lean_ty(cands[v])})" for v in free)
        head = f"def {self.lean_name}_loop{k} (e : Env) {params} ({binder} : {lean_ty(binder_ty)}) (st_ : {st_ty}) : Except Err (ForInStep ({st_ty})) := do".replace("  ", " ")
        pre = []
        for j, v in enumerate(state):
            proj = "st_" if len(state) == 1 else "st_." + "2." * j + ("1" if j < len(state) - 1 else "")
            proj = proj.rstrip(".") if not proj.endswith(".") else proj
            if len(state) > 1 and j == len(state) - 1:
                proj = "st_." + ".".join(["2"] * j)
            pre.append(f"  let mut {v} := {proj}")
        body = [l.replace(f"@@BREAK{k}@@", f"return ForInStep.done {tup}").replace(f"@@CONTINUE{k}@@", f"return ForInStep.yield {tup}")
                for l in body]
        self.aux.append(f"/-- body of a loop of `{self.cls}.{self.fn.name}`: {src_note} -/\n" + "\n".join([head] + pre + body + [f"  return ForInStep.yield {tup}"]) + "\n")
        call = f"{self.lean_name}_loop{k} e {' '.join(free)}".rstrip()
        if state:
            r = self.fresh("st")
            self.emit(ind, f"let {r} ← forIn {paren(iter_text)} {tup} ({call})")
            for j, v in enumerate(state):
                if len(state) == 1:
                    proj = r
                elif j == len(state) - 1:
                    proj = r + "." + ".".join(["2"] * j)
                else:
                    proj = r + "." + ".".join(["2"] * j + ["1"])
                self.emit(ind, f"{v} := {proj}")
        else:
            self.emit(ind, f"let _ ← forIn {paren(iter_text)} () ({call})")

    def for_stmt(self, s, ind, src):
        if s.orelse:
            raise Untranslatable(f"for/else {src}")
        self.lines.append(f"{ind}-- {src}")
        enum = isinstance(s.iter, ast.Call) and isinstance(s.iter.func, ast.Name) and s.iter.func.id == "enumerate" \
            and len(s.iter.args) == 1 and not s.iter.keywords
        srcnode = s.iter.args[0] if enum else s.iter
        var = None
        if enum and isinstance(s.target, ast.Tuple) and len(s.target.elts) == 2 and all(isinstance(x, ast.Name) for x in s.target.elts):
            var = s.target.elts[1].id
        elif not enum and isinstance(s.target, ast.Name):
            var = s.target.id
        lp = self.place_of(srcnode, ind) if isinstance(srcnode, (ast.Name, ast.Subscript, ast.Attribute)) else None
        declared_before = set(self.types)
        if var is not None and lp is not None and is_list(lp.ty) and mutable(lp.ty[1]) and self.derived_mutated(var, s.body):
            # alias mode
            cur = self.read_place(lp, ind)
            idx = self.lname(s.target.elts[0].id) if enum else self.fresh("i") + "_"
            mark = self.enter_loop(s.body)
            self.emit(ind, f"-- ({var} ≡ {lp}[{idx}]: an alias, read and written in place; the length of {lp} is fixed)")

            def body_fn(bind):
                self.alias_loops = getattr(self, "alias_loops", []) + [lp]
                self.push_scope()
                if enum:
                    self.types[s.target.elts[0].id] = "Nat"
                    self.readonly.add(s.target.elts[0].id)
                else:
                    self.extra_scope[idx] = "Nat"
                self.alias[var] = lp.extend(("idx", idx, "Nat", None), lp.ty[1])
                self.dead.pop(var, None)
                before = set(self.types)
                self.stmts(s.body, bind)
                for name in set(self.types) - before:
                    del self.types[name]
                self.alias_loops = self.alias_loops[:-1]
                del self.alias[var]
                if enum:
                    del self.types[s.target.elts[0].id]
                    self.readonly.discard(s.target.elts[0].id)
                else:
                    del self.extra_scope[idx]
                self.pop_scope()
            self.lift_loop(ind, f"List.range {cur}.length", idx, "Nat", body_fn, src)
            self.leave_loop(mark, idx, declared_before)
            return
        # value mode
        it, binder, binds = self.bind_loop_targets(s.target, s.iter, ind, False)
        mark = self.enter_loop(s.body)
        et = None
        for name, proj, t in binds:
            if name in self.types:
                raise Untranslatable(f"loop variable {name} shadows a local")
        if len(binds) == 1 and binds[0][1] is None:
            et = binds[0][2]
        elif enum:
            et = ("Tuple", binds[1][2], "Nat")
        else:
            et = ("Tuple", binds[0][2], binds[1][2])

        def body_fn(bind):
            self.push_scope()
            for name, proj, t in binds:
                if name == "_":
                    continue
                self.types[name] = t
                self.readonly.add(name)
                if proj is not None:
                    self.emit(bind, f"let {self.lname(name)} : {lean_ty(t)} := {proj}")
            before = set(self.types)
            self.stmts(s.body, bind)
            for name in set(self.types) - before:
                del self.types[name]
            for name, _, _ in binds:
                self.types.pop(name, None)
                self.readonly.discard(name)
            self.pop_scope()
        self.lift_loop(ind, it, binder, et, body_fn, src)
        self.leave_loop(mark, None, declared_before)

    def while_stmt(self, s, ind, src):
        if s.orelse:
            raise Untranslatable(f"while/else {src}")
        key = (self.fn.name, ast.unparse(s.test))
        if key not in WHILE_FUEL:
            raise Untranslatable(f"while loop without a stated bound: {key}")
        tmpl, why = WHILE_FUEL[key]
        fuel_expr = tmpl
        import re
        for m in re.findall(r"\{(\w+)\}", tmpl):
            if m not in self.types:
                raise Untranslatable(f"fuel bound mentions unknown local {m}")
            fuel_expr = fuel_expr.replace("{" + m + "}", self.lname(m))
        declared_before = set(self.types)
        fuel = self.fresh("fuel")
        self.emit(ind, f"-- {src}   fuel: {why}")
        self.emit(ind, f"let {fuel} : Nat := {fuel_expr}")
        mark = self.enter_loop(s.body)
        m0 = len(self.lines)
        c, ct = self.expr(s.test, ind)
        if ct != "Bool" or len(self.lines) != m0:
            raise Untranslatable(f"while test {ast.unparse(s.test)}")

        def body_fn(bind):
            self.emit(bind, f"if !{c} then")
            self.emit(bind + "  ", f"@@BREAK{self.loop_stack[-1]}@@")
            self.push_scope()
            before = set(self.types)
            self.stmts(s.body, bind)
            for name in set(self.types) - before:
                del self.types[name]
            self.pop_scope()
        self.lift_loop(ind, f"List.replicate {fuel} ()", "_u", "Unit", body_fn, src)
        self.leave_loop(mark, None, declared_before)
        self.emit(ind, f"if {c} then throw Err.fuel")

    # ---- whole function
    def translate(self, lean_name, sig):
        fn = self.fn
        self.lean_name = lean_name
        self.is_init = fn.name == "__init__"
        self.block_locals, self.alias_scope = {}, {}
        self.n_assign = {}
        for node in ast.walk(fn):
            if isinstance(node, ast.Assign) and len(node.targets) == 1 and isinstance(node.targets[0], ast.Name):
                self.n_assign[node.targets[0].id] = self.n_assign.get(node.targets[0].id, 0) + 1
        assigned = set(self.n_assign)
        self.param_names = {p[0] for p in sig}
        params, pre = [], []
        for name, default, ty in sig:
            optional = default is not None and isinstance(default, ast.Constant) and default.value is None and ty not in ("Int", "Key")
            pty = TO(ty) if optional else ty
            if name in assigned or optional or name in self.G.get("mut_params", {}).get((self.cls, fn.name), set()):
                params.append(f"({self.lname(name)}0 : {lean_ty(pty)})")
                pre.append(f"  let mut {self.lname(name)} : {lean_ty(pty)} := {self.lname(name)}0")
                self.types[name] = pty
            else:
                params.append(f"({self.lname(name)} : {lean_ty(pty)})")
                self.types[name] = pty
                self.readonly.add(name)
        if not self.static:
            self.types["self"] = self.cfg["lean"]
        self.lines = list(pre)
        self.stmts(fn.body, "  ")
        last = [s for s in fn.body if not (isinstance(s, ast.Expr) and isinstance(s.value, ast.Constant))][-1]
        lean_cls = lean_ty(self.cfg["lean"])
        if self.is_init:
            self.lines.append("  return self_")
            ret = self.cfg["lean"]
            head = f"def {lean_name} (e : Env) {' '.join(params)} : Except Err {paren(lean_cls)} := do"
            first = [f"  let mut self_ : {lean_cls} := default"]
        elif self.static:
            if not isinstance(last, ast.Return):
                raise Untranslatable("static method without a final return")
            ret = self.ret_type
            head = f"def {lean_name} (e : Env) {' '.join(params)} : Except Err {paren(lean_ty(ret))} := do"
            first = []
        else:
            if not isinstance(last, ast.Return):
                if self.ret_type not in (None, "Unit"):
                    raise Untranslatable("falls off the end of a value-returning method")
                self.ret_type = "Unit"
                self.lines.append("  return (self_, ())")
            ret = self.ret_type
            head = f"def {lean_name} (e : Env) (self0 : {lean_cls}) {' '.join(params)} : Except Err ({lean_cls} × {paren(lean_ty(ret))}) := do"
            first = ["  let mut self_ := self0"]
        head = head.replace("  :", " :")
        return "\n".join(self.aux + [f"/-- translation of `{self.cls}.{fn.name}` ({self.cfg['file'].split('/')[-1]}:{fn.lineno}) -/"]
                         + [head] + first + self.lines) + "\n", ret


def method_sig(cls, fn, static):
    args = fn.args.args if static else fn.args.args[1:]
    defaults = [None] * (len(args) - len(fn.args.defaults)) + list(fn.args.defaults)
    sig = []
    for a, d in zip(args, defaults):
        ty = PARAM_TYPES.get((cls, fn.name, a.arg))
        if ty is None:
            raise Untranslatable(f"parameter {cls}.{fn.name}({a.arg}): no type")
        sig.append((a.arg, d, ty))
    return sig


def translate_function(cls, fn, lean, G):
    static = any(ast.unparse(d) == "staticmethod" for d in fn.decorator_list)
    sig = method_sig(cls, fn, static)
    seeds = {}
    for _ in range(8):
        tr = StaticTranslator(cls, fn, G, seeds)
        try:
            text, ret = tr.translate(lean, sig)
            err = None
        except RetryMutableParam as ex:
            G.setdefault("mut_params", {}).setdefault((cls, fn.name), set()).add(ex.name)
            continue
        except Untranslatable as ex:
            text, ret, err = None, None, ex
        new = {**seeds, **tr.final_types}
        if new == seeds:
            if err is not None:
                raise err
            return text, ret, sig, static, tr
        seeds = new
    raise Untranslatable(f"{cls}.{fn.name}: the types of the locals do not settle: {seeds}")


def gen_static_fns():
    _, wctx, wrets = gen_wrap_fns_ctx()
    bar = class_methods(os.path.join(REPO, py2lean_elem.CLASSES["Bar"]["file"]), "Bar")["__init__"]
    bar_sig = [(a, d, parse_ty(t)) for a, d, t in py2lean_elem.method_sig("Bar", bar, False)]
    G = {"wrap_sigs": wctx.wrapper_sigs, "wrap_rets": wrets, "view_sigs": wctx.view_sigs, "own": {}, "bar_sig": bar_sig}
    out, names, cache = [], [], {}
    for cls, meth, lean in SPECS:
        cfg = CLASSES[cls]
        if cls not in cache:
            cache[cls] = class_methods(os.path.join(REPO, cfg["file"]), cls)
        if meth not in cache[cls]:
            raise Untranslatable(f"{cls}.{meth} not found")
        fn = cache[cls][meth]
        text, ret, sig, static, tr = translate_function(cls, fn, lean, G)
        G["own"][(cls, meth)] = {"lean": lean, "sig": sig, "ret": ret, "static": static or meth == "__init__"}
        out.append(text)
        names.append(f"{cls}.{meth}")
    head = [
        "/- GENERATED by tools/py2lean_static.py from scoda/sequences/sequence.py, scoda/midi/{midi_file,midi_track,midi_message}.py — do not edit.",
        "   Statement-by-statement translation on top of the translated `Sequence` wrapper (Gen/WrapFns.lean) and the translated",
        "   `Bar.__init__` (Gen/ElemFns.lean).  Conventions and links: docstring of tools/py2lean_static.py, prelude Model/StaticLib.lean.",
        "   Object identity is modelled by position (aliases are read and written in place; references are `PRef`). -/",
        "import SCoda.Model.StaticLib",
        "import SCoda.Gen.ElemFns",
        "set_option linter.unusedVariables false",
        "namespace SCoda.Gen.Static",
        "open SCoda.Gen",
        "",
    ]
    tail = "def translated : List String := [" + ", ".join(f'"{x}"' for x in names) + "]\n"
    return "\n".join(head) + "\n" + "\n".join(out) + "\n" + tail + "\nend SCoda.Gen.Static\n"


if __name__ == "__main__":
    print(gen_static_fns())
